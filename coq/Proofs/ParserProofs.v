(* C06 proofs: parsing the print of a well-formed tree gives the tree back.

   Fuel never appears in the final statements.  [Ok off p ts r] says that the
   fuelled function [p] returns [Some r] on [ts] for every fuel
   >= 40 * length ts + off; the offsets are the heights of the functions in
   the "calls without consuming a token" graph, so each call of a callee at
   fuel m-1 on a suffix of the input is again above its threshold (a consumed
   token buys 40 units).  The lemmas about left-recursive levels are in
   continuation-passing form (DESIGN.md A.2): "parsing body e ++ rest at level
   L equals entering the loop of level L with accumulator e at rest". *)
From Coq Require Import ZArith NArith List Bool Arith Lia.
Import ListNotations.
From Verif Require Import Model.Ast Model.Lexer Model.Parser Model.Printer.
From Verif Require Model.Grammar Gen.Grammar.

(* ---------------------------------------------------------------------- *)
(* the grammar the parser model was written against is the grammar in the repository *)
Lemma grammar_pinned : Verif.Gen.Grammar.grammar = Verif.Model.Grammar.grammar.
Proof. vm_compute. reflexivity. Qed.

(* ---------------------------------------------------------------------- *)
(* unfolding equations of the fuelled functions *)

Lemma p_expression_S m ts : p_expression (S m) ts =
  match p_disjunction m ts with Some x => Some x | None => p_conjunction m ts end.
Proof. reflexivity. Qed.
Lemma p_disjunction_S m ts : p_disjunction (S m) ts =
  match p_conjunction m ts with Some (a, r) => or_loop m a [] r | None => None end.
Proof. reflexivity. Qed.
Lemma or_loop_S m a acc ts : or_loop (S m) a acc ts =
  match ts with
  | TKw KOR :: r => match p_conjunction m r with
                    | Some (b, r') => or_loop m a (b :: acc) r'
                    | None => Some (mk_bool EOr a acc, ts) end
  | _ => Some (mk_bool EOr a acc, ts)
  end.
Proof. reflexivity. Qed.
Lemma p_conjunction_S m ts : p_conjunction (S m) ts =
  match p_inversion m ts with Some (a, r) => and_loop m a [] r | None => None end.
Proof. reflexivity. Qed.
Lemma and_loop_S m a acc ts : and_loop (S m) a acc ts =
  match ts with
  | TKw KAND :: r => match p_inversion m r with
                     | Some (b, r') => and_loop m a (b :: acc) r'
                     | None => Some (mk_bool EAnd a acc, ts) end
  | _ => Some (mk_bool EAnd a acc, ts)
  end.
Proof. reflexivity. Qed.
Lemma p_inversion_S m ts : p_inversion (S m) ts =
  match ts with
  | TKw KNOT :: r => match p_inversion m r with Some (a, r') => Some (ENot a, r') | None => None end
  | _ => p_comparison m ts
  end.
Proof. reflexivity. Qed.
Lemma p_comparison_S m ts : p_comparison (S m) ts =
  match p_sum m ts with
  | None => None
  | Some (a, r0) =>
    match cmp_of_tokens r0 with
    | Some (op, r1) =>
      match p_sum m r1 with
      | Some (b, r2) => Some (ECmp op a b, r2)
      | None => Some (a, r0)
      end
    | None =>
      match r0 with
      | TKw KIS :: TId n :: r1 => if str_eqb n w_null then Some (EIsNull a, r1) else Some (a, r0)
      | TKw KIS :: TKw KNOT :: TId n :: r1 => if str_eqb n w_null then Some (EIsNotNull a, r1) else Some (a, r0)
      | TId n :: r1 =>
        if str_eqb n w_between then
          match p_sum m r1 with
          | Some (lo, TKw KAND :: r2) =>
            match p_sum m r2 with
            | Some (hi, r3) => Some (EBetween a lo hi, r3)
            | None => Some (a, r0)
            end
          | _ => Some (a, r0)
          end
        else Some (a, r0)
      | _ => Some (a, r0)
      end
    end
  end.
Proof. reflexivity. Qed.
Lemma p_sum_S m ts : p_sum (S m) ts =
  match p_term m ts with Some (a, r) => sum_loop m a r | None => None end.
Proof. reflexivity. Qed.
Lemma sum_loop_S m a ts : sum_loop (S m) a ts =
  match ts with
  | TPlus :: r => match p_term m r with
                  | Some (b, r') => sum_loop m (EArith Add a b) r' | None => Some (a, ts) end
  | TMinus :: r => match p_term m r with
                   | Some (b, r') => sum_loop m (EArith Sub a b) r' | None => Some (a, ts) end
  | _ => Some (a, ts)
  end.
Proof. reflexivity. Qed.
Lemma p_term_S m ts : p_term (S m) ts =
  match p_factor m ts with Some (a, r) => term_loop m a r | None => None end.
Proof. reflexivity. Qed.
Lemma term_loop_S m a ts : term_loop (S m) a ts =
  match ts with
  | TStar :: r => match p_factor m r with
                  | Some (b, r') => term_loop m (EArith Mul a b) r' | None => Some (a, ts) end
  | TSlash :: r => match p_factor m r with
                   | Some (b, r') => term_loop m (EArith Div a b) r' | None => Some (a, ts) end
  | TPercent :: r => match p_factor m r with
                     | Some (b, r') => term_loop m (EArith Mod a b) r' | None => Some (a, ts) end
  | TPlaceS :: r => match p_factor m (TId w_s :: r) with
                    | Some (b, r') => term_loop m (EArith Mod a b) r' | None => Some (a, ts) end
  | _ => Some (a, ts)
  end.
Proof. reflexivity. Qed.
Lemma p_factor_S m ts : p_factor (S m) ts =
  match p_unary m ts with
  | Some x => Some x
  | None => match ts with
            | TLP :: r => match p_expression m r with
                          | Some (e, TRP :: r') => Some (e, r')
                          | _ => None end
            | _ => None
            end
  end.
Proof. reflexivity. Qed.
Lemma p_unary_S m ts : p_unary (S m) ts =
  match ts with
  | TPlus :: r => p_atom m r
  | TMinus :: r => match p_factor m r with Some (a, r') => Some (ENeg a, r') | None => None end
  | _ => p_primary m ts
  end.
Proof. reflexivity. Qed.
Lemma p_primary_S m ts : p_primary (S m) ts =
  match p_atom m ts with Some (a, r) => Some (primary_loop a r) | None => None end.
Proof. reflexivity. Qed.
Lemma p_atom_S m ts : p_atom (S m) ts =
  match ts with
  | TKw KSELECT :: _ => p_select m ts
  | TId n :: r =>
    let plain := if str_eqb n w_null then Some (EConst LNull, r) else Some (EColumn n, r) in
    match r with
    | TLP :: r1 =>
      match p_args m r1 with
      | None => None
      | Some (args, TRP :: r2) => Some (EFunc n args, r2)
      | Some _ => match r1 with
                  | TStar :: TRP :: r2 => Some (EFuncStar n, r2)
                  | _ => plain
                  end
      end
    | _ => plain
    end
  | TLP :: r =>
    match r with
    | t :: TComma :: _ =>
      match lit_of_tok t with
      | Some _ => match p_lits [] r with
                  | (ls, TRP :: r') => Some (EList ls, r')
                  | _ => None
                  end
      | None => None
      end
    | _ => None
    end
  | TPlaceS :: r => Some (EPlace [], r)
  | TPlaceN n :: r => Some (EPlace n, r)
  | t :: r => match lit_of_tok t with Some l => Some (EConst l, r) | None => None end
  | [] => None
  end.
Proof. reflexivity. Qed.
Lemma p_args_S m ts : p_args (S m) ts =
  match p_expression m ts with
  | Some (e, r) => args_loop m [e] r
  | None => args_loop m [] ts
  end.
Proof. reflexivity. Qed.
Lemma args_loop_S m acc ts : args_loop (S m) acc ts =
  match ts with
  | TComma :: r => match p_expression m r with
                   | Some (e, r') => args_loop m (e :: acc) r'
                   | None => None end
  | _ => Some (rev acc, ts)
  end.
Proof. reflexivity. Qed.
Lemma p_select_S m ts : p_select (S m) ts = select_body (p_expression m) (p_select m) m ts.
Proof. reflexivity. Qed.

(* ---------------------------------------------------------------------- *)

Definition Ok {T : Type} (off : nat) (p : nat -> list token -> option (T * list token))
           (ts : list token) (r : T * list token) : Prop :=
  forall m, 40 * length ts + off <= m -> p m ts = Some r.

Lemma length_cons {A} (x : A) l : length (x :: l) = S (length l).
Proof. reflexivity. Qed.
Ltac len := repeat (rewrite app_length in * || rewrite length_cons in * ); simpl length in *; try lia.

(* what the token after an expression would be absorbed by:
   8 postfix, 6 * / %, 5 + -, 4 comparison, 2 AND, 1 OR, 0 nothing *)
Definition cont_lvl (t : token) : nat :=
  match t with
  | TDot | TLB => 8
  | TStar | TSlash | TPercent | TPlaceS => 6
  | TPlus | TMinus => 5
  | TLt | TLe | TGt | TGe | TEq | TNe | TTilde | TNotTilde | TKw KIN | TKw KNOT | TKw KIS => 4
  | TId s => if str_eqb s w_between then 4 else 0
  | TKw KAND => 2
  | TKw KOR => 1
  | _ => 0
  end.
Definition follow (L : nat) (rest : list token) : Prop :=
  match rest with [] => True | t :: _ => cont_lvl t < L end.

Lemma follow_mono L L' rest : follow L rest -> L <= L' -> follow L' rest.
Proof. destruct rest; simpl; auto. intros; lia. Qed.

(* loops stop *)
Lemma primary_loop_stop a rest : follow 8 rest -> primary_loop a rest = (a, rest).
Proof.
  destruct rest as [|t r]; [reflexivity|]. simpl. intros H.
  destruct t; simpl in H; try lia; try reflexivity.
Qed.
Lemma term_loop_stop a rest : follow 6 rest -> Ok 1 (fun m => term_loop m a) rest (a, rest).
Proof.
  intros H m Hm. destruct m; [lia|]. rewrite term_loop_S.
  destruct rest as [|t r]; [reflexivity|]. destruct t; simpl in H; try lia; reflexivity.
Qed.
Lemma sum_loop_stop a rest : follow 5 rest -> Ok 1 (fun m => sum_loop m a) rest (a, rest).
Proof.
  intros H m Hm. destruct m; [lia|]. rewrite sum_loop_S.
  destruct rest as [|t r]; [reflexivity|]. destruct t; simpl in H; try lia; reflexivity.
Qed.
Lemma and_loop_stop a acc rest : follow 2 rest ->
  Ok 1 (fun m => and_loop m a acc) rest (mk_bool EAnd a acc, rest).
Proof.
  intros H m Hm. destruct m; [lia|]. rewrite and_loop_S.
  destruct rest as [|t r]; [reflexivity|]. destruct t; try reflexivity.
  destruct k; simpl in H; try lia; reflexivity.
Qed.
Lemma or_loop_stop a acc rest : follow 1 rest ->
  Ok 1 (fun m => or_loop m a acc) rest (mk_bool EOr a acc, rest).
Proof.
  intros H m Hm. destruct m; [lia|]. rewrite or_loop_S.
  destruct rest as [|t r]; [reflexivity|]. destruct t; try reflexivity.
  destruct k; simpl in H; try lia; reflexivity.
Qed.

(* ---------------------------------------------------------------------- *)
(* the chain: a fact at one grammar level gives the fact one level down *)

Definition hd_not_pm (ts : list token) : Prop :=
  match ts with TPlus :: _ | TMinus :: _ => False | _ => True end.
Definition hd_not_NOT (ts : list token) : Prop :=
  match ts with TKw KNOT :: _ => False | _ => True end.
(* `( literal ,` would start a list constant *)
Definition look (ts : list token) : bool :=
  match ts with
  | t :: TComma :: _ => match lit_of_tok t with Some _ => true | None => false end
  | _ => false
  end.

Lemma L_A_P ts a r0 : Ok 2 p_atom ts (a, r0) -> Ok 3 p_primary ts (primary_loop a r0).
Proof. intros H m Hm. destruct m; [lia|]. rewrite p_primary_S, H by lia. reflexivity. Qed.

Lemma L_P_F ts r : Ok 3 p_primary ts r -> hd_not_pm ts -> Ok 5 p_factor ts r.
Proof.
  intros H Hh m Hm. destruct m; [lia|]. rewrite p_factor_S.
  destruct m; [lia|]. rewrite p_unary_S.
  assert (E : p_primary m ts = Some r) by (apply H; lia).
  destruct ts as [|t ts']; [rewrite E; reflexivity|].
  destruct t; simpl in Hh; try contradiction; rewrite E; reflexivity.
Qed.

Lemma L_F_T ts a r0 r : Ok 5 p_factor ts (a, r0) -> length r0 <= length ts ->
  Ok 1 (fun m => term_loop m a) r0 r -> Ok 7 p_term ts r.
Proof. intros H Hl H2 m Hm. destruct m; [lia|]. rewrite p_term_S, H by lia. apply H2. lia. Qed.

Lemma L_T_S ts a r0 r : Ok 7 p_term ts (a, r0) -> length r0 <= length ts ->
  Ok 1 (fun m => sum_loop m a) r0 r -> Ok 9 p_sum ts r.
Proof. intros H Hl H2 m Hm. destruct m; [lia|]. rewrite p_sum_S, H by lia. apply H2. lia. Qed.

Lemma L_S_C ts a r0 : Ok 9 p_sum ts (a, r0) -> follow 4 r0 -> Ok 10 p_comparison ts (a, r0).
Proof.
  intros H Hf m Hm. destruct m; [lia|]. rewrite p_comparison_S, H by lia.
  destruct r0 as [|t r]; [reflexivity|].
  destruct t; simpl in Hf; try lia; try reflexivity.
  - destruct k; simpl in Hf; try lia; reflexivity.
  - destruct (str_eqb s w_between) eqn:E; [lia|reflexivity].
Qed.

Lemma L_C_I ts r : Ok 10 p_comparison ts r -> hd_not_NOT ts -> Ok 11 p_inversion ts r.
Proof.
  intros H Hh m Hm. destruct m; [lia|]. rewrite p_inversion_S.
  assert (E : p_comparison m ts = Some r) by (apply H; lia).
  destruct ts as [|t ts']; [exact E|].
  destruct t; try exact E. destruct k; simpl in Hh; try contradiction; exact E.
Qed.

Lemma L_I_J ts a r0 : Ok 11 p_inversion ts (a, r0) -> length r0 <= length ts -> follow 2 r0 ->
  Ok 12 p_conjunction ts (a, r0).
Proof.
  intros H Hl Hf m Hm. destruct m; [lia|]. rewrite p_conjunction_S, H by lia.
  apply (and_loop_stop a [] r0 Hf). lia.
Qed.

Lemma L_J_D ts a r0 : Ok 12 p_conjunction ts (a, r0) -> length r0 <= length ts -> follow 1 r0 ->
  Ok 13 p_disjunction ts (a, r0).
Proof.
  intros H Hl Hf m Hm. destruct m; [lia|]. rewrite p_disjunction_S, H by lia.
  apply (or_loop_stop a [] r0 Hf). lia.
Qed.

Lemma L_D_E ts r : Ok 13 p_disjunction ts r -> Ok 14 p_expression ts r.
Proof. intros H m Hm. destruct m; [lia|]. rewrite p_expression_S, H by lia. reflexivity. Qed.

(* `( ts` is not a list constant, hence not a primary: the factor is the parenthesised expression *)
Lemma p_unary_paren_None ts : look ts = false -> forall m, p_unary m (TLP :: ts) = None.
Proof.
  intros Hl m. destruct m; [reflexivity|]. rewrite p_unary_S.
  destruct m; [reflexivity|]. rewrite p_primary_S.
  destruct m; [reflexivity|]. rewrite p_atom_S.
  destruct ts as [|t [|t2 r]]; try reflexivity.
  destruct t2; try reflexivity. simpl in Hl.
  destruct (lit_of_tok t); [discriminate|reflexivity].
Qed.

Lemma L_E_Par ts a rest : Ok 14 p_expression ts (a, TRP :: rest) -> look ts = false ->
  Ok 5 p_factor (TLP :: ts) (a, rest).
Proof.
  intros H Hl m Hm. destruct m; [lia|]. rewrite p_factor_S, (p_unary_paren_None ts Hl).
  rewrite H; [reflexivity|]. rewrite length_cons in Hm. lia.
Qed.

(* ---------------------------------------------------------------------- *)
(* the facts proved about a print [b] of a tree whose erasure is [e], one per grammar level *)

Definition cont_lvl' (t : token) : nat := match t with TLP => 9 | _ => cont_lvl t end.
Definition follow' (L : nat) (rest : list token) : Prop :=
  match rest with [] => True | t :: _ => cont_lvl' t < L end.
Lemma follow'_mono L L' rest : follow' L rest -> L <= L' -> follow' L' rest.
Proof. destruct rest; simpl; auto. intros; lia. Qed.
Lemma follow'_follow L rest : follow' L rest -> follow L rest.
Proof. destruct rest as [|t r]; simpl; auto. destruct t; simpl; auto; lia. Qed.

(* the tokens an expression can start with *)
Definition starter (t : token) : bool :=
  match t with
  | TId _ | TInt _ | TDec _ _ _ | TDate _ _ _ | TStr _ | TPlaceS | TPlaceN _ | TLP | TPlus | TMinus
  | TKw KNOT | TKw KTRUE | TKw KFALSE | TKw KSELECT => true
  | _ => false
  end.
Definition nocomma (rest : list token) : Prop := match rest with TComma :: _ => False | _ => True end.
Definition hdb (k : nat) (b : list token) : Prop :=
  match b with
  | [] => False
  | t :: _ => (4 <= k -> t <> TKw KNOT) /\ (8 <= k -> t <> TPlus /\ t <> TMinus) /\ starter t = true
  end.
Ltac hdb_tac := simpl; repeat (split || intro); try reflexivity; try congruence; try lia.
Definition nolook (b : list token) : Prop := forall rest, nocomma rest -> look (b ++ rest) = false.

Lemma hdb_mono k k' b : hdb k b -> k' <= k -> hdb k' b.
Proof. destruct b; simpl; auto. intros (H1 & H2 & H3) Hk. split; [|split]; intros; [apply H1; lia|apply H2; lia|exact H3]. Qed.
Lemma hdb_pm b rest : hdb 8 b -> hd_not_pm (b ++ rest).
Proof.
  destruct b as [|t b]; simpl; [tauto|]. intros (_ & H & _). destruct (H (le_n 8)) as [H1 H2].
  destruct t; auto; congruence.
Qed.
Lemma hdb_NOT b rest : hdb 4 b -> hd_not_NOT (b ++ rest).
Proof.
  destruct b as [|t b]; simpl; [tauto|]. intros (H & _). specialize (H (le_n 4)).
  destruct t; auto. destruct k; auto; congruence.
Qed.

Section Facts.
Variable b : list token.
Variable e : expr.

Definition F9 := forall rest, follow' 9 rest -> Ok 2 p_atom (b ++ rest) (e, rest).
Definition F8 := forall rest, follow' 9 rest -> Ok 3 p_primary (b ++ rest) (primary_loop e rest).
Definition F7 := forall rest, follow' 8 rest -> Ok 5 p_factor (b ++ rest) (e, rest).
Definition F6 := forall rest r, follow' 8 rest -> Ok 1 (fun m => term_loop m e) rest r -> Ok 7 p_term (b ++ rest) r.
Definition F5 := forall rest r, follow' 6 rest -> Ok 1 (fun m => sum_loop m e) rest r -> Ok 9 p_sum (b ++ rest) r.
Definition F4 := forall rest, follow' 4 rest -> Ok 10 p_comparison (b ++ rest) (e, rest).
Definition F3 := forall rest, follow' 4 rest -> Ok 11 p_inversion (b ++ rest) (e, rest).
Definition F2 := forall rest, follow' 2 rest -> Ok 12 p_conjunction (b ++ rest) (e, rest).
Definition F1 := forall rest, follow' 1 rest -> Ok 14 p_expression (b ++ rest) (e, rest).
Definition FP := forall rest, Ok 5 p_factor (TLP :: b ++ TRP :: rest) (e, rest).

Definition Fall (k : nat) : Prop :=
  (9 <= k -> F9) /\ (8 <= k -> F8) /\ (7 <= k -> F7) /\ (6 <= k -> F6) /\ (5 <= k -> F5) /\
  (4 <= k -> F4) /\ (3 <= k -> F3) /\ (2 <= k -> F2) /\ (1 <= k -> F1) /\ FP.

Lemma c98 : F9 -> F8.
Proof. intros H rest Hf. apply L_A_P, H, Hf. Qed.
Lemma c87 : hdb 8 b -> F8 -> F7.
Proof.
  intros Hh H rest Hf. apply L_P_F; [|apply hdb_pm, Hh].
  rewrite <- (primary_loop_stop e rest) by (apply follow'_follow, Hf).
  apply H. eapply follow'_mono; [exact Hf|lia].
Qed.
Lemma c76 : F7 -> F6.
Proof. intros H rest r Hf Hl. eapply L_F_T; [apply H, Hf| len |exact Hl]. Qed.
Lemma c65 : F6 -> F5.
Proof.
  intros H rest r Hf Hl.
  assert (T : Ok 7 p_term (b ++ rest) (e, rest)).
  { apply H; [eapply follow'_mono; [exact Hf|lia]|]. apply term_loop_stop, follow'_follow, Hf. }
  eapply L_T_S; [exact T|len|exact Hl].
Qed.
Lemma c54 : F5 -> F4.
Proof.
  intros H rest Hf. apply L_S_C; [|apply follow'_follow, Hf].
  apply H; [eapply follow'_mono; [exact Hf|lia]|].
  apply sum_loop_stop, follow'_follow. eapply follow'_mono; [exact Hf|lia].
Qed.
Lemma c43 : hdb 4 b -> F4 -> F3.
Proof. intros Hh H rest Hf. apply L_C_I; [apply H, Hf|apply hdb_NOT, Hh]. Qed.
Lemma c32 : F3 -> F2.
Proof.
  intros H rest Hf.
  assert (T : Ok 11 p_inversion (b ++ rest) (e, rest)) by (apply H; eapply follow'_mono; [exact Hf|lia]).
  apply L_I_J; [exact T|len|apply follow'_follow, Hf].
Qed.
Lemma c21 : F2 -> F1.
Proof.
  intros H rest Hf.
  assert (T : Ok 12 p_conjunction (b ++ rest) (e, rest)) by (apply H; eapply follow'_mono; [exact Hf|lia]).
  apply L_D_E, L_J_D; [exact T|len|apply follow'_follow, Hf].
Qed.
Lemma c1P : nolook b -> F1 -> FP.
Proof.
  intros Hn H rest. apply L_E_Par; [apply H; simpl; lia|apply Hn; exact I].
Qed.

Lemma Fall_build k : 1 <= k <= 9 -> hdb k b -> nolook b ->
  (k = 9 -> F9) -> (k = 8 -> F8) -> (k = 7 -> F7) -> (k = 6 -> F6) -> (k = 5 -> F5) ->
  (k = 4 -> F4) -> (k = 3 -> F3) -> (k = 2 -> F2) -> (k = 1 -> F1) -> Fall k.
Proof.
  intros Hk Hh Hn X9 X8 X7 X6 X5 X4 X3 X2 X1.
  assert (H9 : 9 <= k -> F9) by (intros; apply X9; lia).
  assert (H8 : 8 <= k -> F8).
  { intros. destruct (Nat.eq_dec k 8); [auto|apply c98, H9; lia]. }
  assert (H7 : 7 <= k -> F7).
  { intros. destruct (Nat.eq_dec k 7); [auto|]. apply c87; [eapply hdb_mono; [exact Hh|lia]|apply H8; lia]. }
  assert (H6 : 6 <= k -> F6).
  { intros. destruct (Nat.eq_dec k 6); [auto|apply c76, H7; lia]. }
  assert (H5 : 5 <= k -> F5).
  { intros. destruct (Nat.eq_dec k 5); [auto|apply c65, H6; lia]. }
  assert (H4 : 4 <= k -> F4).
  { intros. destruct (Nat.eq_dec k 4); [auto|apply c54, H5; lia]. }
  assert (H3 : 3 <= k -> F3).
  { intros. destruct (Nat.eq_dec k 3); [auto|]. apply c43; [eapply hdb_mono; [exact Hh|lia]|apply H4; lia]. }
  assert (H2 : 2 <= k -> F2).
  { intros. destruct (Nat.eq_dec k 2); [auto|apply c32, H3; lia]. }
  assert (H1 : 1 <= k -> F1).
  { intros. destruct (Nat.eq_dec k 1); [auto|apply c21, H2; lia]. }
  repeat split; auto. apply c1P; [exact Hn|apply H1; lia].
Qed.

Lemma Fall_mono k k' : Fall k -> k' <= k -> Fall k'.
Proof.
  intros (H9 & H8 & H7 & H6 & H5 & H4 & H3 & H2 & H1 & HP) Hk.
  repeat split; auto; intros; [apply H9|apply H8|apply H7|apply H6|apply H5|apply H4|apply H3|apply H2|apply H1]; lia.
Qed.
End Facts.

Lemma paren_app b rest : paren b ++ rest = TLP :: b ++ TRP :: rest.
Proof. unfold paren. simpl. rewrite <- app_assoc. reflexivity. Qed.

Lemma nolook_paren b : nolook (paren b).
Proof.
  intros rest _. rewrite paren_app. simpl. destruct (b ++ TRP :: rest) as [|t r]; [reflexivity|].
  destruct t; reflexivity.
Qed.

(* what is known of a sub-tree *)
Definition closes (rest : list token) : Prop := match rest with [] => True | TRP :: _ => True | _ => False end.
Definition SelOK (c : expr) : Prop :=
  is_select c = true -> forall rest, closes rest -> Ok 1 p_select (body c ++ rest) (erase c, rest).
Definition Good (c : expr) : Prop :=
  Fall (body c) (erase c) (lvl c) /\ hdb (lvl c) (body c) /\ nolook (body c) /\ SelOK c.

(* the print of a child at a position that needs binding strength L <= 7 *)
Lemma pp_Fall L x : 1 <= L <= 7 -> Good x ->
  Fall (pp L x) (erase x) L /\ hdb L (pp L x) /\ nolook (pp L x).
Proof.
  intros HL (HF & Hh & Hn & _). unfold pp. destruct (lvl x <? L) eqn:E.
  - assert (F : Fall (paren (body x)) (erase x) 7).
    { apply Fall_build; try lia.
      - hdb_tac.
      - apply nolook_paren.
      - intros _ rest _. rewrite paren_app. apply HF. }
    split; [eapply Fall_mono; [exact F|lia]|]. split; [|apply nolook_paren].
    hdb_tac.
  - apply Nat.ltb_ge in E. split; [eapply Fall_mono; [exact HF|exact E]|].
    split; [eapply hdb_mono; [exact Hh|exact E]|exact Hn].
Qed.

(* ---------------------------------------------------------------------- *)
(* helper facts *)

Lemma str_eqb_refl s : str_eqb s s = true.
Proof. induction s; simpl; [reflexivity|]. rewrite Z.eqb_refl. exact IHs. Qed.

Lemma lit_of_lit_tok l : lit_of_tok (lit_tok l) = Some l.
Proof. destruct l as [| [] | | | |]; reflexivity. Qed.

Lemma lit_tok_not_comma l : lit_tok l <> TComma.
Proof. destruct l as [| [] | | | |]; discriminate. Qed.

Lemma p_lits_lit acc l r : p_lits acc (lit_tok l :: r) =
  match r with TComma :: r' => p_lits (l :: acc) r' | _ => (rev (l :: acc), r) end.
Proof.
  change (p_lits acc (lit_tok l :: r)) with
    (match lit_of_tok (lit_tok l) with
     | Some l0 => match r with TComma :: r' => p_lits (l0 :: acc) r' | _ => (rev (l0 :: acc), r) end
     | None => match lit_tok l with TComma => p_lits acc r | _ => (rev acc, lit_tok l :: r) end
     end).
  rewrite lit_of_lit_tok. reflexivity.
Qed.

Lemma p_lits_tail ls : ls <> [] -> forall acc rest,
  p_lits acc (lits_tail ls ++ TRP :: rest) = (rev acc ++ ls, TRP :: rest).
Proof.
  induction ls as [|l ls IH]; [congruence|]. intros _ acc rest.
  destruct ls as [|l2 ls].
  - change (lits_tail [l] ++ TRP :: rest) with (lit_tok l :: TRP :: rest).
    rewrite p_lits_lit. reflexivity.
  - change (lits_tail (l :: l2 :: ls) ++ TRP :: rest)
      with (lit_tok l :: TComma :: (lits_tail (l2 :: ls) ++ TRP :: rest)).
    rewrite p_lits_lit, IH by discriminate. simpl. rewrite <- app_assoc. reflexivity.
Qed.

Lemma p_lits_toks ls : ls <> [] -> forall rest,
  p_lits [] (lits_toks ls ++ TRP :: rest) = (ls, TRP :: rest).
Proof.
  intros Hn rest. destruct ls as [|l [|l2 ls]]; [congruence| |].
  - change (lits_toks [l] ++ TRP :: rest) with (lit_tok l :: TComma :: TRP :: rest).
    rewrite p_lits_lit. reflexivity.
  - change (lits_toks (l :: l2 :: ls) ++ TRP :: rest)
      with (lit_tok l :: TComma :: (lits_tail (l2 :: ls) ++ TRP :: rest)).
    rewrite p_lits_lit, p_lits_tail by discriminate. reflexivity.
Qed.

Lemma cmp_of_cmp_toks op r : cmp_of_tokens (cmp_toks op ++ r) = Some (op, r).
Proof. destruct op; reflexivity. Qed.

(* tokens no expression starts with *)
Definition dead (t : token) : bool :=
  match t with TRP | TStar | TComma | TRB => true | _ => false end.
Lemma atom_dead t r : dead t = true -> forall m, p_atom m (t :: r) = None.
Proof. intros H m. destruct m; [reflexivity|]. rewrite p_atom_S. destruct t; try discriminate; reflexivity. Qed.
Lemma primary_dead t r : dead t = true -> forall m, p_primary m (t :: r) = None.
Proof. intros H m. destruct m; [reflexivity|]. rewrite p_primary_S, atom_dead by exact H. reflexivity. Qed.
Lemma unary_dead t r : dead t = true -> forall m, p_unary m (t :: r) = None.
Proof.
  intros H m. destruct m; [reflexivity|]. rewrite p_unary_S.
  destruct t; try discriminate; apply primary_dead; reflexivity.
Qed.
Lemma factor_dead t r : dead t = true -> forall m, p_factor m (t :: r) = None.
Proof.
  intros H m. destruct m; [reflexivity|]. rewrite p_factor_S, unary_dead by exact H.
  destruct t; try discriminate; reflexivity.
Qed.
Lemma term_dead t r : dead t = true -> forall m, p_term m (t :: r) = None.
Proof. intros H m. destruct m; [reflexivity|]. rewrite p_term_S, factor_dead by exact H. reflexivity. Qed.
Lemma sum_dead t r : dead t = true -> forall m, p_sum m (t :: r) = None.
Proof. intros H m. destruct m; [reflexivity|]. rewrite p_sum_S, term_dead by exact H. reflexivity. Qed.
Lemma cmp_dead t r : dead t = true -> forall m, p_comparison m (t :: r) = None.
Proof. intros H m. destruct m; [reflexivity|]. rewrite p_comparison_S, sum_dead by exact H. reflexivity. Qed.
Lemma inv_dead t r : dead t = true -> forall m, p_inversion m (t :: r) = None.
Proof.
  intros H m. destruct m; [reflexivity|]. rewrite p_inversion_S.
  destruct t; try discriminate; apply cmp_dead; reflexivity.
Qed.
Lemma conj_dead t r : dead t = true -> forall m, p_conjunction m (t :: r) = None.
Proof. intros H m. destruct m; [reflexivity|]. rewrite p_conjunction_S, inv_dead by exact H. reflexivity. Qed.
Lemma disj_dead t r : dead t = true -> forall m, p_disjunction m (t :: r) = None.
Proof. intros H m. destruct m; [reflexivity|]. rewrite p_disjunction_S, conj_dead by exact H. reflexivity. Qed.
Lemma expr_dead t r : dead t = true -> forall m, p_expression m (t :: r) = None.
Proof.
  intros H m. destruct m; [reflexivity|]. rewrite p_expression_S, disj_dead, conj_dead by exact H. reflexivity.
Qed.

Lemma In_lsize {A} (f : A -> nat) x l : List.In x l -> f x <= lsize f l.
Proof.
  induction l as [|y l IH]; simpl; [tauto|]. intros [->|H]; [lia|]. specialize (IH H). lia.
Qed.

(* function arguments after the first *)
Lemma args_tail : forall l acc rest,
  (forall x, List.In x l -> F1 (pp 1 x) (erase x)) ->
  Ok 1 (fun m => args_loop m acc)
     (concat (map (fun x => TComma :: pp 1 x) l) ++ TRP :: rest)
     (rev acc ++ map erase l, TRP :: rest).
Proof.
  induction l as [|x l IH]; intros acc rest HF m Hm.
  - destruct m; [lia|]. cbn [map concat app]. rewrite args_loop_S, app_nil_r. reflexivity.
  - destruct m; [lia|]. cbn [map concat app] in *. rewrite <- app_assoc. rewrite args_loop_S.
    rewrite length_cons, !app_length in Hm.
    rewrite (HF x (or_introl eq_refl)).
    + rewrite IH; [|intros; apply HF; right; assumption|len].
      simpl. rewrite <- app_assoc. reflexivity.
    + destruct l; simpl; lia.
    + len.
Qed.

(* AND / OR operands after the first *)
Lemma and_tail : forall l a acc rest,
  (forall x, List.In x l -> F3 (pp 3 x) (erase x)) -> follow' 2 rest ->
  Ok 1 (fun m => and_loop m a acc)
     (concat (map (fun x => TKw KAND :: pp 3 x) l) ++ rest)
     (mk_bool EAnd a (rev (map erase l) ++ acc), rest).
Proof.
  induction l as [|x l IH]; intros a acc rest HF Hf m Hm.
  - cbn [map concat app rev]. apply and_loop_stop; [apply follow'_follow, Hf|exact Hm].
  - destruct m; [lia|]. cbn [map concat app] in *. rewrite <- app_assoc. rewrite and_loop_S.
    rewrite length_cons, !app_length in Hm.
    rewrite (HF x (or_introl eq_refl)).
    + rewrite IH; [|intros; apply HF; right; assumption|exact Hf|len].
      simpl. rewrite <- app_assoc. reflexivity.
    + destruct l; simpl; [eapply follow'_mono; [exact Hf|lia]|lia].
    + len.
Qed.

Lemma or_tail : forall l a acc rest,
  (forall x, List.In x l -> F2 (pp 2 x) (erase x)) -> follow' 1 rest ->
  Ok 1 (fun m => or_loop m a acc)
     (concat (map (fun x => TKw KOR :: pp 2 x) l) ++ rest)
     (mk_bool EOr a (rev (map erase l) ++ acc), rest).
Proof.
  induction l as [|x l IH]; intros a acc rest HF Hf m Hm.
  - cbn [map concat app rev]. apply or_loop_stop; [apply follow'_follow, Hf|exact Hm].
  - destruct m; [lia|]. cbn [map concat app] in *. rewrite <- app_assoc. rewrite or_loop_S.
    rewrite length_cons, !app_length in Hm.
    rewrite (HF x (or_introl eq_refl)).
    + rewrite IH; [|intros; apply HF; right; assumption|exact Hf|len].
      simpl. rewrite <- app_assoc. reflexivity.
    + destruct l; simpl; [eapply follow'_mono; [exact Hf|lia]|lia].
    + len.
Qed.

Lemma mk_bool_rev C a l : l <> [] -> mk_bool C a (rev l ++ []) = C (a :: l).
Proof.
  intros Hl. rewrite app_nil_r. unfold mk_bool.
  destruct (rev l) eqn:E.
  - apply (f_equal (@rev _)) in E. rewrite rev_involutive in E. simpl in E. congruence.
  - rewrite <- E, rev_involutive. reflexivity.
Qed.

(* ---------------------------------------------------------------------- *)
(* small helpers for the main induction *)

Lemma hdb_app k b r : hdb k b -> hdb k (b ++ r).
Proof. destruct b; simpl; tauto. Qed.
Lemma nolook_app b r : nolook b -> (forall rest, nocomma (r ++ rest)) -> nolook (b ++ r).
Proof. intros H Hr rest _. rewrite <- app_assoc. apply H, Hr. Qed.
Lemma nolook_single t : nolook [t].
Proof.
  intros rest H. simpl. destruct rest as [|t2 r]; [reflexivity|].
  destruct t2; try reflexivity. contradiction.
Qed.

Ltac wrong_levels := try (let Hk := fresh "Hk" in intro Hk; discriminate Hk).
Ltac ok_start := let m := fresh "m" in let Hm := fresh "Hm" in
  intros m Hm; destruct m as [|m]; [exfalso; revert Hm; len|].

Lemma Fall_F9 b e k : Fall b e k -> 9 <= k -> F9 b e. Proof. intros H; apply H. Qed.
Lemma Fall_F8 b e k : Fall b e k -> 8 <= k -> F8 b e. Proof. intros H; apply H. Qed.
Lemma Fall_F7 b e k : Fall b e k -> 7 <= k -> F7 b e. Proof. intros H; apply H. Qed.
Lemma Fall_F6 b e k : Fall b e k -> 6 <= k -> F6 b e. Proof. intros H; apply H. Qed.
Lemma Fall_F5 b e k : Fall b e k -> 5 <= k -> F5 b e. Proof. intros H; apply H. Qed.
Lemma Fall_F4 b e k : Fall b e k -> 4 <= k -> F4 b e. Proof. intros H; apply H. Qed.
Lemma Fall_F3 b e k : Fall b e k -> 3 <= k -> F3 b e. Proof. intros H; apply H. Qed.
Lemma Fall_F2 b e k : Fall b e k -> 2 <= k -> F2 b e. Proof. intros H; apply H. Qed.
Lemma Fall_F1 b e k : Fall b e k -> 1 <= k -> F1 b e. Proof. intros H; apply H. Qed.
Lemma Fall_FP b e k : Fall b e k -> FP b e. Proof. intros H; apply H. Qed.

Definition args_toks (args : list expr) : list token :=
  match args with
  | [] => []
  | a :: r => pp 1 a ++ concat (map (fun x => TComma :: pp 1 x) r)
  end.

Lemma args_ok args rest : (forall x, List.In x args -> F1 (pp 1 x) (erase x)) ->
  Ok 15 p_args (args_toks args ++ TRP :: rest) (map erase args, TRP :: rest).
Proof.
  intros HF. destruct args as [|a l]; ok_start; rewrite p_args_S.
  - cbn [args_toks app]. rewrite expr_dead by reflexivity.
    destruct m; [lia|]. reflexivity.
  - cbn [args_toks]. rewrite <- app_assoc.
    rewrite (HF a (or_introl eq_refl)).
    + rewrite (args_tail l [erase a] rest); [reflexivity| |cbn [args_toks] in *; len].
      intros x Hx. apply HF. right. exact Hx.
    + destruct l; simpl; lia.
    + cbn [args_toks] in *; len.
Qed.

Lemma args_star r : forall m, 2 <= m -> p_args m (TStar :: r) = Some ([], TStar :: r).
Proof.
  intros m Hm. destruct m; [lia|]. rewrite p_args_S, expr_dead by reflexivity.
  destruct m; [lia|]. reflexivity.
Qed.

(* ====================================================================== *)
(* SELECT and the other statements *)

Definition target_toks (x : expr * option str) : list token :=
  pp 1 (fst x) ++ match snd x with Some n => [TKw KAS; TId n] | None => [] end.
Definition gcol_toks (c : N + expr) : list token :=
  match c with inl n => [TInt n] | inr x => num_guard (pp 1 x) end.
Definition ord_toks (x : (N + expr) * bool) : list token :=
  gcol_toks (fst x) ++ (if snd x then [TKw KDESC] else []).
Definition dist_toks (d : bool) : list token := if d then [TKw KDISTINCT] else [].
Definition targets_toks (t : option (list (expr * option str))) : list token :=
  match t with
  | None => [TStar]
  | Some [] => []
  | Some (a :: r) => target_toks a ++ concat (map (fun x => TComma :: target_toks x) r)
  end.
Definition ffrom_toks (x : option expr) (op : option date) (c : option (option date)) (cl : bool) :=
  match x with Some x => from_guard (pp 1 x) | None => [] end ++ open_toks op ++ close_toks c ++ clear_toks cl.
Definition sfrom_toks (f : option (fromc expr)) : list token :=
  match f with
  | None => []
  | Some (FTable n) => [TKw KFROM; TTable n]
  | Some (FSub s) => TKw KFROM :: paren (body s)
  | Some (FFrom x op c cl) => TKw KFROM :: ffrom_toks x op c cl
  end.
Definition where_toks (w : option expr) : list token :=
  match w with Some x => TKw KWHERE :: pp 1 x | None => [] end.
Definition group_toks (g : option (list (N + expr) * option expr)) : list token :=
  match g with
  | None => []
  | Some ([], _) => []
  | Some (a :: r, h) =>
      TKw KGROUP :: TKw KBY :: gcol_toks a ++ concat (map (fun x => TComma :: gcol_toks x) r)
      ++ match h with Some x => TKw KHAVING :: pp 1 x | None => [] end
  end.
Definition order_toks (o : list ((N + expr) * bool)) : list token :=
  match o with
  | [] => []
  | a :: r => TKw KORDER :: TKw KBY :: ord_toks a ++ concat (map (fun x => TComma :: ord_toks x) r)
  end.
Definition pivot_toks (p : option ((N + str) * (N + str))) : list token :=
  match p with
  | Some (c1, c2) => [TKw KPIVOT; TKw KBY; pcol_tok c1; TComma; pcol_tok c2]
  | None => []
  end.
Definition limit_toks (lim : option N) : list token :=
  match lim with Some n => [TKw KLIMIT; TInt n] | None => [] end.

Lemma body_select d t f w g o p lim :
  body (ESelect d t f w g o p lim) =
  TKw KSELECT :: dist_toks d ++ targets_toks t ++ sfrom_toks f ++ where_toks w ++ group_toks g
  ++ order_toks o ++ pivot_toks p ++ limit_toks lim.
Proof. reflexivity. Qed.

(* what may follow a clause: 1 FROM 2 WHERE 3 GROUP 4 ORDER 5 PIVOT 6 LIMIT 7 end or `)` *)
Definition crank (rest : list token) : nat :=
  match rest with
  | [] => 7
  | TRP :: _ => 7
  | TKw KFROM :: _ => 1
  | TKw KWHERE :: _ => 2
  | TKw KGROUP :: _ => 3
  | TKw KORDER :: _ => 4
  | TKw KPIVOT :: _ => 5
  | TKw KLIMIT :: _ => 6
  | _ => 0
  end.
Lemma crank_follow rest : 1 <= crank rest -> follow' 1 rest.
Proof.
  destruct rest as [|t r]; simpl; auto. destruct t; simpl; try lia. destruct k; simpl; lia.
Qed.

Definition G1 (x : expr) : Prop := Fall (pp 1 x) (erase x) 1 /\ hdb 1 (pp 1 x) /\ nolook (pp 1 x).
Lemma Good_G1 x : Good x -> G1 x.
Proof. apply pp_Fall. lia. Qed.

Lemma Fall_paren b e : FP b e -> Fall (paren b) e 7.
Proof.
  intros HP. apply Fall_build; try lia; wrong_levels.
  - hdb_tac.
  - apply nolook_paren.
  - intros _ rest _. rewrite paren_app. apply HP.
Qed.

Lemma guard_F1 b e g : g = b \/ g = paren b -> Fall b e 1 -> F1 g e.
Proof.
  intros [->| ->] HF; [apply (Fall_F1 _ _ _ HF); lia|].
  apply (Fall_F1 _ _ _ (Fall_paren b e (Fall_FP _ _ _ HF))). lia.
Qed.
Lemma from_guard_cases ts : from_guard ts = ts \/ from_guard ts = paren ts.
Proof.
  destruct ts as [|t r]; [left; reflexivity|]. destruct t; try (left; reflexivity); simpl.
  - destruct (str_eqb s w_open || str_eqb s w_close || str_eqb s w_clear); auto.
  - destruct r as [|t2 r2]; auto. destruct t2; auto. destruct k; auto.
Qed.
Lemma num_guard_cases ts : num_guard ts = ts \/ num_guard ts = paren ts.
Proof.
  destruct ts as [|t r]; [left; reflexivity|]. destruct t; try (left; reflexivity); simpl; auto.
  destruct lead; auto.
Qed.

Section Sel.
Variable m : nat.
Notation pe := (p_expression m).
Notation ps := (p_select m).

Lemma pe_ok b e rest : F1 b e -> follow' 1 rest -> 40 * length (b ++ rest) + 14 <= m ->
  pe (b ++ rest) = Some (e, rest).
Proof. intros H Hf Hm. apply H; assumption. Qed.

Definition tfollow (rest : list token) : Prop := 1 <= crank rest \/ exists r, rest = TComma :: r.
Lemma tfollow_follow rest : tfollow rest -> follow' 1 rest.
Proof. intros [H|[r ->]]; [apply crank_follow, H|simpl; lia]. Qed.

Definition et (x : expr * option str) := (erase (fst x), snd x).

Lemma target_ok x rest : G1 (fst x) -> tfollow rest ->
  40 * length (target_toks x ++ rest) + 14 <= m ->
  p_target pe (target_toks x ++ rest) = Some (et x, rest).
Proof.
  destruct x as [x [n|]]; unfold target_toks, p_target, et; cbn [fst snd]; intros (HF & _) Hr Hm.
  - rewrite <- app_assoc in *. rewrite (pe_ok (pp 1 x) (erase x)); [reflexivity| |simpl; lia|exact Hm].
    apply (Fall_F1 _ _ _ HF). lia.
  - rewrite app_nil_r in *. rewrite (pe_ok (pp 1 x) (erase x)); [| |apply tfollow_follow, Hr|exact Hm].
    + destruct rest as [|t r]; [reflexivity|]. destruct t; try reflexivity. destruct k; try reflexivity.
      exfalso. destruct Hr as [H|[r' H]]; [simpl in H; lia|discriminate].
    + apply (Fall_F1 _ _ _ HF). lia.
Qed.

Lemma targets_tail : forall l k acc rest,
  (forall x, List.In x l -> G1 (fst x)) -> 1 <= crank rest ->
  length (concat (map (fun x => TComma :: target_toks x) l) ++ rest) < k ->
  40 * length (concat (map (fun x => TComma :: target_toks x) l) ++ rest) + 14 <= m ->
  targets_loop pe k acc (concat (map (fun x => TComma :: target_toks x) l) ++ rest)
  = Some (rev acc ++ map et l, rest).
Proof.
  induction l as [|x l IH]; intros k acc rest HG Hr Hk Hm; (destruct k; [lia|]).
  - cbn [map concat app targets_loop]. rewrite app_nil_r.
    destruct rest as [|t r]; [reflexivity|]. destruct t; try reflexivity. simpl in Hr. lia.
  - cbn [map concat app] in *. rewrite <- app_assoc in *. cbn [targets_loop].
    rewrite target_ok; [|apply HG; left; reflexivity| |len].
    + rewrite IH; [|intros; apply HG; right; assumption|exact Hr|len|len].
      cbn [rev map]. rewrite <- app_assoc. reflexivity.
    + destruct l; cbn [map concat app]; [left; exact Hr|right; eexists; reflexivity].
Qed.

Lemma targets_ok t rest k :
  match t with Some [] => False | Some tl => forall x, List.In x tl -> G1 (fst x) | None => True end ->
  1 <= crank rest -> length (targets_toks t ++ rest) < k ->
  40 * length (targets_toks t ++ rest) + 14 <= m ->
  p_targets pe k (targets_toks t ++ rest) = Some (omap (map et) t, rest).
Proof.
  intros HG Hr Hk Hm. unfold p_targets. destruct t as [[|a l]|]; [contradiction| |].
  - cbn [targets_toks] in *. rewrite <- app_assoc in *.
    rewrite target_ok; [|apply HG; left; reflexivity| |len].
    + rewrite targets_tail; [reflexivity|intros; apply HG; right; assumption|exact Hr|len|len].
    + destruct l; cbn [map concat app]; [left; exact Hr|right; eexists; reflexivity].
  - cbn [targets_toks app]. unfold p_target. rewrite expr_dead by reflexivity. reflexivity.
Qed.

(* the qualifiers of a FROM clause *)
Lemma clear_ok cl rest : 2 <= crank rest -> p_clear_opt (clear_toks cl ++ rest) = (cl, rest).
Proof.
  intros Hr. destruct cl; [reflexivity|]. cbn [clear_toks app].
  destruct rest as [|t r]; [reflexivity|]. destruct t; try reflexivity. simpl in Hr. lia.
Qed.
Lemma close_ok c cl rest : 2 <= crank rest ->
  p_close_opt (close_toks c ++ clear_toks cl ++ rest) = (c, clear_toks cl ++ rest).
Proof.
  intros Hr. destruct c as [[[[y mo] d]|]|].
  - reflexivity.
  - cbn [close_toks app]. unfold p_close_opt. rewrite str_eqb_refl.
    destruct cl; cbn [clear_toks app];
      (destruct rest as [|t r]; [reflexivity|]; destruct t; try reflexivity; simpl in Hr; lia).
  - cbn [close_toks app]. destruct cl; [reflexivity|]. cbn [clear_toks app].
    destruct rest as [|t r]; [reflexivity|]. destruct t; try reflexivity. simpl in Hr. lia.
Qed.
Lemma open_none ts : match ts with TId o :: _ => str_eqb o w_open = false | _ => True end ->
  p_open_opt ts = (None, ts).
Proof.
  destruct ts as [|t r]; [reflexivity|]. destruct t; try reflexivity. intros H.
  unfold p_open_opt. destruct r as [|t2 r]; [reflexivity|]. destruct t2; try reflexivity.
  destruct r as [|t3 r]; [reflexivity|]. destruct t3; try reflexivity. rewrite H. reflexivity.
Qed.
Lemma open_ok o c cl rest : 2 <= crank rest ->
  p_open_opt (open_toks o ++ close_toks c ++ clear_toks cl ++ rest) = (o, close_toks c ++ clear_toks cl ++ rest).
Proof.
  intros Hr. destruct o as [[[y mo] d]|]; [reflexivity|]. cbn [open_toks app].
  apply open_none. destruct c as [[[[y mo] d]|]|]; [reflexivity|reflexivity|].
  cbn [close_toks app]. destruct cl; [reflexivity|]. cbn [clear_toks app].
  destruct rest as [|t r]; [exact I|]. destruct t; try exact I. simpl in Hr. lia.
Qed.
Lemma quals_follow o c cl rest : 2 <= crank rest ->
  follow' 1 (open_toks o ++ close_toks c ++ clear_toks cl ++ rest).
Proof.
  intros Hr. destruct o as [[[y mo] d]|]; [simpl; lia|].
  destruct c as [[[[y mo] d]|]|]; [simpl; lia|simpl; lia|].
  destruct cl; [simpl; lia|]. apply crank_follow. simpl. lia.
Qed.

(* FROM *)
Definition not_select_hd (r : list token) : Prop := match r with TKw KSELECT :: _ => False | _ => True end.
Lemma from_guard_head b r : hdb 1 b -> not_select_hd r ->
  from_kw (from_guard b ++ r) = 0 /\
  match from_guard b ++ r with
  | TTable _ :: _ => False
  | TLP :: TKw KSELECT :: _ => False
  | _ => True
  end.
Proof.
  destruct b as [|t b']; [simpl; tauto|]. intros (_ & _ & Hs) Hr.
  destruct t; try discriminate Hs; try (split; [reflexivity|exact I]).
  - cbn [from_guard]. destruct (str_eqb s w_open) eqn:E1; [split; [reflexivity|exact I]|].
    destruct (str_eqb s w_close) eqn:E2; [split; [reflexivity|exact I]|].
    destruct (str_eqb s w_clear) eqn:E3; [split; [reflexivity|exact I]|].
    cbn [orb app from_kw]. rewrite E1, E2, E3. split; [reflexivity|exact I].
  - cbn [from_guard]. destruct b' as [|t2 b2].
    + split; [reflexivity|]. cbn [app]. destruct r as [|t3 r3]; [exact I|].
      destruct t3; try exact I. destruct k; try exact I. exact Hr.
    + destruct t2; try (split; [reflexivity|exact I]). destruct k; split; try reflexivity; exact I.
Qed.

Lemma from_clause_fallthrough ts :
  match ts with TTable _ :: _ => False | TLP :: TKw KSELECT :: _ => False | _ => True end ->
  p_from_clause pe ps ts = p_from pe ts.
Proof.
  destruct ts as [|t r]; [reflexivity|]. destruct t; try reflexivity; [contradiction|].
  destruct r as [|t2 r2]; [reflexivity|]. destruct t2; try reflexivity. destruct k; try reflexivity. contradiction.
Qed.

Definition ffrom_nonempty (x : option expr) (o : option date) (c : option (option date)) (cl : bool) : Prop :=
  match x, o, c, cl with None, None, None, false => False | _, _, _, _ => True end.
Definition G1o (x : option expr) : Prop := match x with Some x => G1 x | None => True end.

Lemma quals_not_select o c cl rest : 2 <= crank rest ->
  not_select_hd (open_toks o ++ close_toks c ++ clear_toks cl ++ rest).
Proof.
  intros Hr. destruct o as [[[y mo] d]|]; [exact I|].
  destruct c as [[[[y mo] d]|]|]; [exact I|exact I|]. destruct cl; [exact I|].
  cbn [open_toks close_toks clear_toks app]. destruct rest as [|t r]; [exact I|].
  destruct t; try exact I. destruct k; try exact I. simpl in Hr. lia.
Qed.

Lemma ffrom_ok x o c cl rest : G1o x -> ffrom_nonempty x o c cl ->
  2 <= crank rest -> 40 * length (ffrom_toks x o c cl ++ rest) + 14 <= m ->
  p_from_clause pe ps (ffrom_toks x o c cl ++ rest) = Some (FFrom (omap erase x) o c cl, rest) /\
  p_from pe (ffrom_toks x o c cl ++ rest) = Some (FFrom (omap erase x) o c cl, rest).
Proof.
  intros HG Hne Hr Hm. unfold ffrom_toks in *. rewrite <- !app_assoc in *.
  destruct x as [x|].
  - destruct HG as (HF & Hh & _).
    destruct (from_guard_head (pp 1 x) (open_toks o ++ close_toks c ++ clear_toks cl ++ rest) Hh
                (quals_not_select o c cl rest Hr)) as (Hk & Hhd).
    rewrite from_clause_fallthrough by exact Hhd.
    assert (E : p_from pe (from_guard (pp 1 x) ++ open_toks o ++ close_toks c ++ clear_toks cl ++ rest)
                = Some (FFrom (Some (erase x)) o c cl, rest)).
    { unfold p_from. rewrite Hk.
      rewrite (pe_ok (from_guard (pp 1 x)) (erase x));
        [|apply (guard_F1 (pp 1 x)); [apply from_guard_cases|exact HF]|apply quals_follow, Hr|exact Hm].
      rewrite open_ok, close_ok, clear_ok by exact Hr. reflexivity. }
    split; exact E.
  - cbn [app omap] in *. destruct o as [[[y mo] d]|].
    + cbn [open_toks app]. unfold p_from_clause, p_from. cbn [from_kw]. cbv iota.
      change (str_eqb w_open w_open) with true. cbv iota. change (str_eqb w_on w_on) with true. cbv iota.
      rewrite close_ok, clear_ok by exact Hr. split; reflexivity.
    + destruct c as [c|].
      * assert (K : from_kw (close_toks (Some c) ++ clear_toks cl ++ rest) = 2) by (destruct c as [[[y mo] d]|]; reflexivity).
        assert (E : p_from pe (close_toks (Some c) ++ clear_toks cl ++ rest) = Some (FFrom None None (Some c) cl, rest)).
        { unfold p_from. rewrite K. rewrite close_ok, clear_ok by exact Hr. reflexivity. }
        split; [|exact E]. rewrite <- E. cbn [open_toks app]. destruct c as [[[y mo] d]|]; reflexivity.
      * destruct cl; [|contradiction]. cbn [open_toks close_toks clear_toks app]. split; reflexivity.
Qed.

Definition SubOKm (s : expr) : Prop :=
  is_select s = true /\
  forall r', closes r' -> 40 * length (body s ++ r') + 1 <= m -> ps (body s ++ r') = Some (erase s, r').

Lemma sfrom_ok f rest :
  match f with
  | Some (FSub s) => SubOKm s
  | Some (FFrom x o c cl) => G1o x /\ ffrom_nonempty x o c cl
  | _ => True
  end ->
  2 <= crank rest -> 40 * length (sfrom_toks f ++ rest) + 14 <= m ->
  p_from_clause_opt pe ps (sfrom_toks f ++ rest) = Some (omap (from_map erase) f, rest).
Proof.
  intros HG Hr Hm. destruct f as [[n|s|x o c cl]|].
  - reflexivity.
  - destruct HG as (Hs & HS). cbn [sfrom_toks app omap from_map] in *. rewrite paren_app in *.
    assert (Hhd : exists X, body s ++ TRP :: rest = TKw KSELECT :: X).
    { destruct s; try discriminate Hs. rewrite body_select. eexists. reflexivity. }
    destruct Hhd as [X EX].
    assert (EP : ps (body s ++ TRP :: rest) = Some (erase s, TRP :: rest)) by (apply HS; [exact I|len]).
    unfold p_from_clause_opt, p_from_clause. rewrite EX in *. cbv iota. rewrite EP. reflexivity.
  - destruct HG as (HG & Hne). cbn [sfrom_toks app] in *. unfold p_from_clause_opt.
    destruct (ffrom_ok x o c cl rest HG Hne Hr) as (E & _); [len|]. rewrite E. reflexivity.
  - cbn [sfrom_toks app]. unfold p_from_clause_opt.
    destruct rest as [|t r]; [reflexivity|]. destruct t; try reflexivity. destruct k; try reflexivity. simpl in Hr. lia.
Qed.

Lemma where_ok w rest : G1o w -> 3 <= crank rest -> 40 * length (where_toks w ++ rest) + 14 <= m ->
  p_where_opt pe (where_toks w ++ rest) = Some (omap erase w, rest).
Proof.
  intros HG Hr Hm. destruct w as [x|]; cbn [where_toks app omap] in *; unfold p_where_opt.
  - destruct HG as (HF & _). rewrite (pe_ok (pp 1 x) (erase x)); [reflexivity| | |len].
    + apply (Fall_F1 _ _ _ HF). lia.
    + apply crank_follow. lia.
  - destruct rest as [|t r]; [reflexivity|]. destruct t; try reflexivity. destruct k; try reflexivity. simpl in Hr. lia.
Qed.

(* GROUP BY / ORDER BY columns *)
Definition G1s (c : N + expr) : Prop := match c with inl _ => True | inr x => G1 x end.

Lemma num_guard_head b r : hdb 1 b ->
  match num_guard b ++ r with
  | TInt _ :: _ | TDec true _ _ :: _ | TDate _ _ _ :: _ => False
  | _ => True
  end.
Proof.
  destruct b as [|t b']; [simpl; tauto|]. intros _. destruct t; try exact I. destruct lead; exact I.
Qed.
Lemma gcol_fallthrough ts :
  match ts with TInt _ :: _ | TDec true _ _ :: _ | TDate _ _ _ :: _ => False | _ => True end ->
  p_gcol pe ts = match pe ts with Some (e, r) => Some (inr e, r) | None => None end.
Proof.
  destruct ts as [|t r]; [reflexivity|]. destruct t; try reflexivity; try contradiction.
  destruct lead; [contradiction|reflexivity].
Qed.

Lemma gcol_ok c rest : G1s c -> follow' 1 rest -> 40 * length (gcol_toks c ++ rest) + 14 <= m ->
  p_gcol pe (gcol_toks c ++ rest) = Some (smap erase c, rest).
Proof.
  intros HG Hf Hm. destruct c as [n|x]; [reflexivity|]. cbn [gcol_toks smap] in *.
  destruct HG as (HF & Hh & _).
  rewrite gcol_fallthrough by (apply num_guard_head, Hh).
  rewrite (pe_ok (num_guard (pp 1 x)) (erase x)); [reflexivity| |exact Hf|exact Hm].
  apply (guard_F1 (pp 1 x)); [apply num_guard_cases|exact HF].
Qed.

Lemma gcols_tail : forall l k acc rest,
  (forall c, List.In c l -> G1s c) -> follow' 1 rest -> nocomma rest ->
  length (concat (map (fun x => TComma :: gcol_toks x) l) ++ rest) < k ->
  40 * length (concat (map (fun x => TComma :: gcol_toks x) l) ++ rest) + 14 <= m ->
  gcols_loop pe k acc (concat (map (fun x => TComma :: gcol_toks x) l) ++ rest)
  = Some (rev acc ++ map (smap erase) l, rest).
Proof.
  induction l as [|x l IH]; intros k acc rest HG Hf Hc Hk Hm; (destruct k; [lia|]).
  - cbn [map concat app gcols_loop]. rewrite app_nil_r.
    destruct rest as [|t r]; [reflexivity|]. destruct t; try reflexivity. contradiction.
  - cbn [map concat app] in *. rewrite <- app_assoc in *. cbn [gcols_loop].
    rewrite gcol_ok; [|apply HG; left; reflexivity| |len].
    + rewrite IH; [|intros; apply HG; right; assumption|exact Hf|exact Hc|len|len].
      cbn [rev map]. rewrite <- app_assoc. reflexivity.
    + destruct l; cbn [map concat app]; [exact Hf|simpl; lia].
Qed.

Definition having_toks (h : option expr) : list token :=
  match h with Some x => TKw KHAVING :: pp 1 x | None => [] end.

Lemma group_ok g rest k :
  match g with
  | Some ([], _) => False
  | Some (gl, h) => (forall c, List.In c gl -> G1s c) /\ G1o h
  | None => True
  end ->
  4 <= crank rest -> length (group_toks g ++ rest) < k -> 40 * length (group_toks g ++ rest) + 14 <= m ->
  p_group_opt pe k (group_toks g ++ rest)
  = Some (omap (fun x => (map (smap erase) (fst x), omap erase (snd x))) g, rest).
Proof.
  intros HG Hr Hk Hm. destruct g as [[[|a l] h]|]; [contradiction| |].
  - destruct HG as (HG & Hh). cbn [group_toks] in *. fold (having_toks h) in *.
    cbn [app] in *. rewrite <- !app_assoc in *. unfold p_group_opt.
    assert (Hf : follow' 1 (having_toks h ++ rest) /\ nocomma (having_toks h ++ rest)).
    { destruct h; [split; [simpl; lia|exact I]|]. cbn [having_toks app]. split; [apply crank_follow; lia|].
      destruct rest as [|t r]; [exact I|]. destruct t; try exact I. simpl in Hr. lia. }
    destruct Hf as (Hf & Hc).
    rewrite gcol_ok; [|apply HG; left; reflexivity| |len].
    + rewrite gcols_tail; [|intros; apply HG; right; assumption|exact Hf|exact Hc|len|len].
      cbn [rev app omap fst snd map]. destruct h as [x|]; cbn [having_toks app omap] in *.
      * destruct Hh as (HF & _). rewrite (pe_ok (pp 1 x) (erase x)); [reflexivity| | |len].
        -- apply (Fall_F1 _ _ _ HF). lia.
        -- apply crank_follow. lia.
      * destruct rest as [|t r]; [reflexivity|]. destruct t; try reflexivity. destruct k0; try reflexivity.
        simpl in Hr. lia.
    + destruct l; cbn [map concat app]; [exact Hf|simpl; lia].
  - cbn [group_toks app omap]. unfold p_group_opt.
    destruct rest as [|t r]; [reflexivity|]. destruct t; try reflexivity. destruct k0; try reflexivity. simpl in Hr. lia.
Qed.

Definition ofollow (rest : list token) : Prop := 5 <= crank rest \/ exists r, rest = TComma :: r.
Definition eo (x : (N + expr) * bool) := (smap erase (fst x), snd x).

Lemma ord_ok x rest : G1s (fst x) -> ofollow rest -> 40 * length (ord_toks x ++ rest) + 14 <= m ->
  p_order pe (ord_toks x ++ rest) = Some (eo x, rest).
Proof.
  destruct x as [c [|]]; unfold ord_toks, p_order, eo; cbn [fst snd]; intros HG Hr Hm.
  - rewrite <- app_assoc in *. rewrite gcol_ok; [reflexivity|exact HG|simpl; lia|exact Hm].
  - rewrite app_nil_r in *. rewrite gcol_ok; [|exact HG| |exact Hm].
    + destruct rest as [|t r]; [reflexivity|]. destruct t; try reflexivity. destruct k; try reflexivity;
        exfalso; destruct Hr as [H|[r' H]]; try (simpl in H; lia); discriminate.
    + destruct Hr as [H|[r' ->]]; [apply crank_follow; lia|simpl; lia].
Qed.

Lemma orders_tail : forall l k acc rest,
  (forall x, List.In x l -> G1s (fst x)) -> 5 <= crank rest ->
  length (concat (map (fun x => TComma :: ord_toks x) l) ++ rest) < k ->
  40 * length (concat (map (fun x => TComma :: ord_toks x) l) ++ rest) + 14 <= m ->
  orders_loop pe k acc (concat (map (fun x => TComma :: ord_toks x) l) ++ rest)
  = Some (rev acc ++ map eo l, rest).
Proof.
  induction l as [|x l IH]; intros k acc rest HG Hr Hk Hm; (destruct k; [lia|]).
  - cbn [map concat app orders_loop]. rewrite app_nil_r.
    destruct rest as [|t r]; [reflexivity|]. destruct t; try reflexivity. simpl in Hr. lia.
  - cbn [map concat app] in *. rewrite <- app_assoc in *. cbn [orders_loop].
    rewrite ord_ok; [|apply HG; left; reflexivity| |len].
    + rewrite IH; [|intros; apply HG; right; assumption|exact Hr|len|len].
      cbn [rev map]. rewrite <- app_assoc. reflexivity.
    + destruct l; cbn [map concat app]; [left; exact Hr|right; eexists; reflexivity].
Qed.

Lemma order_ok o rest k : (forall x, List.In x o -> G1s (fst x)) ->
  5 <= crank rest -> length (order_toks o ++ rest) < k -> 40 * length (order_toks o ++ rest) + 14 <= m ->
  p_order_opt pe k (order_toks o ++ rest) = Some (map eo o, rest).
Proof.
  intros HG Hr Hk Hm. destruct o as [|a l]; unfold p_order_opt.
  - cbn [order_toks app map]. destruct rest as [|t r]; [reflexivity|]. destruct t; try reflexivity.
    destruct k0; try reflexivity. simpl in Hr. lia.
  - cbn [order_toks app] in *. rewrite <- app_assoc in *.
    rewrite ord_ok; [|apply HG; left; reflexivity| |len].
    + rewrite orders_tail; [reflexivity|intros; apply HG; right; assumption|exact Hr|len|len].
    + destruct l; cbn [map concat app]; [left; exact Hr|right; eexists; reflexivity].
Qed.

Lemma pcol_ok c r : p_pcol (pcol_tok c :: r) = Some (c, r).
Proof. destruct c; reflexivity. Qed.

Lemma pivot_ok p rest : 6 <= crank rest -> p_pivot_opt (pivot_toks p ++ rest) = Some (p, rest).
Proof.
  intros Hr. destruct p as [[c1 c2]|]; unfold p_pivot_opt.
  - cbn [pivot_toks app]. rewrite pcol_ok, pcol_ok. reflexivity.
  - cbn [pivot_toks app]. destruct rest as [|t r]; [reflexivity|]. destruct t; try reflexivity.
    destruct k; try reflexivity. simpl in Hr. lia.
Qed.

Lemma limit_ok lim rest : 7 <= crank rest -> p_limit_opt (limit_toks lim ++ rest) = Some (lim, rest).
Proof.
  intros Hr. destruct lim as [n|]; unfold p_limit_opt; [reflexivity|].
  cbn [limit_toks app]. destruct rest as [|t r]; [reflexivity|]. destruct t; try reflexivity.
  destruct k; try reflexivity. simpl in Hr. lia.
Qed.

Lemma crank_limit lim rest : 7 <= crank rest -> 6 <= crank (limit_toks lim ++ rest).
Proof. destruct lim; simpl; lia. Qed.
Lemma crank_pivot p rest : 6 <= crank rest -> 5 <= crank (pivot_toks p ++ rest).
Proof. destruct p as [[c1 c2]|]; simpl; lia. Qed.
Lemma crank_order o rest : 5 <= crank rest -> 4 <= crank (order_toks o ++ rest).
Proof. destruct o; simpl; lia. Qed.
Lemma crank_group g rest : 4 <= crank rest -> 3 <= crank (group_toks g ++ rest).
Proof. destruct g as [[[|a l] h]|]; simpl; lia. Qed.
Lemma crank_where w rest : 3 <= crank rest -> 2 <= crank (where_toks w ++ rest).
Proof. destruct w; simpl; lia. Qed.
Lemma crank_sfrom f rest : 2 <= crank rest -> 1 <= crank (sfrom_toks f ++ rest).
Proof. destruct f as [[n|s|x o c cl]|]; simpl; lia. Qed.
Lemma closes_crank rest : closes rest -> 7 <= crank rest.
Proof. destruct rest as [|t r]; simpl; [lia|]. destruct t; simpl; try contradiction; lia. Qed.

Lemma dist_none ts : match ts with TKw KDISTINCT :: _ => False | _ => True end ->
  match ts with TKw KDISTINCT :: r => (true, r) | _ => (false, ts) end = (false, ts).
Proof. destruct ts as [|t r]; [reflexivity|]. destruct t; try reflexivity. destruct k; try reflexivity. contradiction. Qed.

Lemma targets_hd t R :
  match t with Some [] => False | Some tl => forall x, List.In x tl -> G1 (fst x) | None => True end ->
  match targets_toks t ++ R with TKw KDISTINCT :: _ => False | _ => True end.
Proof.
  destruct t as [[|a l]|]; [contradiction| |exact (fun _ => I)].
  intros H. destruct (H a (or_introl eq_refl)) as (_ & Hh & _).
  cbn [targets_toks]. unfold target_toks. destruct (pp 1 (fst a)) as [|t0 b']; [contradiction|].
  destruct Hh as (_ & _ & Hs). cbn [app]. destruct t0; try exact I. destruct k; try exact I. discriminate Hs.
Qed.

Definition sel_hyp (t : option (list (expr * option str))) (f : option (fromc expr)) (w : option expr)
  (g : option (list (N + expr) * option expr)) (o : list ((N + expr) * bool)) : Prop :=
  match t with Some [] => False | Some tl => forall x, List.In x tl -> G1 (fst x) | None => True end /\
  match f with
  | Some (FSub s) => SubOKm s
  | Some (FFrom x o c cl) => G1o x /\ ffrom_nonempty x o c cl
  | _ => True
  end /\
  G1o w /\
  match g with
  | Some ([], _) => False
  | Some (gl, h) => (forall c, List.In c gl -> G1s c) /\ G1o h
  | None => True
  end /\
  (forall x, List.In x o -> G1s (fst x)).

Lemma select_ok d t f w g o p lim rest : sel_hyp t f w g o -> closes rest ->
  40 * length (body (ESelect d t f w g o p lim) ++ rest) <= m ->
  select_body pe ps m (body (ESelect d t f w g o p lim) ++ rest)
  = Some (erase (ESelect d t f w g o p lim), rest).
Proof.
  intros (Ht & Hf & Hw & Hg & Ho) Hc Hm. rewrite body_select in *. cbn [app] in *.
  rewrite <- !app_assoc in *.
  pose proof (closes_crank rest Hc) as C7.
  pose proof (crank_limit lim rest C7) as C6.
  pose proof (crank_pivot p _ C6) as C5.
  pose proof (crank_order o _ C5) as C4.
  pose proof (crank_group g _ C4) as C3.
  pose proof (crank_where w _ C3) as C2.
  pose proof (crank_sfrom f _ C2) as C1.
  unfold select_body.
  assert (ED : match dist_toks d ++ targets_toks t ++ sfrom_toks f ++ where_toks w ++ group_toks g
                     ++ order_toks o ++ pivot_toks p ++ limit_toks lim ++ rest with
               | TKw KDISTINCT :: r => (true, r)
               | _ => (false, dist_toks d ++ targets_toks t ++ sfrom_toks f ++ where_toks w ++ group_toks g
                     ++ order_toks o ++ pivot_toks p ++ limit_toks lim ++ rest)
               end = (d, targets_toks t ++ sfrom_toks f ++ where_toks w ++ group_toks g
                     ++ order_toks o ++ pivot_toks p ++ limit_toks lim ++ rest)).
  { destruct d; [reflexivity|]. cbn [dist_toks app]. apply dist_none, targets_hd, Ht. }
  rewrite ED.
  assert (L0 : length (dist_toks d) <= 1) by (destruct d; simpl; lia).
  rewrite targets_ok; [|exact Ht|exact C1|len|len].
  rewrite sfrom_ok; [|exact Hf|exact C2|len].
  rewrite where_ok; [|exact Hw|exact C3|len].
  rewrite group_ok; [|exact Hg|exact C4|len|len].
  rewrite order_ok; [|exact Ho|exact C5|len|len].
  rewrite pivot_ok by exact C6. rewrite limit_ok by exact C7. reflexivity.
Qed.
End Sel.

(* a SELECT used as an expression: `( SELECT ... )` *)
Lemma atom_to_paren ts e rest : Ok 2 p_atom ts (e, TRP :: rest) -> hd_not_pm ts -> hd_not_NOT ts ->
  look ts = false -> length (TRP :: rest) <= length ts -> Ok 5 p_factor (TLP :: ts) (e, rest).
Proof.
  intros HA Hpm Hnot Hl Hlen.
  assert (F8' : follow 8 (TRP :: rest)) by (simpl; lia).
  assert (P : Ok 3 p_primary ts (e, TRP :: rest)).
  { rewrite <- (primary_loop_stop e (TRP :: rest) F8'). apply L_A_P, HA. }
  assert (F : Ok 5 p_factor ts (e, TRP :: rest)) by (apply L_P_F; assumption).
  assert (T : Ok 7 p_term ts (e, TRP :: rest)).
  { eapply L_F_T; [exact F|exact Hlen|apply term_loop_stop; simpl; lia]. }
  assert (S' : Ok 9 p_sum ts (e, TRP :: rest)).
  { eapply L_T_S; [exact T|exact Hlen|apply sum_loop_stop; simpl; lia]. }
  assert (C : Ok 10 p_comparison ts (e, TRP :: rest)) by (apply L_S_C; [exact S'|simpl; lia]).
  assert (I' : Ok 11 p_inversion ts (e, TRP :: rest)) by (apply L_C_I; assumption).
  assert (J : Ok 12 p_conjunction ts (e, TRP :: rest)) by (apply L_I_J; [exact I'|exact Hlen|simpl; lia]).
  assert (D : Ok 13 p_disjunction ts (e, TRP :: rest)) by (apply L_J_D; [exact J|exact Hlen|simpl; lia]).
  apply L_E_Par; [apply L_D_E, D|exact Hl].
Qed.

Lemma main_select n d t f w g o p lim :
  esize (ESelect d t f w g o p lim) <= S n -> wf (ESelect d t f w g o p lim) = true ->
  (forall x, esize x <= n -> wf x = true -> Good x) -> Good (ESelect d t f w g o p lim).
Proof.
  intros Hs Hwf IH. cbn [wf esize] in Hs, Hwf.
  apply andb_prop in Hwf. destruct Hwf as [Hwf He]. apply andb_prop in Hwf. destruct Hwf as [Hwf Hd].
  apply andb_prop in Hwf. destruct Hwf as [Hwf Hc]. apply andb_prop in Hwf. destruct Hwf as [Ha Hb].
  assert (HT : match t with Some [] => False | Some tl => forall x, List.In x tl -> G1 (fst x) | None => True end).
  { destruct t as [[|a l]|]; [discriminate Ha| |exact I]. intros x Hx. apply Good_G1, IH.
    - pose proof (In_lsize (fun p : expr * option str => esize (fst p)) x (a :: l) Hx) as H.
      cbn [osize] in Hs. cbv beta in H. lia.
    - rewrite forallb_forall in Ha. apply (Ha x Hx). }
  assert (HW : G1o w).
  { destruct w as [x|]; [|exact I]. apply Good_G1, IH; [cbn [osize] in Hs; lia|exact Hc]. }
  assert (HF : forall m, match f with
                         | Some (FSub s) => SubOKm m s
                         | Some (FFrom x o c cl) => G1o x /\ ffrom_nonempty x o c cl
                         | _ => True
                         end).
  { intros m. destruct f as [[nm|s|x op c cl]|]; try exact I; cbn [oall wf_from] in Hb.
    - apply andb_prop in Hb. destruct Hb as [Hsel Hws].
      assert (Gs : Good s) by (apply IH; [cbn [osize from_size] in Hs; lia|exact Hws]).
      destruct Gs as (_ & _ & _ & HS). split; [exact Hsel|]. intros r' Hc' Hm'. apply (HS Hsel r' Hc'). lia.
    - apply andb_prop in Hb. destruct Hb as [Hwx Hne]. split.
      + destruct x as [x|]; [|exact I]. apply Good_G1, IH; [cbn [osize from_size] in Hs; lia|exact Hwx].
      + destruct x, op, c, cl; try exact I. discriminate Hne. }
  assert (HG : match g with
               | Some ([], _) => False
               | Some (gl, h) => (forall c, List.In c gl -> G1s c) /\ G1o h
               | None => True
               end).
  { destruct g as [[[|a l] h]|]; [discriminate Hd| |exact I].
    apply andb_prop in Hd. destruct Hd as [Hgl Hh]. cbn [osize fst snd] in Hs. split.
    - intros c Hc'. destruct c as [k|x]; [exact I|]. apply Good_G1, IH.
      + pose proof (In_lsize (ssize esize) (inr x) (a :: l) Hc') as H. cbn [ssize] in H. lia.
      + rewrite forallb_forall in Hgl. apply (Hgl (inr x) Hc').
    - destruct h as [x|]; [|exact I]. apply Good_G1, IH; [cbn [osize] in Hs; lia|exact Hh]. }
  assert (HO : forall x, List.In x o -> G1s (fst x)).
  { intros x Hx. destruct x as [[k|x] dsc]; [exact I|]. cbn [fst]. apply Good_G1, IH.
    - pose proof (In_lsize (fun p : (N + expr) * bool => ssize esize (fst p)) (inr x, dsc) o Hx) as H.
      cbn [ssize fst] in H. lia.
    - rewrite forallb_forall in He. apply (He (inr x, dsc) Hx). }
  assert (HS : SelOK (ESelect d t f w g o p lim)).
  { intros _ rest Hcl. ok_start. rewrite p_select_S. apply select_ok; [|exact Hcl|len].
    repeat split; try assumption. apply HF. }
  assert (Hh : hdb 0 (body (ESelect d t f w g o p lim))) by (rewrite body_select; hdb_tac).
  assert (Hn : nolook (body (ESelect d t f w g o p lim))).
  { intros rest _. rewrite body_select. cbn [app]. match goal with |- look (_ :: ?X) = _ => destruct X as [|t2 r2] end;
      [reflexivity|]. destruct t2; reflexivity. }
  split; [|split; [exact Hh|split; [exact Hn|exact HS]]].
  cbn [lvl]. repeat split; try (intros; lia).
  intros rest. apply atom_to_paren.
  - ok_start. rewrite p_atom_S. rewrite body_select in *. cbn [app] in *. cbv iota.
    rewrite <- body_select in *.
    change (TKw KSELECT :: _ ++ TRP :: rest) with (body (ESelect d t f w g o p lim) ++ TRP :: rest).
    apply (HS eq_refl (TRP :: rest) I). rewrite body_select. cbn [app]. len.
  - rewrite body_select. exact I.
  - rewrite body_select. exact I.
  - apply Hn. exact I.
  - len.
Qed.

Lemma main : forall n c, esize c <= n -> wf c = true -> Good c.
Proof.
  induction n as [|n IH]; intros c Hs Hwf.
  { destruct c; simpl in Hs; lia. }
  destruct c; cbn [wf esize] in Hs, Hwf.
  - (* EConst *)
    assert (Hh : hdb 9 [lit_tok l]).
    { destruct l as [| [] | | | |]; hdb_tac. }
    split; [|split; [exact Hh|split; [apply nolook_single|intros Hsel; discriminate Hsel]]].
    apply Fall_build; [cbn [lvl]; lia|exact Hh|apply nolook_single|..]; cbn [lvl]; wrong_levels; intros _.
    intros rest Hf. ok_start. cbn [body app]. rewrite p_atom_S.
    destruct l as [| [] | | | |]; try reflexivity.
    (* NULL: an identifier, must not be followed by `(` *)
    cbn [lit_tok]. destruct rest as [|t r]; [reflexivity|].
    destruct t; simpl in Hf; try lia; reflexivity.
  - (* EList *)
    assert (Hne : ls <> []) by (destruct ls; [discriminate|discriminate]).
    assert (Hh : hdb 9 (body (EList ls))) by hdb_tac.
    assert (Hn : nolook (body (EList ls))).
    { intros rest _. cbn [body app]. destruct ls as [|l [|l2 ls]]; [congruence| |];
        simpl; destruct l as [| [] | | | |]; reflexivity. }
    split; [|split; [assumption|split; [assumption|intros Hsel; discriminate Hsel]]].
    apply Fall_build; [cbn [lvl]; lia|exact Hh|exact Hn|..]; cbn [lvl]; wrong_levels; intros _.
    intros rest Hf. ok_start. cbn [body erase]. rewrite p_atom_S.
    change ((TLP :: lits_toks ls ++ [TRP]) ++ rest) with (TLP :: (lits_toks ls ++ [TRP]) ++ rest).
    rewrite <- app_assoc. cbn [app].
    pose proof (p_lits_toks ls Hne rest) as PL.
    destruct ls as [|l [|l2 ls]]; [congruence| |].
    + change (lits_toks [l] ++ TRP :: rest) with (lit_tok l :: TComma :: TRP :: rest) in *.
      cbv iota. rewrite lit_of_lit_tok, PL. reflexivity.
    + change (lits_toks (l :: l2 :: ls) ++ TRP :: rest)
        with (lit_tok l :: TComma :: (lits_tail (l2 :: ls) ++ TRP :: rest)) in *.
      cbv iota. rewrite lit_of_lit_tok, PL. reflexivity.
  - (* EColumn *)
    assert (Hh : hdb 9 [TId name]) by hdb_tac.
    split; [|split; [exact Hh|split; [apply nolook_single|intros Hsel; discriminate Hsel]]].
    apply Fall_build; [cbn [lvl]; lia|exact Hh|apply nolook_single|..]; cbn [lvl]; wrong_levels; intros _.
    intros rest Hf. ok_start. cbn [body app erase]. rewrite p_atom_S.
    apply negb_true_iff in Hwf. rewrite Hwf.
    destruct rest as [|t r]; [reflexivity|].
    destruct t; simpl in Hf; try lia; reflexivity.
  - (* EFunc *)
    assert (Hh : hdb 9 (body (EFunc name args))) by hdb_tac.
    assert (Hn : nolook (body (EFunc name args))) by (intros rest _; reflexivity).
    split; [|split; [assumption|split; [assumption|intros Hsel; discriminate Hsel]]].
    apply Fall_build; [cbn [lvl]; lia|exact Hh|exact Hn|..]; cbn [lvl]; wrong_levels; intros _.
    assert (HF : forall x, List.In x args -> F1 (pp 1 x) (erase x)).
    { intros x Hx. assert (Gx : Good x).
      { apply IH; [pose proof (In_lsize esize x args Hx); lia|]. rewrite forallb_forall in Hwf. apply Hwf, Hx. }
      destruct (pp_Fall 1 x ltac:(lia) Gx) as (Fx & _ & _). apply (Fall_F1 _ _ _ Fx). lia. }
    intros rest Hf. ok_start.
    change (body (EFunc name args)) with (TId name :: TLP :: args_toks args ++ [TRP]) in *.
    cbn [app erase] in *. rewrite <- app_assoc in *. cbn [app] in *. rewrite p_atom_S. cbv iota zeta.
    rewrite (args_ok args rest HF) by len. reflexivity.
  - (* EFuncStar *)
    assert (Hh : hdb 9 (body (EFuncStar name))) by hdb_tac.
    assert (Hn : nolook (body (EFuncStar name))) by (intros rest _; reflexivity).
    split; [|split; [assumption|split; [assumption|intros Hsel; discriminate Hsel]]].
    apply Fall_build; [cbn [lvl]; lia|exact Hh|exact Hn|..]; cbn [lvl]; wrong_levels; intros _.
    intros rest Hf. ok_start. cbn [body app erase] in *. rewrite p_atom_S. cbv iota zeta.
    rewrite args_star by len. reflexivity.
  - (* EPlace *)
    assert (Hh : hdb 9 (body (EPlace name))) by (destruct name; hdb_tac).
    assert (Hn : nolook (body (EPlace name))) by (destruct name; apply nolook_single).
    split; [|split; [assumption|split; [assumption|intros Hsel; discriminate Hsel]]].
    apply Fall_build; [cbn [lvl]; lia|exact Hh|exact Hn|..]; cbn [lvl]; wrong_levels; intros _.
    intros rest Hf. ok_start. rewrite p_atom_S. destruct name; reflexivity.
  - (* EAttr *)
    apply andb_prop in Hwf. destruct Hwf as [Hl Hwf]. apply Nat.leb_le in Hl.
    assert (Ga : Good c) by (apply IH; [lia|assumption]).
    destruct Ga as (Fa & Hha & Hna & _).
    unfold Good. change (body (EAttr c name)) with (body c ++ [TDot; TId name]).
    assert (Hh : hdb 8 (body c ++ [TDot; TId name])) by (apply hdb_app; eapply hdb_mono; [exact Hha|exact Hl]).
    assert (Hn : nolook (body c ++ [TDot; TId name])) by (apply nolook_app; [exact Hna|intros; exact I]).
    split; [|split; [assumption|split; [assumption|intros Hsel; discriminate Hsel]]].
    apply Fall_build; [cbn [lvl]; lia|exact Hh|exact Hn|..]; cbn [lvl]; wrong_levels; intros _.
    intros rest Hf. rewrite <- app_assoc. cbn [app erase].
    change (primary_loop (EAttr (erase c) name) rest) with (primary_loop (erase c) (TDot :: TId name :: rest)).
    apply (Fall_F8 _ _ _ Fa Hl). simpl. lia.
  - (* ESubscript *)
    apply andb_prop in Hwf. destruct Hwf as [Hl Hwf]. apply Nat.leb_le in Hl.
    assert (Ga : Good c) by (apply IH; [lia|assumption]).
    destruct Ga as (Fa & Hha & Hna & _).
    unfold Good. change (body (ESubscript c key)) with (body c ++ [TLB; str_tok key; TRB]).
    assert (Hh : hdb 8 (body c ++ [TLB; str_tok key; TRB])) by (apply hdb_app; eapply hdb_mono; [exact Hha|exact Hl]).
    assert (Hn : nolook (body c ++ [TLB; str_tok key; TRB])) by (apply nolook_app; [exact Hna|intros; exact I]).
    split; [|split; [assumption|split; [assumption|intros Hsel; discriminate Hsel]]].
    apply Fall_build; [cbn [lvl]; lia|exact Hh|exact Hn|..]; cbn [lvl]; wrong_levels; intros _.
    intros rest Hf. rewrite <- app_assoc. cbn [app erase].
    change (primary_loop (ESubscript (erase c) key) rest) with (primary_loop (erase c) (TLB :: str_tok key :: TRB :: rest)).
    apply (Fall_F8 _ _ _ Fa Hl). simpl. lia.
  - (* ENeg *)
    assert (Ga : Good c) by (apply IH; [lia|assumption]).
    destruct (pp_Fall 7 c ltac:(lia) Ga) as (Fa & _ & _).
    unfold Good. change (body (ENeg c)) with (TMinus :: pp 7 c).
    assert (Hh : hdb 7 (TMinus :: pp 7 c)) by hdb_tac.
    assert (Hn : nolook (TMinus :: pp 7 c)).
    { intros rest _. cbn [app]. destruct (pp 7 c ++ rest) as [|t r]; [reflexivity|]. destruct t; reflexivity. }
    split; [|split; [assumption|split; [assumption|intros Hsel; discriminate Hsel]]].
    apply Fall_build; [cbn [lvl]; lia|exact Hh|exact Hn|..]; cbn [lvl]; wrong_levels; intros _.
    intros rest Hf. ok_start. cbn [app erase] in *. rewrite p_factor_S.
    destruct m; [exfalso; len|]. rewrite p_unary_S. cbv iota.
    rewrite (Fall_F7 _ _ _ Fa (le_n 7) rest Hf) by len. reflexivity.
  - (* EArith *)
    apply andb_prop in Hwf. destruct Hwf as [Hw1 Hw2].
    assert (G1 : Good c1) by (apply IH; [lia|assumption]).
    assert (G2 : Good c2) by (apply IH; [lia|assumption]).
    destruct (pp_Fall 5 c1 ltac:(lia) G1) as (Fa & Hha & Hna).
    destruct (pp_Fall 6 c2 ltac:(lia) G2) as (Fb & _ & _).
    destruct (pp_Fall 6 c1 ltac:(lia) G1) as (Fa' & Hha' & Hna').
    destruct (pp_Fall 7 c2 ltac:(lia) G2) as (Fb' & _ & _).
    destruct op.
      { unfold Good. change (body (EArith Add c1 c2)) with (pp 5 c1 ++ TPlus :: pp 6 c2).
        assert (Hh : hdb 5 (pp 5 c1 ++ TPlus :: pp 6 c2)) by (apply hdb_app; exact Hha).
        assert (Hn : nolook (pp 5 c1 ++ TPlus :: pp 6 c2)) by (apply nolook_app; [exact Hna|intros; exact I]).
        split; [|split; [assumption|split; [assumption|intros Hsel; discriminate Hsel]]].
        apply Fall_build; [cbn [lvl]; lia|exact Hh|exact Hn|..]; cbn [lvl]; wrong_levels; intros _.
        intros rest r Hf Hl. rewrite <- app_assoc. cbn [app erase].
        apply (Fall_F5 _ _ _ Fa (le_n 5)); [simpl; lia|].
        ok_start. rewrite sum_loop_S. cbv iota.
        rewrite (Fall_F6 _ _ _ Fb (le_n 6) rest (erase c2, rest)); [apply Hl; len| | |len].
        - eapply follow'_mono; [exact Hf|lia].
        - apply term_loop_stop, follow'_follow, Hf. }
      { unfold Good. change (body (EArith Sub c1 c2)) with (pp 5 c1 ++ TMinus :: pp 6 c2).
        assert (Hh : hdb 5 (pp 5 c1 ++ TMinus :: pp 6 c2)) by (apply hdb_app; exact Hha).
        assert (Hn : nolook (pp 5 c1 ++ TMinus :: pp 6 c2)) by (apply nolook_app; [exact Hna|intros; exact I]).
        split; [|split; [assumption|split; [assumption|intros Hsel; discriminate Hsel]]].
        apply Fall_build; [cbn [lvl]; lia|exact Hh|exact Hn|..]; cbn [lvl]; wrong_levels; intros _.
        intros rest r Hf Hl. rewrite <- app_assoc. cbn [app erase].
        apply (Fall_F5 _ _ _ Fa (le_n 5)); [simpl; lia|].
        ok_start. rewrite sum_loop_S. cbv iota.
        rewrite (Fall_F6 _ _ _ Fb (le_n 6) rest (erase c2, rest)); [apply Hl; len| | |len].
        - eapply follow'_mono; [exact Hf|lia].
        - apply term_loop_stop, follow'_follow, Hf. }
      { unfold Good. change (body (EArith Mul c1 c2)) with (pp 6 c1 ++ TStar :: pp 7 c2).
        assert (Hh : hdb 6 (pp 6 c1 ++ TStar :: pp 7 c2)) by (apply hdb_app; exact Hha').
        assert (Hn : nolook (pp 6 c1 ++ TStar :: pp 7 c2)) by (apply nolook_app; [exact Hna'|intros; exact I]).
        split; [|split; [assumption|split; [assumption|intros Hsel; discriminate Hsel]]].
        apply Fall_build; [cbn [lvl]; lia|exact Hh|exact Hn|..]; cbn [lvl]; wrong_levels; intros _.
        intros rest r Hf Hl. rewrite <- app_assoc. cbn [app erase].
        apply (Fall_F6 _ _ _ Fa' (le_n 6)); [simpl; lia|].
        ok_start. rewrite term_loop_S. cbv iota.
        rewrite (Fall_F7 _ _ _ Fb' (le_n 7) rest Hf); [apply Hl; len|len]. }
      { unfold Good. change (body (EArith Div c1 c2)) with (pp 6 c1 ++ TSlash :: pp 7 c2).
        assert (Hh : hdb 6 (pp 6 c1 ++ TSlash :: pp 7 c2)) by (apply hdb_app; exact Hha').
        assert (Hn : nolook (pp 6 c1 ++ TSlash :: pp 7 c2)) by (apply nolook_app; [exact Hna'|intros; exact I]).
        split; [|split; [assumption|split; [assumption|intros Hsel; discriminate Hsel]]].
        apply Fall_build; [cbn [lvl]; lia|exact Hh|exact Hn|..]; cbn [lvl]; wrong_levels; intros _.
        intros rest r Hf Hl. rewrite <- app_assoc. cbn [app erase].
        apply (Fall_F6 _ _ _ Fa' (le_n 6)); [simpl; lia|].
        ok_start. rewrite term_loop_S. cbv iota.
        rewrite (Fall_F7 _ _ _ Fb' (le_n 7) rest Hf); [apply Hl; len|len]. }
      { unfold Good. change (body (EArith Mod c1 c2)) with (pp 6 c1 ++ TPercent :: pp 7 c2).
        assert (Hh : hdb 6 (pp 6 c1 ++ TPercent :: pp 7 c2)) by (apply hdb_app; exact Hha').
        assert (Hn : nolook (pp 6 c1 ++ TPercent :: pp 7 c2)) by (apply nolook_app; [exact Hna'|intros; exact I]).
        split; [|split; [assumption|split; [assumption|intros Hsel; discriminate Hsel]]].
        apply Fall_build; [cbn [lvl]; lia|exact Hh|exact Hn|..]; cbn [lvl]; wrong_levels; intros _.
        intros rest r Hf Hl. rewrite <- app_assoc. cbn [app erase].
        apply (Fall_F6 _ _ _ Fa' (le_n 6)); [simpl; lia|].
        ok_start. rewrite term_loop_S. cbv iota.
        rewrite (Fall_F7 _ _ _ Fb' (le_n 7) rest Hf); [apply Hl; len|len]. }
  - (* ECmp *)
    apply andb_prop in Hwf. destruct Hwf as [Hw1 Hw2].
    assert (G1 : Good c1) by (apply IH; [lia|assumption]).
    assert (G2 : Good c2) by (apply IH; [lia|assumption]).
    destruct (pp_Fall 5 c1 ltac:(lia) G1) as (Fa & Hha & Hna).
    destruct (pp_Fall 5 c2 ltac:(lia) G2) as (Fb & _ & _).
    unfold Good. change (body (ECmp op c1 c2)) with (pp 5 c1 ++ cmp_toks op ++ pp 5 c2).
    assert (Hh : hdb 4 (pp 5 c1 ++ cmp_toks op ++ pp 5 c2)) by (apply hdb_app; eapply hdb_mono; [exact Hha|lia]).
    assert (Hn : nolook (pp 5 c1 ++ cmp_toks op ++ pp 5 c2)).
    { apply nolook_app; [exact Hna|]. intros; destruct op; exact I. }
    split; [|split; [assumption|split; [assumption|intros Hsel; discriminate Hsel]]].
    apply Fall_build; [cbn [lvl]; lia|exact Hh|exact Hn|..]; cbn [lvl]; wrong_levels; intros _.
    intros rest Hf. ok_start. rewrite p_comparison_S. rewrite <- !app_assoc in *. cbn [erase].
    rewrite (Fall_F5 _ _ _ Fa (le_n 5) (cmp_toks op ++ pp 5 c2 ++ rest) (erase c1, cmp_toks op ++ pp 5 c2 ++ rest));
      [| destruct op; simpl; lia | apply sum_loop_stop; destruct op; simpl; lia | len].
    rewrite cmp_of_cmp_toks.
    rewrite (Fall_F5 _ _ _ Fb (le_n 5) rest (erase c2, rest)); [reflexivity| | |len].
    + eapply follow'_mono; [exact Hf|lia].
    + apply sum_loop_stop, follow'_follow. eapply follow'_mono; [exact Hf|lia].
  - (* EIsNull *)
    assert (G1 : Good c) by (apply IH; [lia|assumption]).
    destruct (pp_Fall 5 c ltac:(lia) G1) as (Fa & Hha & Hna).
    unfold Good. change (body (EIsNull c)) with (pp 5 c ++ [TKw KIS; TId w_null]).
    assert (Hh : hdb 4 (pp 5 c ++ [TKw KIS; TId w_null])) by (apply hdb_app; eapply hdb_mono; [exact Hha|lia]).
    assert (Hn : nolook (pp 5 c ++ [TKw KIS; TId w_null])) by (apply nolook_app; [exact Hna|intros; exact I]).
    split; [|split; [assumption|split; [assumption|intros Hsel; discriminate Hsel]]].
    apply Fall_build; [cbn [lvl]; lia|exact Hh|exact Hn|..]; cbn [lvl]; wrong_levels; intros _.
    intros rest Hf. ok_start. rewrite p_comparison_S. rewrite <- !app_assoc in *. cbn [erase app] in *.
    rewrite (Fall_F5 _ _ _ Fa (le_n 5) (TKw KIS :: TId w_null :: rest) (erase c, TKw KIS :: TId w_null :: rest));
      [reflexivity | simpl; lia | apply sum_loop_stop; simpl; lia | len].
  - (* EIsNotNull *)
    assert (G1 : Good c) by (apply IH; [lia|assumption]).
    destruct (pp_Fall 5 c ltac:(lia) G1) as (Fa & Hha & Hna).
    unfold Good. change (body (EIsNotNull c)) with (pp 5 c ++ [TKw KIS; TKw KNOT; TId w_null]).
    assert (Hh : hdb 4 (pp 5 c ++ [TKw KIS; TKw KNOT; TId w_null])) by (apply hdb_app; eapply hdb_mono; [exact Hha|lia]).
    assert (Hn : nolook (pp 5 c ++ [TKw KIS; TKw KNOT; TId w_null])) by (apply nolook_app; [exact Hna|intros; exact I]).
    split; [|split; [assumption|split; [assumption|intros Hsel; discriminate Hsel]]].
    apply Fall_build; [cbn [lvl]; lia|exact Hh|exact Hn|..]; cbn [lvl]; wrong_levels; intros _.
    intros rest Hf. ok_start. rewrite p_comparison_S. rewrite <- !app_assoc in *. cbn [erase app] in *.
    rewrite (Fall_F5 _ _ _ Fa (le_n 5) (TKw KIS :: TKw KNOT :: TId w_null :: rest) (erase c, TKw KIS :: TKw KNOT :: TId w_null :: rest));
      [reflexivity | simpl; lia | apply sum_loop_stop; simpl; lia | len].
  - (* EBetween *)
    apply andb_prop in Hwf. destruct Hwf as [Hwf Hw3]. apply andb_prop in Hwf. destruct Hwf as [Hw1 Hw2].
    assert (G1 : Good c1) by (apply IH; [lia|assumption]).
    assert (G2 : Good c2) by (apply IH; [lia|assumption]).
    assert (G3 : Good c3) by (apply IH; [lia|assumption]).
    destruct (pp_Fall 5 c1 ltac:(lia) G1) as (Fa & Hha & Hna).
    destruct (pp_Fall 5 c2 ltac:(lia) G2) as (Fb & _ & _).
    destruct (pp_Fall 5 c3 ltac:(lia) G3) as (Fc & _ & _).
    unfold Good. change (body (EBetween c1 c2 c3)) with (pp 5 c1 ++ TId w_between :: pp 5 c2 ++ TKw KAND :: pp 5 c3).
    assert (Hh : hdb 4 (pp 5 c1 ++ TId w_between :: pp 5 c2 ++ TKw KAND :: pp 5 c3))
      by (apply hdb_app; eapply hdb_mono; [exact Hha|lia]).
    assert (Hn : nolook (pp 5 c1 ++ TId w_between :: pp 5 c2 ++ TKw KAND :: pp 5 c3))
      by (apply nolook_app; [exact Hna|intros; exact I]).
    split; [|split; [assumption|split; [assumption|intros Hsel; discriminate Hsel]]].
    apply Fall_build; [cbn [lvl]; lia|exact Hh|exact Hn|..]; cbn [lvl]; wrong_levels; intros _.
    intros rest Hf. ok_start. rewrite p_comparison_S. rewrite <- !app_assoc in *. cbn [erase app] in *.
    rewrite <- !app_assoc in *. cbn [app] in *.
    rewrite (Fall_F5 _ _ _ Fa (le_n 5) (TId w_between :: pp 5 c2 ++ TKw KAND :: pp 5 c3 ++ rest)
               (erase c1, TId w_between :: pp 5 c2 ++ TKw KAND :: pp 5 c3 ++ rest));
      [| simpl; lia | apply sum_loop_stop; simpl; lia | len].
    change (cmp_of_tokens (TId w_between :: pp 5 c2 ++ TKw KAND :: pp 5 c3 ++ rest)) with (@None (cmp * list token)).
    cbv iota. rewrite str_eqb_refl.
    rewrite (Fall_F5 _ _ _ Fb (le_n 5) (TKw KAND :: pp 5 c3 ++ rest) (erase c2, TKw KAND :: pp 5 c3 ++ rest));
      [| simpl; lia | apply sum_loop_stop; simpl; lia | len].
    rewrite (Fall_F5 _ _ _ Fc (le_n 5) rest (erase c3, rest)); [reflexivity| | |len].
    + eapply follow'_mono; [exact Hf|lia].
    + apply sum_loop_stop, follow'_follow. eapply follow'_mono; [exact Hf|lia].
  - (* ENot *)
    assert (G1 : Good c) by (apply IH; [lia|assumption]).
    destruct (pp_Fall 3 c ltac:(lia) G1) as (Fa & _ & _).
    unfold Good. change (body (ENot c)) with (TKw KNOT :: pp 3 c).
    assert (Hh : hdb 3 (TKw KNOT :: pp 3 c)) by hdb_tac.
    assert (Hn : nolook (TKw KNOT :: pp 3 c)).
    { intros rest _. cbn [app]. destruct (pp 3 c ++ rest) as [|t r]; [reflexivity|]. destruct t; reflexivity. }
    split; [|split; [assumption|split; [assumption|intros Hsel; discriminate Hsel]]].
    apply Fall_build; [cbn [lvl]; lia|exact Hh|exact Hn|..]; cbn [lvl]; wrong_levels; intros _.
    intros rest Hf. ok_start. cbn [app erase] in *. rewrite p_inversion_S. cbv iota.
    rewrite (Fall_F3 _ _ _ Fa (le_n 3) rest Hf) by len. reflexivity.
  - (* EAnd *)
    destruct args as [|a1 l]; [discriminate|].
    apply andb_prop in Hwf. destruct Hwf as [Hlen Hwf]. cbn [forallb] in Hwf.
    apply andb_prop in Hwf. destruct Hwf as [Hw1 Hwl].
    assert (Hne : l <> []) by (destruct l; [discriminate|discriminate]).
    cbn [lsize fold_right] in Hs. fold (lsize esize l) in Hs.
    assert (G1 : Good a1) by (apply IH; [lia|assumption]).
    destruct (pp_Fall 3 a1 ltac:(lia) G1) as (Fa & Hha & Hna).
    assert (HF : forall x, List.In x l -> F3 (pp 3 x) (erase x)).
    { intros x Hx. assert (Gx : Good x).
      { apply IH; [pose proof (In_lsize esize x l Hx); lia|]. rewrite forallb_forall in Hwl. apply Hwl, Hx. }
      destruct (pp_Fall 3 x ltac:(lia) Gx) as (Fx & _ & _). apply (Fall_F3 _ _ _ Fx). lia. }
    unfold Good. change (body (EAnd (a1 :: l))) with (pp 3 a1 ++ concat (map (fun x => TKw KAND :: pp 3 x) l)).
    set (tail := concat (map (fun x => TKw KAND :: pp 3 x) l)) in *.
    assert (Ht : forall rest, exists r, tail ++ rest = TKw KAND :: r).
    { intros rest. unfold tail. destruct l as [|x l']; [congruence|]. cbn [map concat app]. eexists. reflexivity. }
    assert (Hh : hdb 2 (pp 3 a1 ++ tail)) by (apply hdb_app; eapply hdb_mono; [exact Hha|lia]).
    assert (Hn : nolook (pp 3 a1 ++ tail)).
    { apply nolook_app; [exact Hna|]. intros rest. destruct (Ht rest) as [r ->]. exact I. }
    split; [|split; [assumption|split; [assumption|intros Hsel; discriminate Hsel]]].
    apply Fall_build; [cbn [lvl]; lia|exact Hh|exact Hn|..]; cbn [lvl]; wrong_levels; intros _.
    intros rest Hf. ok_start. rewrite p_conjunction_S. rewrite <- !app_assoc in *.
    rewrite (Fall_F3 _ _ _ Fa (le_n 3) (tail ++ rest)); [| destruct (Ht rest) as [r ->]; simpl; lia | len].
    unfold tail. rewrite (and_tail l (erase a1) [] rest HF Hf) by (fold tail; len).
    rewrite mk_bool_rev; [reflexivity|]. destruct l; [congruence|discriminate].
  - (* EOr *)
    destruct args as [|a1 l]; [discriminate|].
    apply andb_prop in Hwf. destruct Hwf as [Hlen Hwf]. cbn [forallb] in Hwf.
    apply andb_prop in Hwf. destruct Hwf as [Hw1 Hwl].
    assert (Hne : l <> []) by (destruct l; [discriminate|discriminate]).
    cbn [lsize fold_right] in Hs. fold (lsize esize l) in Hs.
    assert (G1 : Good a1) by (apply IH; [lia|assumption]).
    destruct (pp_Fall 2 a1 ltac:(lia) G1) as (Fa & Hha & Hna).
    assert (HF : forall x, List.In x l -> F2 (pp 2 x) (erase x)).
    { intros x Hx. assert (Gx : Good x).
      { apply IH; [pose proof (In_lsize esize x l Hx); lia|]. rewrite forallb_forall in Hwl. apply Hwl, Hx. }
      destruct (pp_Fall 2 x ltac:(lia) Gx) as (Fx & _ & _). apply (Fall_F2 _ _ _ Fx). lia. }
    unfold Good. change (body (EOr (a1 :: l))) with (pp 2 a1 ++ concat (map (fun x => TKw KOR :: pp 2 x) l)).
    set (tail := concat (map (fun x => TKw KOR :: pp 2 x) l)) in *.
    assert (Ht : forall rest, exists r, tail ++ rest = TKw KOR :: r).
    { intros rest. unfold tail. destruct l as [|x l']; [congruence|]. cbn [map concat app]. eexists. reflexivity. }
    assert (Hh : hdb 1 (pp 2 a1 ++ tail)) by (apply hdb_app; eapply hdb_mono; [exact Hha|lia]).
    assert (Hn : nolook (pp 2 a1 ++ tail)).
    { apply nolook_app; [exact Hna|]. intros rest. destruct (Ht rest) as [r ->]. exact I. }
    split; [|split; [assumption|split; [assumption|intros Hsel; discriminate Hsel]]].
    apply Fall_build; [cbn [lvl]; lia|exact Hh|exact Hn|..]; cbn [lvl]; wrong_levels; intros _.
    intros rest Hf. apply L_D_E. ok_start. rewrite p_disjunction_S. rewrite <- !app_assoc in *.
    rewrite (Fall_F2 _ _ _ Fa (le_n 2) (tail ++ rest)); [| destruct (Ht rest) as [r ->]; simpl; lia | len].
    unfold tail. rewrite (or_tail l (erase a1) [] rest HF Hf) by (fold tail; len).
    rewrite mk_bool_rev; [reflexivity|]. destruct l; [congruence|discriminate].
  - (* ESelect *)
    apply (main_select n); [exact Hs|exact Hwf|]. intros x Hx. apply IH. exact Hx.
  - (* EParen *)
    assert (G1 : Good c) by (apply IH; [lia|assumption]).
    destruct (pp_Fall 1 c ltac:(lia) G1) as (Fa & _ & _).
    unfold Good. change (body (EParen c)) with (paren (pp 1 c)).
    assert (Hh : hdb 7 (paren (pp 1 c))) by hdb_tac.
    split; [|split; [exact Hh|split; [apply nolook_paren|intros Hsel; discriminate Hsel]]].
    apply Fall_build; [cbn [lvl]; lia|exact Hh|apply nolook_paren|..]; cbn [lvl]; wrong_levels; intros _.
    intros rest Hf. rewrite paren_app. cbn [erase]. apply (Fall_FP _ _ _ Fa).
  - (* EUPlus *)
    apply andb_prop in Hwf. destruct Hwf as [Hwf Hw1]. apply andb_prop in Hwf. destruct Hwf as [Hl _].
    apply Nat.leb_le in Hl.
    assert (G1 : Good c) by (apply IH; [lia|assumption]).
    destruct G1 as (Fa & _ & _ & _).
    unfold Good. change (body (EUPlus c)) with (TPlus :: body c).
    assert (Hh : hdb 7 (TPlus :: body c)) by hdb_tac.
    assert (Hn : nolook (TPlus :: body c)).
    { intros rest _. cbn [app]. destruct (body c ++ rest) as [|t r]; [reflexivity|]. destruct t; reflexivity. }
    split; [|split; [assumption|split; [assumption|intros Hsel; discriminate Hsel]]].
    apply Fall_build; [cbn [lvl]; lia|exact Hh|exact Hn|..]; cbn [lvl]; wrong_levels; intros _.
    intros rest Hf. ok_start. cbn [app erase] in *. rewrite p_factor_S.
    destruct m; [exfalso; len|]. rewrite p_unary_S. cbv iota.
    rewrite (Fall_F9 _ _ _ Fa Hl rest) by (try (eapply follow'_mono; [exact Hf|lia]); len). reflexivity.
Qed.

(* ---------------------------------------------------------------------- *)
(* round trip of expressions (token level) *)

Theorem expr_roundtrip : forall c, wf c = true -> parse_expr (pp 1 c) = Some (erase c).
Proof.
  intros c Hwf. destruct (pp_Fall 1 c ltac:(lia) (main (esize c) c (le_n _) Hwf)) as (HF & _ & _).
  pose proof (Fall_F1 _ _ _ HF (le_n 1) [] I) as H.
  unfold parse_expr, fuel_for. rewrite app_nil_r in H. rewrite H; [reflexivity|lia].
Qed.

Lemma map_id_in {A} (f : A -> A) l : (forall x, List.In x l -> f x = x) -> map f l = l.
Proof.
  induction l as [|y l IH]; intros H; [reflexivity|]. simpl.
  rewrite (H y (or_introl eq_refl)), IH; [reflexivity|]. intros; apply H; right; assumption.
Qed.

Lemma pure_erase : forall n e, esize e <= n -> pure e = true -> erase e = e.
Proof.
  induction n as [|n IH]; intros e Hs Hp.
  { destruct e; simpl in Hs; lia. }
  destruct e; cbn [pure esize erase] in *; try discriminate; try reflexivity;
    repeat match goal with
           | H : _ && _ = true |- _ => apply andb_prop in H; destruct H
           end;
    try (rewrite ?IH by (assumption || lia); reflexivity).
  - f_equal. apply map_id_in. intros x Hx. rewrite forallb_forall in Hp.
    apply IH; [pose proof (In_lsize esize x args Hx); lia|apply Hp, Hx].
  - f_equal. apply map_id_in. intros x Hx. rewrite forallb_forall in Hp.
    apply IH; [pose proof (In_lsize esize x args Hx); lia|apply Hp, Hx].
  - f_equal. apply map_id_in. intros x Hx. rewrite forallb_forall in Hp.
    apply IH; [pose proof (In_lsize esize x args Hx); lia|apply Hp, Hx].
  - (* ESelect *)
    rename H into Ht, H3 into Hf, H2 into Hw, H1 into Hg, H0 into Ho.
    f_equal.
    + destruct targets as [tl|]; [|reflexivity]. cbn [omap oall osize] in *. f_equal. apply map_id_in.
      intros [x nm] Hx. cbn [fst snd]. f_equal. rewrite forallb_forall in Ht.
      apply IH; [|apply (Ht (x, nm) Hx)].
      pose proof (In_lsize (fun p : expr * option str => esize (fst p)) (x, nm) tl Hx) as H. cbn [fst] in H. lia.
    + destruct from as [[nm|s|x op c cl]|]; try reflexivity; cbn [omap oall osize from_map from_size] in *.
      * do 2 f_equal. apply IH; [lia|exact Hf].
      * do 2 f_equal. destruct x as [x|]; [|reflexivity]. cbn [omap oall osize] in *. f_equal. apply IH; [lia|exact Hf].
    + destruct where_ as [x|]; [|reflexivity]. cbn [omap oall osize] in *. f_equal. apply IH; [lia|exact Hw].
    + destruct group as [[gl h]|]; [|reflexivity]. cbn [omap oall osize fst snd] in *.
      apply andb_prop in Hg. destruct Hg as [Hgl Hh]. do 2 f_equal.
      * apply map_id_in. intros [k|x] Hx; [reflexivity|]. cbn [smap]. f_equal. rewrite forallb_forall in Hgl.
        apply IH; [|apply (Hgl (inr x) Hx)].
        pose proof (In_lsize (ssize esize) (inr x) gl Hx) as H. cbn [ssize] in H. lia.
      * destruct h as [x|]; [|reflexivity]. cbn [omap oall osize] in *. f_equal. apply IH; [lia|exact Hh].
    + apply map_id_in. intros [[k|x] dsc] Hx; [reflexivity|]. cbn [fst snd smap]. do 2 f_equal.
      rewrite forallb_forall in Ho. apply IH; [|apply (Ho (inr x, dsc) Hx)].
      pose proof (In_lsize (fun p : (N + expr) * bool => ssize esize (fst p)) (inr x, dsc) order Hx) as H.
      cbn [ssize fst] in H. lia.
Qed.

Theorem expr_roundtrip_pure : forall e, wf e = true -> pure e = true -> parse_expr (pp 1 e) = Some e.
Proof.
  intros e Hwf Hp. rewrite expr_roundtrip by assumption.
  rewrite (pure_erase (esize e) e (le_n _) Hp). reflexivity.
Qed.

(* two distinct trees never print alike (up to redundant syntax) *)
Theorem print_injective : forall c1 c2, wf c1 = true -> wf c2 = true ->
  pp 1 c1 = pp 1 c2 -> erase c1 = erase c2.
Proof.
  intros c1 c2 W1 W2 E.
  pose proof (expr_roundtrip c1 W1) as H1. rewrite E, (expr_roundtrip c2 W2) in H1. congruence.
Qed.

(* ---------------------------------------------------------------------- *)
(* statements *)

Definition at_toks (sf : option str) : list token := match sf with Some n => [TId w_at; TId n] | None => [] end.
Definition from_part (f : option (fromc expr)) : list token :=
  match f with Some fc => TKw KFROM :: from_toks fc | None => [] end.

Lemma wf_from_only_G fc : wf_from_only fc = true ->
  exists x o c cl, fc = FFrom x o c cl /\ G1o x /\ ffrom_nonempty x o c cl.
Proof.
  destruct fc as [n|s|x o c cl]; try discriminate. cbn [wf_from_only wf_from]. intros H.
  apply andb_prop in H. destruct H as [Hx Hne]. exists x, o, c, cl. split; [reflexivity|]. split.
  - destruct x as [x|]; [|exact I]. apply Good_G1, (main (esize x) x (le_n _) Hx).
  - destruct x, o, c, cl; try exact I. discriminate Hne.
Qed.

Lemma from_opt_ok m f rest : oall wf_from_only f = true -> 2 <= crank rest ->
  40 * length (from_part f ++ rest) + 14 <= m ->
  p_from_opt m (from_part f ++ rest) = Some (omap from_erase f, rest).
Proof.
  intros Hwf Hr Hm. destruct f as [fc|]; cbn [from_part app oall omap] in *.
  - destruct (wf_from_only_G fc Hwf) as (x & o & c & cl & -> & HG & Hne).
    unfold p_from_opt. change (from_toks (FFrom x o c cl)) with (ffrom_toks x o c cl) in *.
    destruct (ffrom_ok m x o c cl rest HG Hne Hr) as (_ & E); [len|]. rewrite E. reflexivity.
  - unfold p_from_opt. destruct rest as [|t r]; [reflexivity|]. destruct t; try reflexivity.
    destruct k; try reflexivity. simpl in Hr. lia.
Qed.

Lemma at_ok sf R : match R with TId _ :: _ | TStr _ :: _ => False | _ => True end ->
  p_at_opt (at_toks sf ++ R) = (sf, R).
Proof.
  intros HR. destruct sf as [n|]; [reflexivity|]. cbn [at_toks app].
  destruct R as [|t r]; [reflexivity|]. destruct t; try reflexivity. contradiction.
Qed.
Lemma from_part_hd f R : match R with TId _ :: _ | TStr _ :: _ => False | _ => True end ->
  match from_part f ++ R with TId _ :: _ | TStr _ :: _ => False | _ => True end.
Proof. destruct f; [intros _; exact I|intros H; exact H]. Qed.

Theorem stmt_roundtrip : forall s, wf_stmt s = true -> parse_tokens (print_stmt s) = Some (stmt_erase s).
Proof.
  intros s Hwf. unfold parse_tokens. set (fuel := fuel_for (print_stmt s)). destruct s; cbn [wf_stmt] in Hwf.
  - (* SELECT *)
    apply andb_prop in Hwf. destruct Hwf as [Hsel Hw].
    destruct (main (esize s) s (le_n _) Hw) as (_ & _ & _ & HS).
    pose proof (HS Hsel [] I) as H. rewrite app_nil_r in H.
    cbn [print_stmt stmt_erase] in *. unfold p_statement.
    assert (E : p_select fuel (body s) = Some (erase s, [])) by (apply H; unfold fuel, fuel_for; lia).
    destruct s; try discriminate Hsel. rewrite body_select in *. cbv iota. rewrite E. reflexivity.
  - (* BALANCES *)
    apply andb_prop in Hwf. destruct Hwf as [Hf Hw].
    change (print_stmt (SBalances summary from where_))
      with (TKw KBALANCES :: at_toks summary ++ from_part from ++ where_toks where_) in *.
    unfold p_statement. cbv iota.
    rewrite at_ok by (apply from_part_hd; destruct where_; exact I).
    assert (Hm : 40 * length (at_toks summary ++ from_part from ++ where_toks where_) + 40 <= fuel).
    { unfold fuel, fuel_for. len. }
    rewrite <- (app_nil_r (where_toks where_)) at 1.
    rewrite from_opt_ok; [|exact Hf|destruct where_; simpl; lia|len].
    cbn [stmt_erase]. destruct where_ as [x|]; cbn [where_toks app omap oall] in *.
    + destruct (pp_Fall 1 x ltac:(lia) (main (esize x) x (le_n _) Hw)) as (HF & _ & _).
      pose proof (Fall_F1 _ _ _ HF (le_n 1) [] I fuel) as H. rewrite H; [reflexivity|len].
    + reflexivity.
  - (* JOURNAL *)
    change (print_stmt (SJournal account summary from))
      with (TKw KJOURNAL :: match account with Some a => [str_tok a] | None => [] end
                         ++ at_toks summary ++ from_part from) in *.
    unfold p_statement. cbv iota.
    assert (Hm : 40 * length (match account with Some a => [str_tok a] | None => [] end
                              ++ at_toks summary ++ from_part from) + 40 <= fuel).
    { unfold fuel, fuel_for. len. }
    assert (EA : match (match account with Some a => [str_tok a] | None => [] end
                              ++ at_toks summary ++ from_part from) with
                 | TStr s0 :: r' => (Some s0, r')
                 | _ => (None, match account with Some a => [str_tok a] | None => [] end
                              ++ at_toks summary ++ from_part from)
                 end = (account, at_toks summary ++ from_part from)).
    { destruct account as [a|]; [reflexivity|]. cbn [app]. destruct summary as [n|]; [reflexivity|].
      cbn [at_toks app]. destruct from; reflexivity. }
    rewrite EA. rewrite <- (app_nil_r (from_part from)) at 1.
    rewrite at_ok by (apply from_part_hd; exact I).
    rewrite from_opt_ok; [reflexivity|exact Hwf|simpl; lia|destruct account; len].
  - (* PRINT *)
    change (print_stmt (SPrint from)) with (TKw KPRINT :: from_part from) in *.
    unfold p_statement. cbv iota. rewrite <- (app_nil_r (from_part from)).
    rewrite from_opt_ok; [reflexivity|exact Hwf|simpl; lia|unfold fuel, fuel_for; len].
Qed.

Theorem stmt_roundtrip_pure : forall s, wf_stmt s = true -> stmt_erase s = s ->
  parse_tokens (print_stmt s) = Some s.
Proof. intros s Hwf He. rewrite stmt_roundtrip by exact Hwf. rewrite He. reflexivity. Qed.

Theorem stmt_print_injective : forall s1 s2, wf_stmt s1 = true -> wf_stmt s2 = true ->
  print_stmt s1 = print_stmt s2 -> stmt_erase s1 = stmt_erase s2.
Proof.
  intros s1 s2 W1 W2 E. pose proof (stmt_roundtrip s1 W1) as H. rewrite E, (stmt_roundtrip s2 W2) in H. congruence.
Qed.
