(* Common lemmas for the translator-based ties of the stateful API code outside cursor.py.  The ties themselves are
   one file per generated group, so that a change of one source file only re-opens the obligations of the property
   that owns it:
     Proofs/SrcNaming.v  (Gen/SrcNaming.v, C07)   compiler.get_target_name
     Proofs/SrcParams.v  (Gen/SrcParams.v, C09)   Compiler.compile (placeholder validation), Compiler._placeholder,
                                                  compiler.compile, Connection.execute / cursor / parse / compile
     Proofs/SrcShell.v   (Gen/SrcShell.v, C19)    DispatchingShell.parseline / onecmd, Settings._parse_bool
   Translator rules: harness/vf/src_api.py; primitive semantics: Model/PrimsApi.v. *)
From Coq Require Import String Ascii ZArith List Bool Lia.
Import ListNotations.
From Verif Require Import Base.StableSort Base.PyValue Model.Eval Model.PyMini Model.PrimsApi Proofs.PyMiniLemmas.
Open Scope string_scope.
Open Scope list_scope.
Open Scope Z_scope.

Lemma zeqb_refl a : zeqb a a = true.
Proof. induction a as [|x a IH]; cbn; [reflexivity|]. now rewrite Z.eqb_refl. Qed.

Lemma zeqb_eq a b : zeqb a b = true <-> a = b.
Proof.
  revert b; induction a as [|x a IH]; intros [|y b]; cbn; split; intros H; try reflexivity; try discriminate.
  - apply andb_true_iff in H as [H1 H2]. apply Z.eqb_eq in H1. apply IH in H2. congruence.
  - injection H as -> ->. now rewrite Z.eqb_refl, zeqb_refl.
Qed.
