(* Common lemmas for the translator-based ties of the stateful API code outside cursor.py.  The ties themselves are
   one file per generated group, so that a change of one source file only re-opens the obligations of the property
   that owns it:
     Proofs/SrcNaming.v  (Gen/SrcNaming.v, C07)   compiler.get_target_name
     Proofs/SrcParams.v  (Gen/SrcParams.v, C09)   Compiler.compile (placeholder validation), Compiler._placeholder,
                                                  compiler.compile, Connection.execute / cursor / parse / compile
     Proofs/SrcShell.v   (Gen/SrcShell.v, C19)    DispatchingShell.parseline / onecmd, Settings._parse_bool
   Translator rules: harness/vf/src_api.py; primitive semantics: Model/PrimsApi.v. *)
From Coq Require Import String Ascii ZArith List Bool Lia.
Import ListNotations.
From Verif Require Import Base.StableSort Base.PyValue Model.Eval Model.PyMini Model.PrimsApi Proofs.PyMiniLemmas
  Proofs.PyValueProofs.
Open Scope string_scope.
Open Scope list_scope.
Open Scope Z_scope.

Lemma zeqb_refl a : zeqb a a = true.
Proof. induction a as [|x a IH]; cbn; [reflexivity|]. now rewrite Z.eqb_refl. Qed.

Lemma zeqb_eq a b : zeqb a b = true <-> a = b.
Proof.
  revert b; induction a as [|x a IH]; intros [|y b]; cbn; split; intros H; try reflexivity; try discriminate.
  - apply andb_true_iff in H as [H1 H2]. apply Z.eqb_eq in H1. apply IH in H2. congruence.
  - injection H as -> ->. now rewrite Z.eqb_refl, zeqb_refl.
Qed.

(* Python == on two str / two int values of the interpreter is code-point / integer equality *)
Lemma val_eq_str a b : val_eq (VStr a) (VStr b) = zeqb a b.
Proof.
  unfold val_eq, StableSort.eqv. rewrite !val_le_str. revert b.
  induction a as [|x a IH]; intros [|y b]; cbn; try reflexivity.
  destruct (Z.ltb_spec x y), (Z.ltb_spec y x), (Z.eqb_spec x y); cbn; try lia; try reflexivity. apply IH.
Qed.

Lemma val_eq_int a b : val_eq (VInt a) (VInt b) = (a =? b).
Proof.
  unfold val_eq, StableSort.eqv. rewrite !val_le_int.
  destruct (a =? b) eqn:E; [apply Z.eqb_eq in E; subst; rewrite Z.leb_refl; reflexivity|].
  apply Z.eqb_neq in E. destruct (a <=? b) eqn:E1; destruct (b <=? a) eqn:E2; try reflexivity.
  apply Z.leb_le in E1, E2. lia.
Qed.

Lemma pv_eqb_str a b : pv_eqb (PV (VStr a)) (PV (VStr b)) = zeqb a b.
Proof. cbn. apply val_eq_str. Qed.

Lemma key_eqb_eq x y : key_eqb x y = true -> x = y.
Proof.
  destruct x as [[]| | | |], y as [[]| | | |]; cbn; try discriminate.
  - intros H. apply Z.eqb_eq in H. now subst.
  - intros H. apply zeqb_eq in H. now subst.
Qed.

(* ---- dedupe (set construction) is invisible to all() / any() / emptiness of a filter *)
Lemma dedupe_incl seen l x : In x (dedupe seen l) -> In x l.
Proof.
  revert seen; induction l as [|y t IH]; intros seen; cbn; [tauto|].
  destruct (existsb (key_eqb y) seen); cbn; intros H; [right; eauto|].
  destruct H as [->|H]; [now left|right; eauto].
Qed.

Lemma forallb_dedupe (f : pv -> bool) l : forall seen,
  (forall y, In y seen -> f y = true) -> forallb f (dedupe seen l) = forallb f l.
Proof.
  induction l as [|x t IH]; intros seen Hs; cbn; [reflexivity|].
  destruct (existsb (key_eqb x) seen) eqn:E.
  - apply existsb_exists in E as (y & Hy & Ek). apply key_eqb_eq in Ek. subst y.
    rewrite (Hs _ Hy). cbn. apply IH, Hs.
  - cbn. destruct (f x) eqn:Fx; cbn; [|reflexivity].
    apply IH. intros y [<-|Hy]; auto.
Qed.

Lemma existsb_dedupe (f : pv -> bool) l : forall seen,
  (forall y, In y seen -> f y = false) -> existsb f (dedupe seen l) = existsb f l.
Proof.
  induction l as [|x t IH]; intros seen Hs; cbn; [reflexivity|].
  destruct (existsb (key_eqb x) seen) eqn:E.
  - apply existsb_exists in E as (y & Hy & Ek). apply key_eqb_eq in Ek. subst y.
    rewrite (Hs _ Hy). cbn. apply IH, Hs.
  - cbn. destruct (f x) eqn:Fx; cbn; [reflexivity|].
    apply IH. intros y [<-|Hy]; auto.
Qed.

Lemma all_truthy_forallb (tr : pv -> bool) l :
  (forall x, In x l -> pv_truthy x = Ok (tr x)) -> all_truthy l = Ok (forallb tr l).
Proof.
  induction l as [|x t IH]; intros H; cbn; [reflexivity|].
  rewrite (H x (or_introl eq_refl)). cbn. destruct (tr x); cbn; [|reflexivity].
  apply IH. intros y Hy. apply H. now right.
Qed.

Lemma any_truthy_existsb (tr : pv -> bool) l :
  (forall x, In x l -> pv_truthy x = Ok (tr x)) -> any_truthy l = Ok (existsb tr l).
Proof.
  induction l as [|x t IH]; intros H; cbn; [reflexivity|].
  rewrite (H x (or_introl eq_refl)). cbn. destruct (tr x); cbn; [reflexivity|].
  apply IH. intros y Hy. apply H. now right.
Qed.

Lemma filter_nonempty {A} (g : A -> bool) l :
  match filter g l with [] => false | _ => true end = existsb g l.
Proof.
  induction l as [|x t IH]; cbn; [reflexivity|]. destruct (g x); cbn; [reflexivity|apply IH].
Qed.

(* ---- list comprehensions (with or without a condition) as a top-level recursive function *)
Section Comp.
Variable call_ref : nat -> list pv -> pv.
Variable prim : string -> list pv -> res pv.
Notation eval := (PyMini.eval call_ref prim).

Fixpoint comp_go (s1 : st) (elt : expr) (x : string) (cond : option expr) (l : list pv) : res (list pv) :=
  match l with
  | [] => Ok []
  | v :: t =>
      let sx := write s1 (TName x) v in
      bind (match cond with
            | None => Ok true
            | Some c => bind (eval sx c) (fun p => pv_truthy (snd p))
            end)
        (fun keep : bool =>
           if keep then bind (eval sx elt) (fun p => bind (comp_go s1 elt x cond t) (fun rs => Ok (snd p :: rs)))
           else comp_go s1 elt x cond t)
  end.

Lemma eval_listcomp_gen elt x it cond s s1 l :
  eval s it = Ok (s1, PList l) ->
  eval s (XListComp elt x it cond) = bind (comp_go s1 elt x cond l) (fun vs => Ok (s1, PList vs)).
Proof.
  intros H. cbn [PyMini.eval]. rewrite H. cbn [bind].
  match goal with |- bind ?a _ = bind ?b _ => assert (E : a = b) end.
  { clear H. destruct cond as [c|]; induction l as [|v t IH]; try reflexivity; cbn [comp_go].
    - destruct (eval (write s1 (TName x) v) c) as [[s2 cv]| |]; cbn [bind snd]; try reflexivity.
      destruct (pv_truthy cv) as [[|]| |]; cbn [bind]; try reflexivity; [|exact IH].
      destruct (eval (write s1 (TName x) v) elt) as [[s3 r]| |]; cbn [bind snd]; try reflexivity.
      rewrite IH. reflexivity.
    - cbn [bind] in IH |- *.
      destruct (eval (write s1 (TName x) v) elt) as [[s3 r]| |]; cbn [bind snd]; try reflexivity.
      rewrite IH. reflexivity. }
  rewrite E. reflexivity.
Qed.
End Comp.
