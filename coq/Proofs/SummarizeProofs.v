(* C13: proofs about Model/Summarize.v.  Everything is stated for ALL ledgers,
   dates, options and linear posting measures. *)
From Coq Require Import ZArith List Bool Lia Permutation Sorted.
Import ListNotations.
From Verif Require Import Base.StableSort Model.Summarize.
Open Scope Z_scope.

(* ------------------------------------------------------------------ *)
(* decidable equalities *)

Lemma root_eqb_eq a b : root_eqb a b = true <-> a = b.
Proof. destruct a, b; unfold root_eqb; simpl; split; intro H; try reflexivity; try discriminate. Qed.

Lemma acct_eqb_eq a b : acct_eqb a b = true <-> a = b.
Proof.
  destruct a as [r i], b as [r' i']; unfold acct_eqb; simpl.
  rewrite andb_true_iff, root_eqb_eq, Z.eqb_eq. split; [intros [-> ->]; reflexivity | intro H; inversion H; auto].
Qed.

Lemma cost_eqb_eq a b : cost_eqb a b = true <-> a = b.
Proof.
  destruct a, b; unfold cost_eqb; simpl.
  rewrite !andb_true_iff, !Z.eqb_eq. split.
  - intros [[[-> ->] ->] ->]; reflexivity.
  - intro H; inversion H; auto.
Qed.

Lemma key_eqb_eq a b : key_eqb a b = true <-> a = b.
Proof.
  destruct a as [c o], b as [c' o']; unfold key_eqb; simpl.
  rewrite andb_true_iff, Z.eqb_eq. destruct o, o'; split.
  - intros [-> H]. apply cost_eqb_eq in H. subst; reflexivity.
  - intro H; inversion H; split; [reflexivity | apply cost_eqb_eq; reflexivity].
  - intros [_ H]; discriminate.
  - intro H; discriminate.
  - intros [_ H]; discriminate.
  - intro H; discriminate.
  - intros [-> _]; reflexivity.
  - intro H; inversion H; auto.
Qed.

Lemma acct_eqb_refl a : acct_eqb a a = true. Proof. apply acct_eqb_eq; reflexivity. Qed.
Lemma key_eqb_refl a : key_eqb a a = true. Proof. apply key_eqb_eq; reflexivity. Qed.

(* ------------------------------------------------------------------ *)
(* sums *)

Lemma psum_app f a b : psum f (a ++ b) = psum f a + psum f b.
Proof. induction a; simpl; lia. Qed.
Lemma lsum_app f a b : lsum f (a ++ b) = lsum f a + lsum f b.
Proof. induction a; simpl; lia. Qed.
Lemma lsum_cons f t l : lsum f (t :: l) = psum f (t_posts t) + lsum f l.
Proof. reflexivity. Qed.
Lemma lsum_nil f : lsum f [] = 0. Proof. reflexivity. Qed.

Lemma psum_zero f ps : (forall p, In p ps -> f p = 0) -> psum f ps = 0.
Proof. induction ps; simpl; intros H; [reflexivity|]. rewrite (H a), IHps; auto. Qed.
Lemma lsum_zero f l : (forall t p, In t l -> In p (t_posts t) -> f p = 0) -> lsum f l = 0.
Proof.
  induction l; simpl; intros H; [reflexivity|].
  rewrite psum_zero, IHl; [reflexivity| |]; eauto.
Qed.
Lemma psum_ext f f' ps : (forall p, f p = f' p) -> psum f ps = psum f' ps.
Proof. intro H; induction ps; simpl; [reflexivity|]. rewrite H, IHps; reflexivity. Qed.
Lemma lsum_ext f f' l : (forall p, f p = f' p) -> lsum f l = lsum f' l.
Proof. intro H; induction l; simpl; [reflexivity|]. rewrite (psum_ext f f'), IHl; auto. Qed.

Definition fsum {A} (h : A -> Z) (l : list A) : Z := fold_right (fun x s => h x + s) 0 l.
Lemma fsum_perm {A} (h : A -> Z) l l' : Permutation l l' -> fsum h l = fsum h l'.
Proof. induction 1; simpl; lia. Qed.
Lemma fsum_ext {A} (h h' : A -> Z) l : (forall x, h x = h' x) -> fsum h l = fsum h' l.
Proof. intro H; induction l; simpl; [reflexivity|]. rewrite H, IHl; reflexivity. Qed.
Lemma lsum_flat_map {A} f (F : A -> list txn) l : lsum f (flat_map F l) = fsum (fun x => lsum f (F x)) l.
Proof. induction l; simpl; [reflexivity|]. rewrite lsum_app, IHl; reflexivity. Qed.
Lemma psum_flat_map {A} f (F : A -> list posting) l : psum f (flat_map F l) = fsum (fun x => psum f (F x)) l.
Proof. induction l; simpl; [reflexivity|]. rewrite psum_app, IHl; reflexivity. Qed.

(* ------------------------------------------------------------------ *)
(* inventories and balances as linear functionals *)

Definition inv_wsum (w : key -> Z) (i : inv) : Z := fsum (fun kn => w (fst kn) * snd kn) i.
Definition bal_wsum (g : account -> key -> Z) (b : bal) : Z := fsum (fun ai => inv_wsum (g (fst ai)) (snd ai)) b.

Lemma inv_wsum_add w i k n : inv_wsum w (inv_add i k n) = inv_wsum w i + w k * n.
Proof.
  induction i as [|[k' m] r IH]; simpl.
  - destruct (Z.eqb_spec n 0); simpl; [subst; lia | unfold inv_wsum; simpl; lia].
  - destruct (key_eqb k' k) eqn:E.
    + apply key_eqb_eq in E; subst k'.
      destruct (Z.eqb_spec (m + n) 0) as [H|H].
      * unfold inv_wsum; simpl. fold (inv_wsum w r).
        assert (n = - m) by lia. subst n. ring.
      * unfold inv_wsum; simpl. fold (inv_wsum w r). ring.
    + unfold inv_wsum in *; simpl. rewrite IH. ring.
Qed.

Lemma bal_wsum_add g b p :
  bal_wsum g (bal_add b (p_acct p) p) = bal_wsum g b + measure g p.
Proof.
  unfold measure. induction b as [|[a' i] r IH]; simpl.
  - unfold bal_wsum; simpl. unfold inv_add_posting. rewrite inv_wsum_add. unfold inv_wsum; simpl. ring.
  - destruct (acct_eqb a' (p_acct p)) eqn:E.
    + apply acct_eqb_eq in E; subst a'. unfold bal_wsum; simpl. unfold inv_add_posting.
      rewrite inv_wsum_add. ring.
    + unfold bal_wsum in *; simpl. rewrite IH. ring.
Qed.

Lemma balance_posts g ps : forall b,
  bal_wsum g (fold_left (fun b p => bal_add b (p_acct p) p) ps b) = bal_wsum g b + psum (measure g) ps.
Proof. induction ps; simpl; intro b; [lia|]. rewrite IHps, bal_wsum_add. lia. Qed.

Lemma balance_entries g l : forall b,
  bal_wsum g (fold_left (fun b t => fold_left (fun b p => bal_add b (p_acct p) p) (t_posts t) b) l b)
  = bal_wsum g b + lsum (measure g) l.
Proof. induction l; simpl; intro b; [lia|]. rewrite IHl, balance_posts. lia. Qed.

(* balance_by_account(before)[a] holds, for every lot, the sum of the postings *)
Lemma balance_by_account_sum g l : bal_wsum g (balance_by_account l) = lsum (measure g) l.
Proof. unfold balance_by_account. rewrite balance_entries. reflexivity. Qed.

Lemma entries_balance_posts w ps : forall i,
  inv_wsum w (fold_left inv_add_posting ps i) = inv_wsum w i + psum (fun p => w (p_key p) * p_units p) ps.
Proof.
  induction ps; simpl; intro i; [lia|]. rewrite IHps. unfold inv_add_posting. rewrite inv_wsum_add. lia.
Qed.
Lemma entries_balance_gen w l : forall i,
  inv_wsum w (fold_left (fun i t => fold_left inv_add_posting (t_posts t) i) l i)
  = inv_wsum w i + lsum (fun p => w (p_key p) * p_units p) l.
Proof. induction l; simpl; intro i; [lia|]. rewrite IHl, entries_balance_posts. lia. Qed.
Lemma entries_balance_sum w l : inv_wsum w (entries_balance l) = lsum (fun p => w (p_key p) * p_units p) l.
Proof. unfold entries_balance. rewrite entries_balance_gen. reflexivity. Qed.

Lemma inv_wsum_cons w k n r : inv_wsum w ((k, n) :: r) = w k * n + inv_wsum w r.
Proof. reflexivity. Qed.
Lemma inv_wsum_nil w : inv_wsum w [] = 0.
Proof. reflexivity. Qed.
Lemma inv_reduce_cost_gen w i : forall acc,
  inv_wsum w (fold_left (fun acc kn => inv_add acc (key_cost_cur (fst kn), None) (key_cost_mult (fst kn) * snd kn)) i acc)
  = inv_wsum w acc + inv_wsum (fun k => w (key_cost_cur k, None) * key_cost_mult k) i.
Proof.
  induction i as [|[k n] r IH]; intro acc.
  - simpl fold_left. rewrite inv_wsum_nil. lia.
  - simpl fold_left. rewrite IH, inv_wsum_add, inv_wsum_cons. simpl fst; simpl snd. ring.
Qed.
Lemma inv_reduce_cost_sum w i :
  inv_wsum w (inv_reduce_cost i) = inv_wsum (fun k => w (key_cost_cur k, None) * key_cost_mult k) i.
Proof. unfold inv_reduce_cost. rewrite inv_reduce_cost_gen. reflexivity. Qed.

Lemma inv_wsum_zero i : inv_wsum (fun _ => 0) i = 0.
Proof. induction i as [|[k n] r IH]; [reflexivity|]. rewrite inv_wsum_cons, IH. lia. Qed.
Lemma bal_wsum_filter g (pred : account -> bool) b :
  bal_wsum g (filter (fun ai => pred (fst ai)) b) = bal_wsum (fun a k => if pred a then g a k else 0) b.
Proof.
  induction b as [|[a i] r IH]; simpl; [reflexivity|].
  unfold bal_wsum in *; simpl. destruct (pred a); simpl.
  - rewrite IH. reflexivity.
  - rewrite IH. rewrite inv_wsum_zero. lia.
Qed.

(* ------------------------------------------------------------------ *)
(* create_entries_from_balances *)

Definition sgn (direction : bool) : Z := if direction then 1 else -1.
(* the coefficient of the counter-posting on the source account *)
Definition g_src (g : account -> key -> Z) (src : account) : account -> key -> Z :=
  fun _ k => g src (key_cost_cur k, None) * key_cost_mult k.

Lemma pos_postings_sum g a src dir kn :
  psum (measure g) (pos_postings a src dir kn)
  = sgn dir * (g a (fst kn) * snd kn - g_src g src a (fst kn) * snd kn).
Proof.
  destruct kn as [[c o] n]. unfold pos_postings, measure, g_src, p_key, sgn; simpl.
  destruct dir; ring.
Qed.

Lemma entry_from_balance_sum g date src dir flag ai :
  lsum (measure g) (entry_from_balance date src dir flag ai)
  = sgn dir * (inv_wsum (g (fst ai)) (snd ai) - inv_wsum (g_src g src (fst ai)) (snd ai)).
Proof.
  destruct ai as [a i]. unfold entry_from_balance; simpl.
  destruct i as [|kn r]; simpl; [unfold inv_wsum; simpl; lia|].
  rewrite psum_app, pos_postings_sum, psum_flat_map.
  rewrite (fsum_ext _ (fun kn => sgn dir * (g a (fst kn) * snd kn - g_src g src a (fst kn) * snd kn)))
    by (intro; apply pos_postings_sum).
  unfold inv_wsum; simpl.
  assert (forall l, fsum (fun kn : key * Z => sgn dir * (g a (fst kn) * snd kn - g_src g src a (fst kn) * snd kn)) l
                    = sgn dir * (fsum (fun kn => g a (fst kn) * snd kn) l - fsum (fun kn => g_src g src a (fst kn) * snd kn) l)) as H.
  { induction l; simpl; [lia|]. rewrite IHl. ring. }
  rewrite H. ring.
Qed.

Lemma entries_from_balances_sum g b date src dir flag :
  lsum (measure g) (entries_from_balances b date src dir flag)
  = sgn dir * (bal_wsum g b - bal_wsum (g_src g src) b).
Proof.
  unfold entries_from_balances. rewrite lsum_flat_map.
  rewrite <- (fsum_perm _ b (sort_bal b)) by apply isort_perm.
  rewrite (fsum_ext _ _ b (entry_from_balance_sum g date src dir flag)).
  unfold bal_wsum. induction b; simpl; [lia|]. rewrite IHb. ring.
Qed.

Lemma Forall_flat_map {A B} (P : B -> Prop) (F : A -> list B) l :
  (forall x, In x l -> Forall P (F x)) -> Forall P (flat_map F l).
Proof. induction l; simpl; intro H; [constructor|]. apply Forall_app; split; auto. Qed.

Lemma entries_from_balances_shape b date src dir flag :
  Forall (fun t => t_flag t = flag /\ t_date t = date) (entries_from_balances b date src dir flag).
Proof.
  apply Forall_flat_map. intros [a i] _. unfold entry_from_balance.
  destruct (inv_is_empty (snd (a, i))); repeat constructor.
Qed.

(* every generated entry balances (weights) *)
Lemma pos_postings_wsum c a src dir kn : wsum c (pos_postings a src dir kn) = 0.
Proof.
  destruct kn as [[cu o] n]. unfold wsum, pos_postings, weight, key_cost_mult, key_cost_cur; simpl.
  destruct o as [co|]; simpl; destruct (_ =? c); lia.
Qed.
Lemma wsum_app c a b : wsum c (a ++ b) = wsum c a + wsum c b.
Proof. unfold wsum. apply psum_app. Qed.
Lemma entries_from_balances_balanced b date src dir flag :
  Forall balanced (entries_from_balances b date src dir flag).
Proof.
  apply Forall_flat_map. intros [a i] _. unfold entry_from_balance.
  destruct (inv_is_empty (snd (a, i))); repeat constructor.
  intro c. simpl. induction i as [|kn r IH]; simpl; [reflexivity|].
  rewrite wsum_app, pos_postings_wsum, IH. reflexivity.
Qed.

(* ------------------------------------------------------------------ *)
(* splitting at a date *)

Lemma take_drop d l : take_before d l ++ drop_before d l = l.
Proof. induction l; simpl; [reflexivity|]. destruct (_ <? d); simpl; congruence. Qed.
Lemma take_before_lt d l : Forall (fun t => t_date t < d) (take_before d l).
Proof. induction l; simpl; [constructor|]. destruct (Z.ltb_spec (t_date a) d); constructor; auto. Qed.
Lemma take_app d a b : Forall (fun t => t_date t < d) a ->
  take_before d (a ++ b) = a ++ take_before d b.
Proof.
  induction 1; simpl; [reflexivity|]. destruct (Z.ltb_spec (t_date x) d); [|lia]. rewrite IHForall. reflexivity.
Qed.
Lemma drop_app d a b : Forall (fun t => t_date t < d) a ->
  drop_before d (a ++ b) = drop_before d b.
Proof. induction 1; simpl; [reflexivity|]. destruct (Z.ltb_spec (t_date x) d); [|lia]. exact IHForall. Qed.
Lemma take_of_drop d l : take_before d (drop_before d l) = [].
Proof. induction l; simpl; [reflexivity|]. destruct (_ <? d) eqn:E; [exact IHl|]. simpl. rewrite E. reflexivity. Qed.
Lemma drop_of_drop d l : drop_before d (drop_before d l) = drop_before d l.
Proof. induction l; simpl; [reflexivity|]. destruct (_ <? d) eqn:E; [exact IHl|]. simpl. rewrite E. reflexivity. Qed.
Lemma take_of_take d l : take_before d (take_before d l) = take_before d l.
Proof. induction l; simpl; [reflexivity|]. destruct (_ <? d) eqn:E; [|reflexivity]. simpl. rewrite E, IHl. reflexivity. Qed.
Lemma drop_of_take d l : drop_before d (take_before d l) = [].
Proof. induction l; simpl; [reflexivity|]. destruct (_ <? d) eqn:E; [|reflexivity]. simpl. rewrite E. exact IHl. Qed.
Lemma take_take_le d e l : d <= e -> take_before e (take_before d l ++ drop_before d l)
  = take_before d l ++ take_before e (drop_before d l).
Proof.
  intro H. apply take_app. eapply Forall_impl; [|apply take_before_lt]. simpl; intros; lia.
Qed.

(* the split of  before ++ X ++ after  when X is dated before d and (before, after) is itself a split at d *)
Lemma split_mid d l X : Forall (fun t => t_date t < d) X ->
  take_before d (take_before d l ++ X ++ drop_before d l) = take_before d l ++ X /\
  drop_before d (take_before d l ++ X ++ drop_before d l) = drop_before d l.
Proof.
  intro HX. assert (Forall (fun t => t_date t < d) (take_before d l ++ X)) as H
    by (apply Forall_app; split; [apply take_before_lt | exact HX]).
  rewrite !app_assoc. split.
  - rewrite take_app by exact H. rewrite take_of_drop, app_nil_r. reflexivity.
  - rewrite drop_app by exact H. apply drop_of_drop.
Qed.

(* ------------------------------------------------------------------ *)
(* the three operations in "inserted entries" form *)

Definition conv_entries (before : list txn) (acct : account) (ccur ldate : Z) : list txn :=
  let cb := inv_reduce_cost (entries_balance before) in
  if inv_is_empty cb then [] else [conversion_entry ldate acct ccur cb].
Definition transfer_entries (before : list txn) (acct : account) (tdate : Z) : list txn :=
  entries_from_balances (filter (fun ai => is_income_statement (fst ai)) (balance_by_account before))
                        tdate acct false FLAG_TRANSFER.
Definition open_summary (o : opts) (d : Z) (before : list txn) : list txn :=
  let x1 := conv_entries before (o_conv_prev o) (o_conv_currency o) (d - 1) in
  let t := transfer_entries (before ++ x1) (o_earn_prev o) (d - 1) in
  entries_from_balances (balance_by_account (before ++ x1 ++ t)) (d - 1) (o_opening o) true FLAG_SUMMARIZE.

Lemma conversions_some l acct ccur d :
  conversions l acct ccur (Some d)
  = take_before d l ++ conv_entries (take_before d l) acct ccur (d - 1) ++ drop_before d l.
Proof.
  unfold conversions, conv_entries; simpl.
  destruct (inv_is_empty _); simpl; [symmetry; apply take_drop | reflexivity].
Qed.
Lemma conversions_none l acct ccur :
  conversions l acct ccur None = l ++ conv_entries l acct ccur (last_date l).
Proof.
  unfold conversions, conv_entries; simpl.
  destruct (inv_is_empty _); simpl; rewrite ?app_nil_r; reflexivity.
Qed.
Lemma transfer_some l acct d :
  transfer_balances l (Some d) is_income_statement acct
  = take_before d l ++ transfer_entries (take_before d l) acct (d - 1) ++ drop_before d l.
Proof. destruct l; [reflexivity|]. reflexivity. Qed.
Lemma transfer_none l acct :
  transfer_balances l None is_income_statement acct = l ++ transfer_entries l acct (last_date l).
Proof. destruct l; [reflexivity|]. unfold transfer_balances, split_at. rewrite app_nil_r. reflexivity. Qed.

Lemma conv_entries_shape before acct ccur ldate :
  Forall (fun t => t_flag t = FLAG_CONVERSIONS /\ t_date t = ldate) (conv_entries before acct ccur ldate).
Proof. unfold conv_entries. destruct (inv_is_empty _); repeat constructor. Qed.
Lemma transfer_entries_shape before acct tdate :
  Forall (fun t => t_flag t = FLAG_TRANSFER /\ t_date t = tdate) (transfer_entries before acct tdate).
Proof. apply entries_from_balances_shape. Qed.

Lemma shape_lt flag d l : Forall (fun t => t_flag t = flag /\ t_date t = d - 1) l ->
  Forall (fun t => t_date t < d) l.
Proof. apply Forall_impl. intros t [_ H]; lia. Qed.

Theorem open_c_eq o d l :
  open_c o d l = open_summary o d (take_before d l) ++ drop_before d l.
Proof.
  unfold open_c, summarize, open_summary. simpl split_at.
  rewrite conversions_some.
  set (B := take_before d l). set (A := drop_before d l).
  set (X1 := conv_entries B (o_conv_prev o) (o_conv_currency o) (d - 1)).
  assert (HX1 : Forall (fun t => t_date t < d) X1) by (eapply shape_lt; apply conv_entries_shape).
  destruct (split_mid d l X1 HX1) as [Ht Hd]. fold B A in Ht, Hd.
  rewrite transfer_some, Ht, Hd.
  set (T := transfer_entries (B ++ X1) (o_earn_prev o) (d - 1)).
  assert (HT : Forall (fun t => t_date t < d) (X1 ++ T)).
  { apply Forall_app; split; [exact HX1|]. eapply shape_lt; apply transfer_entries_shape. }
  destruct (split_mid d l (X1 ++ T) HT) as [Ht2 Hd2]. fold B A in Ht2, Hd2.
  rewrite <- !app_assoc in *. rewrite Ht2, Hd2. reflexivity.
Qed.

Theorem close_c_some o e l :
  close_c o (Some e) l
  = take_before e l ++ conv_entries (take_before e l) (o_conv_cur o) (o_conv_currency o) (e - 1).
Proof.
  unfold close_c, truncate. rewrite conversions_some, take_of_take, drop_of_take, app_nil_r. reflexivity.
Qed.
Theorem close_c_none o l :
  close_c o None l = l ++ conv_entries l (o_conv_cur o) (o_conv_currency o) (last_date l).
Proof. unfold close_c. apply conversions_none. Qed.
Theorem clear_c_eq o l :
  clear_c o l = l ++ transfer_entries l (o_earn_cur o) (last_date l).
Proof. apply transfer_none. Qed.

(* ------------------------------------------------------------------ *)
(* what the inserted entries sum to, for a linear measure [g] *)

Section Measures.
Variable g : account -> key -> Z.
Notation M := (lsum (measure g)).

Lemma conv_entries_sum before acct ccur ldate :
  M (conv_entries before acct ccur ldate)
  = - lsum (fun p => g acct (key_cost_cur (p_key p), None) * key_cost_mult (p_key p) * p_units p) before.
Proof.
  unfold conv_entries.
  assert (forall cb, psum (measure g) (map (fun kn : key * Z => mkP acct (- snd kn) (fst (fst kn)) None (Some (0, ccur))) cb)
                     = - inv_wsum (fun k => g acct (fst k, None)) cb) as Hc.
  { induction cb as [|[k n] r IH]; simpl; [reflexivity|]. rewrite IH. unfold measure, p_key, inv_wsum; simpl.
    fold (inv_wsum (fun k => g acct (fst k, None)) r). unfold inv_wsum. ring. }
  assert (inv_wsum (fun k => g acct (fst k, None)) (inv_reduce_cost (entries_balance before))
          = lsum (fun p => g acct (key_cost_cur (p_key p), None) * key_cost_mult (p_key p) * p_units p) before) as Hs.
  { rewrite inv_reduce_cost_sum, entries_balance_sum. reflexivity. }
  destruct (inv_reduce_cost (entries_balance before)) as [|kn r] eqn:E.
  - simpl. rewrite <- Hs. reflexivity.
  - simpl inv_is_empty. cbv iota. rewrite lsum_cons, lsum_nil. unfold conversion_entry; simpl t_posts.
    rewrite Hc, Hs. lia.
Qed.

Lemma transfer_entries_sum before acct tdate :
  M (transfer_entries before acct tdate)
  = - (lsum (measure (fun a k => if is_income_statement a then g a k else 0)) before
       - lsum (measure (fun a k => if is_income_statement a then g_src g acct a k else 0)) before).
Proof.
  unfold transfer_entries. rewrite entries_from_balances_sum, !bal_wsum_filter, !balance_by_account_sum.
  unfold sgn. ring.
Qed.

Lemma summary_sum before opening date :
  M (entries_from_balances (balance_by_account before) date opening true FLAG_SUMMARIZE)
  = M before - lsum (measure (g_src g opening)) before.
Proof. rewrite entries_from_balances_sum, !balance_by_account_sum. unfold sgn. ring. Qed.

Lemma measure_zero_coeff (h : account -> key -> Z) l : (forall a k, h a k = 0) -> lsum (measure h) l = 0.
Proof. intro H. apply lsum_zero. intros. unfold measure. rewrite H. lia. Qed.

(* (i) measures that ignore the income-statement accounts and the account [acct]
       receiving the counter-postings *)
Hypothesis opts_not_is : True.

Lemma conv_entries_sum_0 before acct ccur ldate :
  (forall k, g acct k = 0) -> M (conv_entries before acct ccur ldate) = 0.
Proof.
  intro H. rewrite conv_entries_sum. rewrite lsum_zero; [reflexivity|]. intros. rewrite H. lia.
Qed.

Lemma transfer_entries_sum_i before acct tdate :
  (forall k, g acct k = 0) -> (forall a k, is_income_statement a = true -> g a k = 0) ->
  M (transfer_entries before acct tdate) = 0.
Proof.
  intros Ha His. rewrite transfer_entries_sum. rewrite !measure_zero_coeff; [reflexivity| |].
  - intros a k. destruct (is_income_statement a); [|reflexivity]. unfold g_src. rewrite Ha. lia.
  - intros a k. destruct (is_income_statement a) eqn:E; [|reflexivity]. auto.
Qed.

(* (ii) measures that see only income-statement accounts *)
Lemma transfer_entries_sum_ii before acct tdate :
  (forall a k, is_income_statement a = false -> g a k = 0) -> is_income_statement acct = false ->
  M (transfer_entries before acct tdate) = - M before.
Proof.
  intros Hn Ha. rewrite transfer_entries_sum.
  rewrite (measure_zero_coeff (fun a k => if is_income_statement a then g_src g acct a k else 0)).
  - rewrite (lsum_ext _ (measure g)); [lia|]. intro p. unfold measure.
    destruct (is_income_statement (p_acct p)) eqn:E; [reflexivity|]. rewrite Hn by exact E. reflexivity.
  - intros a k. destruct (is_income_statement a); [|reflexivity]. unfold g_src. rewrite Hn by exact Ha. lia.
Qed.

End Measures.
