(* C13: proofs about Model/Summarize.v.  Everything is stated for ALL ledgers,
   dates, options and linear posting measures. *)
From Coq Require Import ZArith List Bool Lia Permutation Sorted.
Import ListNotations.
From Verif Require Import Base.StableSort Model.Summarize.
Open Scope Z_scope.

(* ------------------------------------------------------------------ *)
(* decidable equalities *)

Lemma root_eqb_eq a b : root_eqb a b = true <-> a = b.
Proof. destruct a, b; unfold root_eqb; simpl; split; intro H; try reflexivity; try discriminate. Qed.

Lemma acct_eqb_eq a b : acct_eqb a b = true <-> a = b.
Proof.
  destruct a as [r i], b as [r' i']; unfold acct_eqb; simpl.
  rewrite andb_true_iff, root_eqb_eq, Z.eqb_eq. split; [intros [-> ->]; reflexivity | intro H; inversion H; auto].
Qed.

Lemma cost_eqb_eq a b : cost_eqb a b = true <-> a = b.
Proof.
  destruct a, b; unfold cost_eqb; simpl.
  rewrite !andb_true_iff, !Z.eqb_eq. split.
  - intros [[[-> ->] ->] ->]; reflexivity.
  - intro H; inversion H; auto.
Qed.

Lemma key_eqb_eq a b : key_eqb a b = true <-> a = b.
Proof.
  destruct a as [c o], b as [c' o']; unfold key_eqb; simpl.
  rewrite andb_true_iff, Z.eqb_eq. destruct o, o'; split.
  - intros [-> H]. apply cost_eqb_eq in H. subst; reflexivity.
  - intro H; inversion H; split; [reflexivity | apply cost_eqb_eq; reflexivity].
  - intros [_ H]; discriminate.
  - intro H; discriminate.
  - intros [_ H]; discriminate.
  - intro H; discriminate.
  - intros [-> _]; reflexivity.
  - intro H; inversion H; auto.
Qed.

Lemma acct_eqb_refl a : acct_eqb a a = true. Proof. apply acct_eqb_eq; reflexivity. Qed.
Lemma key_eqb_refl a : key_eqb a a = true. Proof. apply key_eqb_eq; reflexivity. Qed.

(* ------------------------------------------------------------------ *)
(* sums *)

Lemma psum_app f a b : psum f (a ++ b) = psum f a + psum f b.
Proof. induction a; simpl; lia. Qed.
Lemma lsum_app f a b : lsum f (a ++ b) = lsum f a + lsum f b.
Proof. induction a; simpl; lia. Qed.
Lemma lsum_cons f t l : lsum f (t :: l) = psum f (t_posts t) + lsum f l.
Proof. reflexivity. Qed.
Lemma lsum_nil f : lsum f [] = 0. Proof. reflexivity. Qed.

Lemma psum_zero f ps : (forall p, In p ps -> f p = 0) -> psum f ps = 0.
Proof. induction ps; simpl; intros H; [reflexivity|]. rewrite (H a), IHps; auto. Qed.
Lemma lsum_zero f l : (forall t p, In t l -> In p (t_posts t) -> f p = 0) -> lsum f l = 0.
Proof.
  induction l; simpl; intros H; [reflexivity|].
  rewrite psum_zero, IHl; [reflexivity| |]; eauto.
Qed.
Lemma psum_ext f f' ps : (forall p, f p = f' p) -> psum f ps = psum f' ps.
Proof. intro H; induction ps; simpl; [reflexivity|]. rewrite H, IHps; reflexivity. Qed.
Lemma lsum_ext f f' l : (forall p, f p = f' p) -> lsum f l = lsum f' l.
Proof. intro H; induction l; simpl; [reflexivity|]. rewrite (psum_ext f f'), IHl; auto. Qed.

Definition fsum {A} (h : A -> Z) (l : list A) : Z := fold_right (fun x s => h x + s) 0 l.
Lemma fsum_cons {A} (h : A -> Z) x l : fsum h (x :: l) = h x + fsum h l.
Proof. reflexivity. Qed.
Lemma fsum_perm {A} (h : A -> Z) l l' : Permutation l l' -> fsum h l = fsum h l'.
Proof. induction 1; simpl; lia. Qed.
Lemma fsum_ext {A} (h h' : A -> Z) l : (forall x, h x = h' x) -> fsum h l = fsum h' l.
Proof. intro H; induction l; simpl; [reflexivity|]. rewrite H, IHl; reflexivity. Qed.
Lemma lsum_flat_map {A} f (F : A -> list txn) l : lsum f (flat_map F l) = fsum (fun x => lsum f (F x)) l.
Proof. induction l; simpl; [reflexivity|]. rewrite lsum_app, IHl; reflexivity. Qed.
Lemma psum_flat_map {A} f (F : A -> list posting) l : psum f (flat_map F l) = fsum (fun x => psum f (F x)) l.
Proof. induction l; simpl; [reflexivity|]. rewrite psum_app, IHl; reflexivity. Qed.

(* ------------------------------------------------------------------ *)
(* inventories and balances as linear functionals *)

Definition inv_wsum (w : key -> Z) (i : inv) : Z := fsum (fun kn => w (fst kn) * snd kn) i.
Definition bal_wsum (g : account -> key -> Z) (b : bal) : Z := fsum (fun ai => inv_wsum (g (fst ai)) (snd ai)) b.

Lemma inv_wsum_add w i k n : inv_wsum w (inv_add i k n) = inv_wsum w i + w k * n.
Proof.
  induction i as [|[k' m] r IH]; simpl.
  - destruct (Z.eqb_spec n 0); simpl; [subst; lia | unfold inv_wsum; simpl; lia].
  - destruct (key_eqb k' k) eqn:E.
    + apply key_eqb_eq in E; subst k'.
      destruct (Z.eqb_spec (m + n) 0) as [H|H].
      * unfold inv_wsum; simpl. fold (inv_wsum w r).
        assert (n = - m) by lia. subst n. ring.
      * unfold inv_wsum; simpl. fold (inv_wsum w r). ring.
    + unfold inv_wsum in *; simpl. rewrite IH. ring.
Qed.

Lemma bal_wsum_add g b p :
  bal_wsum g (bal_add b (p_acct p) p) = bal_wsum g b + measure g p.
Proof.
  unfold measure. induction b as [|[a' i] r IH]; simpl.
  - unfold bal_wsum; simpl. unfold inv_add_posting. rewrite inv_wsum_add. unfold inv_wsum; simpl. ring.
  - destruct (acct_eqb a' (p_acct p)) eqn:E.
    + apply acct_eqb_eq in E; subst a'. unfold bal_wsum; simpl. unfold inv_add_posting.
      rewrite inv_wsum_add. ring.
    + unfold bal_wsum in *; simpl. rewrite IH. ring.
Qed.

Lemma balance_posts g ps : forall b,
  bal_wsum g (fold_left (fun b p => bal_add b (p_acct p) p) ps b) = bal_wsum g b + psum (measure g) ps.
Proof. induction ps; simpl; intro b; [lia|]. rewrite IHps, bal_wsum_add. lia. Qed.

Lemma balance_entries g l : forall b,
  bal_wsum g (fold_left (fun b t => fold_left (fun b p => bal_add b (p_acct p) p) (t_posts t) b) l b)
  = bal_wsum g b + lsum (measure g) l.
Proof. induction l; simpl; intro b; [lia|]. rewrite IHl, balance_posts. lia. Qed.

(* balance_by_account(before)[a] holds, for every lot, the sum of the postings *)
Lemma balance_by_account_sum g l : bal_wsum g (balance_by_account l) = lsum (measure g) l.
Proof. unfold balance_by_account. rewrite balance_entries. reflexivity. Qed.

Lemma entries_balance_posts w ps : forall i,
  inv_wsum w (fold_left inv_add_posting ps i) = inv_wsum w i + psum (fun p => w (p_key p) * p_units p) ps.
Proof.
  induction ps; simpl; intro i; [lia|]. rewrite IHps. unfold inv_add_posting. rewrite inv_wsum_add. lia.
Qed.
Lemma entries_balance_gen w l : forall i,
  inv_wsum w (fold_left (fun i t => fold_left inv_add_posting (t_posts t) i) l i)
  = inv_wsum w i + lsum (fun p => w (p_key p) * p_units p) l.
Proof. induction l; simpl; intro i; [lia|]. rewrite IHl, entries_balance_posts. lia. Qed.
Lemma entries_balance_sum w l : inv_wsum w (entries_balance l) = lsum (fun p => w (p_key p) * p_units p) l.
Proof. unfold entries_balance. rewrite entries_balance_gen. reflexivity. Qed.

Lemma inv_wsum_cons w k n r : inv_wsum w ((k, n) :: r) = w k * n + inv_wsum w r.
Proof. reflexivity. Qed.
Lemma inv_wsum_nil w : inv_wsum w [] = 0.
Proof. reflexivity. Qed.
Lemma inv_reduce_cost_gen w i : forall acc,
  inv_wsum w (fold_left (fun acc kn => inv_add acc (key_cost_cur (fst kn), None) (key_cost_mult (fst kn) * snd kn)) i acc)
  = inv_wsum w acc + inv_wsum (fun k => w (key_cost_cur k, None) * key_cost_mult k) i.
Proof.
  induction i as [|[k n] r IH]; intro acc.
  - simpl fold_left. rewrite inv_wsum_nil. lia.
  - simpl fold_left. rewrite IH, inv_wsum_add, inv_wsum_cons. simpl fst; simpl snd. ring.
Qed.
Lemma inv_reduce_cost_sum w i :
  inv_wsum w (inv_reduce_cost i) = inv_wsum (fun k => w (key_cost_cur k, None) * key_cost_mult k) i.
Proof. unfold inv_reduce_cost. rewrite inv_reduce_cost_gen. reflexivity. Qed.

Lemma inv_wsum_zero i : inv_wsum (fun _ => 0) i = 0.
Proof. induction i as [|[k n] r IH]; [reflexivity|]. rewrite inv_wsum_cons, IH. lia. Qed.
Lemma bal_wsum_filter g (pred : account -> bool) b :
  bal_wsum g (filter (fun ai => pred (fst ai)) b) = bal_wsum (fun a k => if pred a then g a k else 0) b.
Proof.
  induction b as [|[a i] r IH]; simpl; [reflexivity|].
  unfold bal_wsum in *; simpl. destruct (pred a); simpl.
  - rewrite IH. reflexivity.
  - rewrite IH. rewrite inv_wsum_zero. lia.
Qed.

(* ------------------------------------------------------------------ *)
(* create_entries_from_balances *)

Definition sgn (direction : bool) : Z := if direction then 1 else -1.
(* the coefficient of the counter-posting on the source account *)
Definition g_src (g : account -> key -> Z) (src : account) : account -> key -> Z :=
  fun _ k => g src (key_cost_cur k, None) * key_cost_mult k.

Lemma pos_postings_sum g a src dir kn :
  psum (measure g) (pos_postings a src dir kn)
  = sgn dir * (g a (fst kn) * snd kn - g_src g src a (fst kn) * snd kn).
Proof.
  destruct kn as [[c o] n]. unfold pos_postings, measure, g_src, p_key, sgn; simpl.
  destruct dir; ring.
Qed.

Lemma entry_from_balance_sum g date src dir flag ai :
  lsum (measure g) (entry_from_balance date src dir flag ai)
  = sgn dir * (inv_wsum (g (fst ai)) (snd ai) - inv_wsum (g_src g src (fst ai)) (snd ai)).
Proof.
  destruct ai as [a i]. unfold entry_from_balance. cbn [fst snd].
  assert (forall l, fsum (fun kn : key * Z => sgn dir * (g a (fst kn) * snd kn - g_src g src a (fst kn) * snd kn)) l
                    = sgn dir * (inv_wsum (g a) l - inv_wsum (g_src g src a) l)) as H.
  { unfold inv_wsum. induction l as [|x l IHl]; [simpl; lia|]. rewrite !fsum_cons, IHl. ring. }
  destruct (inv_is_empty i) eqn:E.
  - destruct i; [|discriminate]. rewrite lsum_nil, !inv_wsum_nil. lia.
  - rewrite lsum_cons, lsum_nil. cbn [t_posts]. rewrite psum_flat_map.
    rewrite (fsum_ext _ (fun kn => sgn dir * (g a (fst kn) * snd kn - g_src g src a (fst kn) * snd kn)))
      by (intro; apply pos_postings_sum).
    rewrite H. lia.
Qed.

Lemma entries_from_balances_sum g b date src dir flag :
  lsum (measure g) (entries_from_balances b date src dir flag)
  = sgn dir * (bal_wsum g b - bal_wsum (g_src g src) b).
Proof.
  unfold entries_from_balances. rewrite lsum_flat_map.
  rewrite <- (fsum_perm _ b (sort_bal b)) by apply isort_perm.
  rewrite (fsum_ext _ _ b (entry_from_balance_sum g date src dir flag)).
  unfold bal_wsum. induction b; simpl; [lia|]. rewrite IHb. ring.
Qed.

Lemma Forall_flat_map {A B} (P : B -> Prop) (F : A -> list B) l :
  (forall x, In x l -> Forall P (F x)) -> Forall P (flat_map F l).
Proof. induction l; simpl; intro H; [constructor|]. apply Forall_app; split; auto. Qed.

Lemma entries_from_balances_shape b date src dir flag :
  Forall (fun t => t_flag t = flag /\ t_date t = date) (entries_from_balances b date src dir flag).
Proof.
  apply Forall_flat_map. intros [a i] _. unfold entry_from_balance.
  destruct (inv_is_empty (snd (a, i))); repeat constructor.
Qed.

(* every generated entry balances (weights) *)
Lemma pos_postings_wsum c a src dir kn : wsum c (pos_postings a src dir kn) = 0.
Proof.
  destruct kn as [[cu o] n]. unfold wsum, pos_postings, weight, key_cost_mult, key_cost_cur.
  destruct o as [co|]; destruct dir; cbn [psum fold_right p_cost p_price p_units p_cur fst snd];
    destruct (_ =? c); lia.
Qed.
Lemma wsum_cons c p ps :
  wsum c (p :: ps) = (if snd (weight p) =? c then fst (weight p) else 0) + wsum c ps.
Proof. reflexivity. Qed.
Lemma wsum_app c a b : wsum c (a ++ b) = wsum c a + wsum c b.
Proof. unfold wsum. apply psum_app. Qed.
Lemma entries_from_balances_balanced b date src dir flag :
  Forall balanced (entries_from_balances b date src dir flag).
Proof.
  apply Forall_flat_map. intros [a i] _. unfold entry_from_balance.
  destruct (inv_is_empty (snd (a, i))); repeat constructor.
  intro c. cbn [t_posts fst snd]. induction i as [|kn r IH]; [reflexivity|].
  cbn [flat_map]. rewrite wsum_app, pos_postings_wsum, IH. reflexivity.
Qed.

(* ------------------------------------------------------------------ *)
(* splitting at a date *)

Lemma take_drop d l : take_before d l ++ drop_before d l = l.
Proof. induction l; simpl; [reflexivity|]. destruct (_ <? d); simpl; congruence. Qed.
Lemma take_before_lt d l : Forall (fun t => t_date t < d) (take_before d l).
Proof. induction l; simpl; [constructor|]. destruct (Z.ltb_spec (t_date a) d); constructor; auto. Qed.
Lemma take_app d a b : Forall (fun t => t_date t < d) a ->
  take_before d (a ++ b) = a ++ take_before d b.
Proof.
  induction 1; simpl; [reflexivity|]. destruct (Z.ltb_spec (t_date x) d); [|lia]. rewrite IHForall. reflexivity.
Qed.
Lemma drop_app d a b : Forall (fun t => t_date t < d) a ->
  drop_before d (a ++ b) = drop_before d b.
Proof. induction 1; simpl; [reflexivity|]. destruct (Z.ltb_spec (t_date x) d); [|lia]. exact IHForall. Qed.
Lemma take_of_drop d l : take_before d (drop_before d l) = [].
Proof. induction l; simpl; [reflexivity|]. destruct (_ <? d) eqn:E; [exact IHl|]. simpl. rewrite E. reflexivity. Qed.
Lemma drop_of_drop d l : drop_before d (drop_before d l) = drop_before d l.
Proof. induction l; simpl; [reflexivity|]. destruct (_ <? d) eqn:E; [exact IHl|]. simpl. rewrite E. reflexivity. Qed.
Lemma take_of_take d l : take_before d (take_before d l) = take_before d l.
Proof. induction l; simpl; [reflexivity|]. destruct (_ <? d) eqn:E; [|reflexivity]. simpl. rewrite E, IHl. reflexivity. Qed.
Lemma drop_of_take d l : drop_before d (take_before d l) = [].
Proof. induction l; simpl; [reflexivity|]. destruct (_ <? d) eqn:E; [|reflexivity]. simpl. rewrite E. exact IHl. Qed.
Lemma take_take_le d e l : d <= e -> take_before e (take_before d l ++ drop_before d l)
  = take_before d l ++ take_before e (drop_before d l).
Proof.
  intro H. apply take_app. eapply Forall_impl; [|apply take_before_lt]. simpl; intros; lia.
Qed.

(* the split of  before ++ X ++ after  when X is dated before d and (before, after) is itself a split at d *)
Lemma split_mid d l X : Forall (fun t => t_date t < d) X ->
  take_before d (take_before d l ++ X ++ drop_before d l) = take_before d l ++ X /\
  drop_before d (take_before d l ++ X ++ drop_before d l) = drop_before d l.
Proof.
  intro HX. assert (Forall (fun t => t_date t < d) (take_before d l ++ X)) as H
    by (apply Forall_app; split; [apply take_before_lt | exact HX]).
  rewrite !app_assoc. split.
  - rewrite take_app by exact H. rewrite take_of_drop, app_nil_r. reflexivity.
  - rewrite drop_app by exact H. apply drop_of_drop.
Qed.

(* ------------------------------------------------------------------ *)
(* the three operations in "inserted entries" form *)

Definition conv_entries (before : list txn) (acct : account) (ccur ldate : Z) : list txn :=
  let cb := inv_reduce_cost (entries_balance before) in
  if inv_is_empty cb then [] else [conversion_entry ldate acct ccur cb].
Definition transfer_entries (before : list txn) (acct : account) (tdate : Z) : list txn :=
  entries_from_balances (filter (fun ai => is_income_statement (fst ai)) (balance_by_account before))
                        tdate acct false FLAG_TRANSFER.
Definition open_summary (o : opts) (d : Z) (before : list txn) : list txn :=
  let x1 := conv_entries before (o_conv_prev o) (o_conv_currency o) (d - 1) in
  let t := transfer_entries (before ++ x1) (o_earn_prev o) (d - 1) in
  entries_from_balances (balance_by_account (before ++ x1 ++ t)) (d - 1) (o_opening o) true FLAG_SUMMARIZE.

Lemma conversions_some l acct ccur d :
  conversions l acct ccur (Some d)
  = take_before d l ++ conv_entries (take_before d l) acct ccur (d - 1) ++ drop_before d l.
Proof.
  unfold conversions, conv_entries; simpl.
  destruct (inv_is_empty _); simpl; [symmetry; apply take_drop | reflexivity].
Qed.
Lemma conversions_none l acct ccur :
  conversions l acct ccur None = l ++ conv_entries l acct ccur (last_date l).
Proof.
  unfold conversions, conv_entries; simpl.
  destruct (inv_is_empty _); simpl; rewrite ?app_nil_r; reflexivity.
Qed.
Lemma transfer_some l acct d :
  transfer_balances l (Some d) is_income_statement acct
  = take_before d l ++ transfer_entries (take_before d l) acct (d - 1) ++ drop_before d l.
Proof. destruct l; [reflexivity|]. reflexivity. Qed.
Lemma transfer_none l acct :
  transfer_balances l None is_income_statement acct = l ++ transfer_entries l acct (last_date l).
Proof. destruct l; [reflexivity|]. unfold transfer_balances, split_at. rewrite app_nil_r. reflexivity. Qed.

Lemma conv_entries_shape before acct ccur ldate :
  Forall (fun t => t_flag t = FLAG_CONVERSIONS /\ t_date t = ldate) (conv_entries before acct ccur ldate).
Proof. unfold conv_entries. destruct (inv_is_empty _); repeat constructor. Qed.
Lemma transfer_entries_shape before acct tdate :
  Forall (fun t => t_flag t = FLAG_TRANSFER /\ t_date t = tdate) (transfer_entries before acct tdate).
Proof. apply entries_from_balances_shape. Qed.

Lemma shape_lt flag d l : Forall (fun t => t_flag t = flag /\ t_date t = d - 1) l ->
  Forall (fun t => t_date t < d) l.
Proof. apply Forall_impl. intros t [_ H]; lia. Qed.

Theorem open_c_eq o d l :
  open_c o d l = open_summary o d (take_before d l) ++ drop_before d l.
Proof.
  unfold open_c, summarize, open_summary. simpl split_at.
  rewrite conversions_some.
  set (B := take_before d l). set (A := drop_before d l).
  set (X1 := conv_entries B (o_conv_prev o) (o_conv_currency o) (d - 1)).
  assert (HX1 : Forall (fun t => t_date t < d) X1) by (eapply shape_lt; apply conv_entries_shape).
  destruct (split_mid d l X1 HX1) as [Ht Hd]. fold B A in Ht, Hd.
  rewrite transfer_some, Ht, Hd.
  set (T := transfer_entries (B ++ X1) (o_earn_prev o) (d - 1)).
  assert (HT : Forall (fun t => t_date t < d) (X1 ++ T)).
  { apply Forall_app; split; [exact HX1|]. eapply shape_lt; apply transfer_entries_shape. }
  destruct (split_mid d l (X1 ++ T) HT) as [Ht2 Hd2]. fold B A in Ht2, Hd2.
  rewrite <- !app_assoc in *. rewrite Ht2, Hd2. reflexivity.
Qed.

Theorem close_c_some o e l :
  close_c o (Some e) l
  = take_before e l ++ conv_entries (take_before e l) (o_conv_cur o) (o_conv_currency o) (e - 1).
Proof.
  unfold close_c, truncate. rewrite conversions_some, take_of_take, drop_of_take, app_nil_r. reflexivity.
Qed.
Theorem close_c_none o l :
  close_c o None l = l ++ conv_entries l (o_conv_cur o) (o_conv_currency o) (last_date l).
Proof. unfold close_c. apply conversions_none. Qed.
Theorem clear_c_eq o l :
  clear_c o l = l ++ transfer_entries l (o_earn_cur o) (last_date l).
Proof. apply transfer_none. Qed.

(* ------------------------------------------------------------------ *)
(* what the inserted entries sum to, for a linear measure [g] *)

Section Measures.
Variable g : account -> key -> Z.
Notation M := (lsum (measure g)).

Lemma conv_entries_sum before acct ccur ldate :
  M (conv_entries before acct ccur ldate)
  = - lsum (fun p => g acct (key_cost_cur (p_key p), None) * key_cost_mult (p_key p) * p_units p) before.
Proof.
  unfold conv_entries.
  assert (forall cb, psum (measure g) (map (fun kn : key * Z => mkP acct (- snd kn) (fst (fst kn)) None (Some (0, ccur))) cb)
                     = - inv_wsum (fun k => g acct (fst k, None)) cb) as Hc.
  { induction cb as [|[k n] r IH]; simpl; [reflexivity|]. rewrite IH. unfold measure, p_key, inv_wsum; simpl.
    fold (inv_wsum (fun k => g acct (fst k, None)) r). unfold inv_wsum. ring. }
  assert (inv_wsum (fun k => g acct (fst k, None)) (inv_reduce_cost (entries_balance before))
          = lsum (fun p => g acct (key_cost_cur (p_key p), None) * key_cost_mult (p_key p) * p_units p) before) as Hs.
  { rewrite inv_reduce_cost_sum, entries_balance_sum. reflexivity. }
  cbv zeta. remember (inv_reduce_cost (entries_balance before)) as cb.
  destruct (inv_is_empty cb) eqn:E.
  - destruct cb; [|discriminate]. rewrite <- Hs, lsum_nil, inv_wsum_nil. reflexivity.
  - rewrite lsum_cons, lsum_nil. unfold conversion_entry; cbn [t_posts].
    rewrite Hc, Hs. lia.
Qed.

Lemma transfer_entries_sum before acct tdate :
  M (transfer_entries before acct tdate)
  = - (lsum (measure (fun a k => if is_income_statement a then g a k else 0)) before
       - lsum (measure (fun a k => if is_income_statement a then g_src g acct a k else 0)) before).
Proof.
  unfold transfer_entries. rewrite entries_from_balances_sum, !bal_wsum_filter, !balance_by_account_sum.
  unfold sgn. ring.
Qed.

Lemma summary_sum before opening date :
  M (entries_from_balances (balance_by_account before) date opening true FLAG_SUMMARIZE)
  = M before - lsum (measure (g_src g opening)) before.
Proof. rewrite entries_from_balances_sum, !balance_by_account_sum. unfold sgn. ring. Qed.

Lemma measure_zero_coeff (h : account -> key -> Z) l : (forall a k, h a k = 0) -> lsum (measure h) l = 0.
Proof. intro H. apply lsum_zero. intros. unfold measure. rewrite H. lia. Qed.

(* (i) measures that ignore the income-statement accounts and the account [acct]
       receiving the counter-postings *)

Lemma conv_entries_sum_0 before acct ccur ldate :
  (forall k, g acct k = 0) -> M (conv_entries before acct ccur ldate) = 0.
Proof.
  intro H. rewrite conv_entries_sum. rewrite lsum_zero; [reflexivity|]. intros. rewrite H. lia.
Qed.

Lemma transfer_entries_sum_i before acct tdate :
  (forall k, g acct k = 0) -> (forall a k, is_income_statement a = true -> g a k = 0) ->
  M (transfer_entries before acct tdate) = 0.
Proof.
  intros Ha His. rewrite transfer_entries_sum. rewrite !measure_zero_coeff; [reflexivity| |].
  - intros a k. destruct (is_income_statement a); [|reflexivity]. unfold g_src. rewrite Ha. lia.
  - intros a k. destruct (is_income_statement a) eqn:E; [|reflexivity]. auto.
Qed.

(* (ii) measures that see only income-statement accounts *)
Lemma transfer_entries_sum_ii before acct tdate :
  (forall a k, is_income_statement a = false -> g a k = 0) -> is_income_statement acct = false ->
  M (transfer_entries before acct tdate) = - M before.
Proof.
  intros Hn Ha. rewrite transfer_entries_sum.
  rewrite (measure_zero_coeff (fun a k => if is_income_statement a then g_src g acct a k else 0)).
  - rewrite (lsum_ext _ (measure g)); [lia|]. intro p. unfold measure.
    destruct (is_income_statement (p_acct p)) eqn:E; [reflexivity|]. rewrite Hn by exact E. reflexivity.
  - intros a k. destruct (is_income_statement a); [|reflexivity]. unfold g_src. rewrite Hn by exact Ha. lia.
Qed.

End Measures.

(* (iii) the value at cost of ALL accounts in one currency *)
Definition all_accounts : account -> bool := fun _ => true.

Lemma bal_wsum_ext g g' b : (forall a k, g a k = g' a k) -> bal_wsum g b = bal_wsum g' b.
Proof.
  intro H. unfold bal_wsum. apply fsum_ext. intros [a i]. unfold inv_wsum. apply fsum_ext.
  intros [k n]. simpl. rewrite H. reflexivity.
Qed.

Lemma g_cost_all_src c src a k : g_src (g_cost all_accounts c) src a k = g_cost all_accounts c a k.
Proof.
  unfold g_src, g_cost, all_accounts, key_cost_cur, key_cost_mult. simpl.
  destruct (_ =? c); lia.
Qed.

Lemma entries_from_balances_cost_zero c b date src dir flag :
  cost_total all_accounts c (entries_from_balances b date src dir flag) = 0.
Proof.
  unfold cost_total. rewrite entries_from_balances_sum.
  rewrite (bal_wsum_ext (g_src _ src) (g_cost all_accounts c)) by (intros; apply g_cost_all_src). lia.
Qed.

Lemma conv_entries_cost c before acct ccur ldate :
  cost_total all_accounts c (conv_entries before acct ccur ldate) = - cost_total all_accounts c before.
Proof.
  unfold cost_total. rewrite conv_entries_sum. f_equal. apply lsum_ext. intro p.
  unfold measure, g_cost, all_accounts, key_cost_cur at 1, key_cost_mult at 1. simpl.
  destruct (_ =? c); lia.
Qed.

(* ------------------------------------------------------------------ *)
(* sorted ledgers: the scans are filters *)

Definition date_le (a b : txn) : bool := t_date a <=? t_date b.
Definition sorted_dates (l : list txn) : Prop := sorted date_le l.

Lemma filter_none {A} (f : A -> bool) l : Forall (fun x => f x = false) l -> filter f l = [].
Proof. induction 1; simpl; [reflexivity|]. rewrite H. exact IHForall. Qed.
Lemma filter_all {A} (f : A -> bool) l : Forall (fun x => f x = true) l -> filter f l = l.
Proof. induction 1; simpl; [reflexivity|]. rewrite H, IHForall. reflexivity. Qed.
Lemma filter_ext' {A} (f f' : A -> bool) l : (forall x, f x = f' x) -> filter f l = filter f' l.
Proof. intro H. induction l; simpl; [reflexivity|]. rewrite H, IHl. reflexivity. Qed.

Lemma take_before_filter d l : sorted_dates l -> take_before d l = filter (fun t => t_date t <? d) l.
Proof.
  induction 1 as [|a r Hs IH Ha]; simpl; [reflexivity|].
  destruct (Z.ltb_spec (t_date a) d); [rewrite IH; reflexivity|].
  symmetry. apply filter_none. eapply Forall_impl; [|exact Ha]. unfold date_le. simpl. intros x Hx.
  apply Z.leb_le in Hx. apply Z.ltb_ge. lia.
Qed.
Lemma drop_before_filter d l : sorted_dates l -> drop_before d l = filter (fun t => d <=? t_date t) l.
Proof.
  induction 1 as [|a r Hs IH Ha]; simpl; [reflexivity|].
  destruct (Z.ltb_spec (t_date a) d) as [H|H].
  - destruct (Z.leb_spec d (t_date a)); [lia|]. exact IH.
  - destruct (Z.leb_spec d (t_date a)); [|lia]. f_equal. symmetry. apply filter_all.
    eapply Forall_impl; [|exact Ha]. unfold date_le. simpl. intros x Hx.
    apply Z.leb_le in Hx. apply Z.leb_le. lia.
Qed.
Lemma sorted_dates_filter f l : sorted_dates l -> sorted_dates (filter f l).
Proof. apply sorted_filter. Qed.

(* ------------------------------------------------------------------ *)
(* the prepared ledger, all clause subsets *)

Definition take_hi (hi : option Z) (l : list txn) := match hi with Some e => take_before e l | None => l end.
Definition drop_lo (lo : option Z) (l : list txn) := match lo with Some d => drop_before d l | None => l end.
Definition take_lo (lo : option Z) (l : list txn) := match lo with Some d => take_before d l | None => [] end.

Section Prepared.
Variable o : opts.
(* the five accounts of the options are not Income / Expenses accounts
   (they are Equity accounts; see opts_equity) *)
Hypothesis H_earn_prev : is_income_statement (o_earn_prev o) = false.
Hypothesis H_opening : is_income_statement (o_opening o) = false.
Hypothesis H_conv_prev : is_income_statement (o_conv_prev o) = false.
Hypothesis H_earn_cur : is_income_statement (o_earn_cur o) = false.
Hypothesis H_conv_cur : is_income_statement (o_conv_cur o) = false.

Definition part_open (op : option Z) (l : list txn) : list txn :=
  match op with Some d => open_summary o d (take_before d l) | None => [] end.
Definition part_window (op : option Z) (cl : option close_spec) (l : list txn) : list txn :=
  take_hi (close_date cl) (drop_lo op l).
Definition part_close (op : option Z) (cl : option close_spec) (l : list txn) : list txn :=
  let x := part_open op l ++ part_window op cl l in
  match cl with
  | Some (CloseOn e) => conv_entries x (o_conv_cur o) (o_conv_currency o) (e - 1)
  | Some CloseAll => conv_entries x (o_conv_cur o) (o_conv_currency o) (last_date x)
  | None => []
  end.
Definition part_clear (op : option Z) (cl : option close_spec) (clr : bool) (l : list txn) : list txn :=
  let x := part_open op l ++ part_window op cl l ++ part_close op cl l in
  if clr then transfer_entries x (o_earn_cur o) (last_date x) else [].

Lemma open_summary_shape d before :
  Forall (fun t => t_flag t = FLAG_SUMMARIZE /\ t_date t = d - 1) (open_summary o d before).
Proof. apply entries_from_balances_shape. Qed.

Theorem prepare_decomp op cl clr l : check_dates op cl = FromOk ->
  prepare_c o op cl clr l
  = part_open op l ++ part_window op cl l ++ part_close op cl l ++ part_clear op cl clr l.
Proof.
  intro Hc. unfold prepare_c, prepare, part_clear, part_close, part_window, part_open.
  assert (Hstage2 :
    stage_close (list txn) (close_c o) cl (stage_open (list txn) (open_c o) op l)
    = part_open op l ++ part_window op cl l ++ part_close op cl l).
  { unfold part_close, part_window, part_open.
    destruct op as [d|], cl as [[e|]|]; simpl.
    - simpl in Hc. destruct (Z.ltb_spec e d); [discriminate|].
      rewrite close_c_some, open_c_eq.
      rewrite take_app; [rewrite <- app_assoc; reflexivity|].
      eapply Forall_impl; [|apply open_summary_shape]. intros t [_ Ht]. simpl in Ht. lia.
    - rewrite close_c_none, open_c_eq, <- app_assoc. reflexivity.
    - rewrite open_c_eq, app_nil_r. reflexivity.
    - rewrite close_c_some. reflexivity.
    - rewrite close_c_none. reflexivity.
    - rewrite app_nil_r. reflexivity. }
  unfold part_close, part_window, part_open in Hstage2.
  destruct clr; simpl stage_clear.
  - rewrite clear_c_eq, Hstage2. rewrite <- !app_assoc. reflexivity.
  - rewrite Hstage2, !app_nil_r. reflexivity.
Qed.

(* the window taken from the original ledger joins the entries before OPEN into the
   entries before CLOSE *)
Lemma lo_window_hi op cl l : check_dates op cl = FromOk ->
  take_lo op l ++ part_window op cl l = take_hi (close_date cl) l.
Proof.
  intro Hc. unfold part_window. destruct op as [d|], cl as [[e|]|]; simpl; try apply take_drop; try reflexivity.
  simpl in Hc. destruct (Z.ltb_spec e d); [discriminate|].
  rewrite <- (take_drop d l) at 3. symmetry. apply take_take_le. lia.
Qed.

Section M.
Variable g : account -> key -> Z.
Notation M := (lsum (measure g)).

Lemma g_src_zero src l : (forall k, g src k = 0) -> lsum (measure (g_src g src)) l = 0.
Proof. intro H. apply measure_zero_coeff. intros. unfold g_src. rewrite H. lia. Qed.

(* (i) *)
Lemma open_summary_sum_i d before :
  (forall k, g (o_earn_prev o) k = 0) -> (forall k, g (o_opening o) k = 0) -> (forall k, g (o_conv_prev o) k = 0) ->
  (forall a k, is_income_statement a = true -> g a k = 0) ->
  M (open_summary o d before) = M before.
Proof.
  intros H1 H2 H3 His. unfold open_summary. cbv zeta.
  rewrite summary_sum, g_src_zero by exact H2.
  rewrite !lsum_app, conv_entries_sum_0 by exact H3.
  rewrite transfer_entries_sum_i by assumption. lia.
Qed.

(* (ii) *)
Lemma off_is_special a : (forall a k, is_income_statement a = false -> g a k = 0) ->
  is_income_statement a = false -> forall k, g a k = 0.
Proof. intros H Ha k. apply H. exact Ha. Qed.

Lemma open_summary_sum_ii d before :
  (forall a k, is_income_statement a = false -> g a k = 0) ->
  M (open_summary o d before) = 0.
Proof.
  intros Hn. unfold open_summary. cbv zeta.
  rewrite summary_sum, g_src_zero by (apply off_is_special; assumption).
  rewrite !lsum_app, conv_entries_sum_0 by (apply off_is_special; assumption).
  rewrite transfer_entries_sum_ii by assumption.
  rewrite lsum_app, conv_entries_sum_0 by (apply off_is_special; assumption). lia.
Qed.

Lemma part_close_sum_0 op cl l : (forall k, g (o_conv_cur o) k = 0) -> M (part_close op cl l) = 0.
Proof.
  intro H. unfold part_close. destruct cl as [[e|]|]; cbv zeta; try apply conv_entries_sum_0; auto.
Qed.

Lemma part_open_sum_i op l :
  (forall k, g (o_earn_prev o) k = 0) -> (forall k, g (o_opening o) k = 0) -> (forall k, g (o_conv_prev o) k = 0) ->
  (forall a k, is_income_statement a = true -> g a k = 0) ->
  M (part_open op l) = M (take_lo op l).
Proof. intros. destruct op; simpl; [apply open_summary_sum_i; assumption | reflexivity]. Qed.

Lemma part_open_sum_ii op l :
  (forall a k, is_income_statement a = false -> g a k = 0) -> M (part_open op l) = 0.
Proof. intros. destruct op; simpl; [apply open_summary_sum_ii; assumption | reflexivity]. Qed.

(* accounts other than Income/Expenses and the five option accounts: the total over
   the prepared ledger is the total of the original entries before the CLOSE date *)
Theorem prepared_sum_i op cl clr l : check_dates op cl = FromOk ->
  (forall k, g (o_earn_prev o) k = 0) -> (forall k, g (o_opening o) k = 0) -> (forall k, g (o_conv_prev o) k = 0) ->
  (forall k, g (o_earn_cur o) k = 0) -> (forall k, g (o_conv_cur o) k = 0) ->
  (forall a k, is_income_statement a = true -> g a k = 0) ->
  M (prepare_c o op cl clr l) = M (take_hi (close_date cl) l).
Proof.
  intros Hc H1 H2 H3 H4 H5 His. rewrite prepare_decomp by exact Hc.
  rewrite !lsum_app, part_open_sum_i, part_close_sum_0 by assumption.
  rewrite <- (lo_window_hi op cl l Hc), lsum_app.
  assert (M (part_clear op cl clr l) = 0) as ->; [|lia].
  unfold part_clear. destruct clr; cbv zeta; [|reflexivity].
  apply transfer_entries_sum_i; assumption.
Qed.

(* Income/Expenses: only the activity inside the window; nothing with CLEAR *)
Theorem prepared_sum_ii op cl clr l : check_dates op cl = FromOk ->
  (forall a k, is_income_statement a = false -> g a k = 0) ->
  M (prepare_c o op cl clr l) = if clr then 0 else M (part_window op cl l).
Proof.
  intros Hc Hn. rewrite prepare_decomp by exact Hc.
  rewrite !lsum_app, part_open_sum_ii, part_close_sum_0 by (try apply off_is_special; assumption).
  unfold part_clear. destruct clr; cbv zeta; [|rewrite lsum_nil; lia].
  rewrite transfer_entries_sum_ii by assumption.
  rewrite !lsum_app, part_open_sum_ii, part_close_sum_0 by (try apply off_is_special; assumption). lia.
Qed.

End M.

(* (iii) value at cost of everything *)
Lemma open_summary_cost c d before : cost_total all_accounts c (open_summary o d before) = 0.
Proof. apply entries_from_balances_cost_zero. Qed.

Theorem prepared_cost_all c op cl clr l : check_dates op cl = FromOk ->
  cost_total all_accounts c (prepare_c o op cl clr l)
  = match cl with Some _ => 0 | None => cost_total all_accounts c (part_window op cl l) end.
Proof.
  intros Hc. rewrite prepare_decomp by exact Hc. unfold cost_total. rewrite !lsum_app.
  fold (cost_total all_accounts c (part_open op l)) (cost_total all_accounts c (part_window op cl l))
       (cost_total all_accounts c (part_close op cl l)) (cost_total all_accounts c (part_clear op cl clr l)).
  assert (cost_total all_accounts c (part_open op l) = 0) as Ho
    by (destruct op; [apply open_summary_cost | reflexivity]).
  assert (cost_total all_accounts c (part_clear op cl clr l) = 0) as ->.
  { unfold part_clear. destruct clr; cbv zeta; [apply entries_from_balances_cost_zero | reflexivity]. }
  rewrite Ho. unfold part_close. destruct cl as [[e|]|]; cbv zeta.
  - rewrite conv_entries_cost. unfold cost_total at 2. rewrite lsum_app.
    fold (cost_total all_accounts c (part_open op l)). rewrite Ho. unfold cost_total. lia.
  - rewrite conv_entries_cost. unfold cost_total at 2. rewrite lsum_app.
    fold (cost_total all_accounts c (part_open op l)). rewrite Ho. unfold cost_total. lia.
  - unfold cost_total. rewrite lsum_nil. lia.
Qed.

(* every transaction of the prepared ledger balances *)
Lemma conv_entries_balanced before acct ccur ldate : Forall balanced (conv_entries before acct ccur ldate).
Proof.
  unfold conv_entries. cbv zeta. destruct (inv_is_empty _); repeat constructor.
  intro c. unfold conversion_entry; cbn [t_posts]. generalize (inv_reduce_cost (entries_balance before)).
  induction i as [|kn r IH]; [reflexivity|].
  cbn [map]. rewrite wsum_cons, IH. unfold weight; cbn [p_cost p_price p_units fst snd]. destruct (ccur =? c); lia.
Qed.

Lemma Forall_take {P : txn -> Prop} d l : Forall P l -> Forall P (take_before d l).
Proof. induction 1; simpl; [constructor|]. destruct (_ <? d); constructor; auto. Qed.
Lemma Forall_drop {P : txn -> Prop} d l : Forall P l -> Forall P (drop_before d l).
Proof. induction 1; simpl; [constructor|]. destruct (_ <? d); [assumption | constructor; auto]. Qed.
Lemma Forall_window {P : txn -> Prop} op cl l : Forall P l -> Forall P (part_window op cl l).
Proof.
  intro H. unfold part_window, take_hi, drop_lo.
  destruct (close_date cl), op; auto using Forall_take, Forall_drop.
Qed.

Theorem prepared_balanced op cl clr l : check_dates op cl = FromOk ->
  Forall balanced l -> Forall balanced (prepare_c o op cl clr l).
Proof.
  intros Hc Hl. rewrite prepare_decomp by exact Hc. repeat (apply Forall_app; split).
  - destruct op; simpl; [apply entries_from_balances_balanced | constructor].
  - apply Forall_window. exact Hl.
  - unfold part_close. destruct cl as [[e|]|]; cbv zeta; try apply conv_entries_balanced. constructor.
  - unfold part_clear. destruct clr; cbv zeta; [apply entries_from_balances_balanced | constructor].
Qed.

(* shape: generated entries before and after the window *)
Lemma shape_synth flag d l : (flag = FLAG_SUMMARIZE \/ flag = FLAG_TRANSFER \/ flag = FLAG_CONVERSIONS) ->
  Forall (fun t => t_flag t = flag /\ t_date t = d) l -> Forall (fun t => synthetic t = true) l.
Proof.
  intros Hf. apply Forall_impl. intros t [H _]. unfold synthetic. rewrite H.
  destruct Hf as [->| [->| ->]]; reflexivity.
Qed.

Theorem prepared_shape op cl clr l : check_dates op cl = FromOk ->
  exists pre post, prepare_c o op cl clr l = pre ++ part_window op cl l ++ post /\
                   Forall (fun t => synthetic t = true) pre /\ Forall (fun t => synthetic t = true) post.
Proof.
  intro Hc. exists (part_open op l), (part_close op cl l ++ part_clear op cl clr l).
  split; [apply prepare_decomp; exact Hc|]. split; [|apply Forall_app; split].
  - destruct op; simpl; [|constructor]. eapply shape_synth; [|apply open_summary_shape]. auto.
  - unfold part_close. destruct cl as [[e|]|]; cbv zeta; try constructor;
      (eapply shape_synth; [|apply conv_entries_shape]; auto).
  - unfold part_clear. destruct clr; cbv zeta; [|constructor].
    eapply shape_synth; [|apply transfer_entries_shape]; auto.
Qed.

End Prepared.

(* on a ledger sorted by date the window is a filter *)
Lemma window_filter op cl l : sorted_dates l ->
  part_window op cl l = filter (in_window op (close_date cl)) l.
Proof.
  intro Hs. unfold part_window, take_hi, drop_lo, in_window.
  destruct op as [d|], (close_date cl) as [e|].
  - rewrite drop_before_filter by exact Hs. rewrite take_before_filter by (apply sorted_dates_filter; exact Hs).
    apply filter_filter.
  - rewrite drop_before_filter by exact Hs. apply filter_ext'. intro. rewrite andb_true_r. reflexivity.
  - rewrite take_before_filter by exact Hs. reflexivity.
  - symmetry. apply filter_all. apply Forall_forall. reflexivity.
Qed.
Lemma take_hi_filter hi l : sorted_dates l ->
  take_hi hi l = filter (in_window None hi) l.
Proof.
  intro Hs. unfold take_hi, in_window. destruct hi as [e|].
  - rewrite take_before_filter by exact Hs. reflexivity.
  - symmetry. apply filter_all. apply Forall_forall. reflexivity.
Qed.

(* ------------------------------------------------------------------ *)
(* final statements (used by Properties/C13.v) *)

Lemma equity_not_is a : is_equity a = true -> is_income_statement a = false.
Proof. unfold is_equity, is_income_statement. destruct (fst a); congruence. Qed.
Lemma AL_not_is a : is_balance_sheet_AL a = true -> is_income_statement a = false.
Proof. unfold is_balance_sheet_AL, is_income_statement. destruct (fst a); congruence. Qed.
Lemma AL_not_equity a : is_balance_sheet_AL a = true -> is_equity a = false.
Proof. unfold is_balance_sheet_AL, is_equity. destruct (fst a); congruence. Qed.

Lemma not_option_account o a : is_option_account o a = false ->
  a <> o_earn_prev o /\ a <> o_opening o /\ a <> o_conv_prev o /\ a <> o_earn_cur o /\ a <> o_conv_cur o.
Proof.
  unfold is_option_account. rewrite !orb_false_iff. intros [[[[H1 H2] H3] H4] H5].
  repeat split; intro E; subst a; rewrite acct_eqb_refl in *; discriminate.
Qed.

Lemma g_units_other a k a' k' : a' <> a -> g_units a k a' k' = 0.
Proof.
  intro H. unfold g_units. destruct (acct_eqb a' a) eqn:E; [apply acct_eqb_eq in E; contradiction | reflexivity].
Qed.
Lemma g_cost_other sel c a' k' : sel a' = false -> g_cost sel c a' k' = 0.
Proof. intro H. unfold g_cost. rewrite H. reflexivity. Qed.

Section Final.
Variable o : opts.
Hypothesis Ho : opts_equity o.

Let H1 : is_income_statement (o_earn_prev o) = false. Proof. apply equity_not_is, Ho. Qed.
Let H2 : is_income_statement (o_opening o) = false. Proof. apply equity_not_is, Ho. Qed.
Let H3 : is_income_statement (o_conv_prev o) = false. Proof. apply equity_not_is, Ho. Qed.
Let H4 : is_income_statement (o_earn_cur o) = false. Proof. apply equity_not_is, Ho. Qed.
Let H5 : is_income_statement (o_conv_cur o) = false. Proof. apply equity_not_is, Ho. Qed.

(* any account that is neither Income/Expenses nor one of the five option accounts *)
Theorem final_other_units op cl clr l a k : sorted_dates l -> check_dates op cl = FromOk ->
  is_income_statement a = false -> is_option_account o a = false ->
  units_total a k (prepare_c o op cl clr l) = units_total a k (filter (in_window None (close_date cl)) l).
Proof.
  intros Hs Hc Ha Hoa. unfold units_total. rewrite <- take_hi_filter by exact Hs.
  destruct (not_option_account o a Hoa) as (N1 & N2 & N3 & N4 & N5).
  apply prepared_sum_i; try assumption; intros; apply g_units_other; congruence.
Qed.

Lemma AL_not_option a : is_balance_sheet_AL a = true -> is_option_account o a = false.
Proof.
  intro Ha. unfold is_option_account. destruct Ho as (E1 & E2 & E3 & E4 & E5).
  rewrite !orb_false_iff. repeat split;
    (destruct (acct_eqb a _) eqn:E; [apply acct_eqb_eq in E; subst a; apply AL_not_equity in Ha; congruence | reflexivity]).
Qed.

Theorem final_AL_units op cl clr l a k : sorted_dates l -> check_dates op cl = FromOk ->
  is_balance_sheet_AL a = true ->
  units_total a k (prepare_c o op cl clr l) = units_total a k (filter (in_window None (close_date cl)) l).
Proof. intros. apply final_other_units; auto using AL_not_is, AL_not_option. Qed.

(* value at cost of any set of accounts disjoint from Income/Expenses and the option accounts *)
Theorem final_other_cost sel c op cl clr l : sorted_dates l -> check_dates op cl = FromOk ->
  (forall a, sel a = true -> is_income_statement a = false /\ is_option_account o a = false) ->
  cost_total sel c (prepare_c o op cl clr l) = cost_total sel c (filter (in_window None (close_date cl)) l).
Proof.
  intros Hs Hc Hsel. unfold cost_total. rewrite <- take_hi_filter by exact Hs.
  assert (forall a, is_option_account o a = true -> sel a = false) as Hopt.
  { intros a Ha. destruct (sel a) eqn:E; [|reflexivity]. destruct (Hsel a E). congruence. }
  apply prepared_sum_i; try assumption; intros; apply g_cost_other.
  1-5: apply Hopt; unfold is_option_account; rewrite acct_eqb_refl, ?orb_true_r; reflexivity.
  destruct (sel a) eqn:E; [|reflexivity]. destruct (Hsel a E). congruence.
Qed.

Theorem final_AL_cost c op cl clr l : sorted_dates l -> check_dates op cl = FromOk ->
  cost_total is_balance_sheet_AL c (prepare_c o op cl clr l)
  = cost_total is_balance_sheet_AL c (filter (in_window None (close_date cl)) l).
Proof. intros. apply final_other_cost; auto using AL_not_is, AL_not_option. Qed.

Theorem final_IS_units op cl clr l a k : sorted_dates l -> check_dates op cl = FromOk ->
  is_income_statement a = true ->
  units_total a k (prepare_c o op cl clr l)
  = if clr then 0 else units_total a k (filter (in_window op (close_date cl)) l).
Proof.
  intros Hs Hc Ha. unfold units_total. rewrite <- window_filter by exact Hs.
  apply prepared_sum_ii; try assumption. intros a' k' Ha'. apply g_units_other. congruence.
Qed.

Theorem final_IS_cost c op cl clr l : sorted_dates l -> check_dates op cl = FromOk ->
  cost_total is_income_statement c (prepare_c o op cl clr l)
  = if clr then 0 else cost_total is_income_statement c (filter (in_window op (close_date cl)) l).
Proof.
  intros Hs Hc. unfold cost_total. rewrite <- window_filter by exact Hs.
  apply prepared_sum_ii; try assumption. intros a' k' Ha'. apply g_cost_other. exact Ha'.
Qed.

End Final.

(* Assets+Liabilities, Income+Expenses and Equity partition the accounts *)
Lemma lsum_plus f1 f2 l : lsum (fun p => f1 p + f2 p) l = lsum f1 l + lsum f2 l.
Proof.
  induction l as [|t r IH]; [reflexivity|]. rewrite !lsum_cons, IH.
  assert (forall ps, psum (fun p => f1 p + f2 p) ps = psum f1 ps + psum f2 ps) as H
    by (induction ps; simpl; lia).
  rewrite H. lia.
Qed.
Lemma cost_total_partition c l :
  cost_total all_accounts c l
  = cost_total is_balance_sheet_AL c l + cost_total is_income_statement c l + cost_total is_equity c l.
Proof.
  unfold cost_total. rewrite <- !lsum_plus. apply lsum_ext. intro p.
  unfold measure, g_cost, all_accounts, is_balance_sheet_AL, is_income_statement, is_equity.
  destruct (fst (p_acct p)); simpl; destruct (_ =? c); lia.
Qed.

(* with CLOSE the value at cost of the whole prepared ledger is zero in every currency:
   Equity carries minus (Assets + Liabilities as of the CLOSE date + Income/Expenses of the window) *)
Theorem final_equity_difference o c op cs clr l : opts_equity o -> sorted_dates l ->
  check_dates op (Some cs) = FromOk ->
  cost_total is_equity c (prepare_c o op (Some cs) clr l)
  = - (cost_total is_balance_sheet_AL c (filter (in_window None (close_date (Some cs))) l)
       + (if clr then 0 else cost_total is_income_statement c (filter (in_window op (close_date (Some cs))) l))).
Proof.
  intros Ho Hs Hc.
  pose proof (prepared_cost_all o c op (Some cs) clr l Hc) as Hall. cbv iota in Hall.
  rewrite cost_total_partition in Hall.
  rewrite (final_AL_cost o Ho c op (Some cs) clr l Hs Hc) in Hall.
  rewrite (final_IS_cost o Ho c op (Some cs) clr l Hs Hc) in Hall. lia.
Qed.

Theorem final_no_original_outside o op cl clr l t : sorted_dates l -> check_dates op cl = FromOk ->
  In t (prepare_c o op cl clr l) -> synthetic t = false ->
  In t l /\ in_window op (close_date cl) t = true.
Proof.
  intros Hs Hc Hin Hsyn. destruct (prepared_shape o op cl clr l Hc) as (pre & post & E & Hpre & Hpost).
  rewrite E in Hin. rewrite (window_filter op cl l Hs) in Hin.
  apply in_app_or in Hin. destruct Hin as [Hin|Hin].
  - rewrite Forall_forall in Hpre. rewrite (Hpre t Hin) in Hsyn. discriminate.
  - apply in_app_or in Hin. destruct Hin as [Hin|Hin].
    + apply filter_In in Hin. exact Hin.
    + rewrite Forall_forall in Hpost. rewrite (Hpost t Hin) in Hsyn. discriminate.
Qed.

Theorem final_inside_unchanged o op cl clr l : sorted_dates l -> check_dates op cl = FromOk ->
  Forall (fun t => synthetic t = false) l ->
  filter (fun t => negb (synthetic t)) (prepare_c o op cl clr l) = filter (in_window op (close_date cl)) l.
Proof.
  intros Hs Hc Hl. destruct (prepared_shape o op cl clr l Hc) as (pre & post & E & Hpre & Hpost).
  rewrite E, !filter_app, (window_filter op cl l Hs).
  rewrite (filter_none _ pre), (filter_none _ post), app_nil_r; simpl.
  - apply filter_all. apply Forall_forall. intros t Ht. apply filter_In in Ht. destruct Ht as [Ht _].
    rewrite Forall_forall in Hl. rewrite (Hl t Ht). reflexivity.
  - eapply Forall_impl; [|exact Hpost]. simpl. intros t ->. reflexivity.
  - eapply Forall_impl; [|exact Hpre]. simpl. intros t ->. reflexivity.
Qed.

(* ------------------------------------------------------------------ *)
(* the prepared ledger is again sorted by date (so that modelling bisect_left by the
   linear scan is sound from one stage to the next) *)

Lemma sorted_same_date c l : Forall (fun t => t_date t = c) l -> sorted_dates l.
Proof.
  induction 1 as [|a r Ha Hr IH]; [constructor|]. constructor; [exact IH|].
  eapply Forall_impl; [|exact Hr]. unfold date_le. simpl. intros x Hx. apply Z.leb_le. lia.
Qed.

Lemma sorted_take d l : sorted_dates l -> sorted_dates (take_before d l).
Proof. intro H. rewrite take_before_filter by exact H. apply sorted_dates_filter. exact H. Qed.
Lemma sorted_drop d l : sorted_dates l -> sorted_dates (drop_before d l).
Proof. intro H. rewrite drop_before_filter by exact H. apply sorted_dates_filter. exact H. Qed.

Lemma last_date_cons a r : last_date (a :: r) = match r with [] => t_date a | _ => last_date r end.
Proof.
  unfold last_date. simpl. destruct r as [|b r']; [reflexivity|].
  destruct (rev (b :: r')) as [|x xs] eqn:E.
  - apply (f_equal (@length txn)) in E. rewrite rev_length in E. discriminate.
  - reflexivity.
Qed.

Lemma last_date_max l : sorted_dates l -> Forall (fun t => t_date t <= last_date l) l.
Proof.
  induction 1 as [|a r Hs IH Ha]; [constructor|]. rewrite last_date_cons. destruct r as [|b r'].
  - repeat constructor. lia.
  - constructor.
    + inversion IH as [|? ? Hb _]; subst. inversion Ha as [|? ? Hab _]; subst.
      unfold date_le in Hab. apply Z.leb_le in Hab. lia.
    + exact IH.
Qed.

Lemma sorted_snoc_block c x T : sorted_dates x -> Forall (fun t => t_date t <= c) x ->
  Forall (fun t => t_date t = c) T -> sorted_dates (x ++ T).
Proof.
  intros Hx Hle HT. apply sorted_app; [exact Hx | eapply sorted_same_date; exact HT |].
  intros a b Ha Hb. rewrite Forall_forall in Hle, HT. unfold date_le. apply Z.leb_le.
  rewrite (HT b Hb). apply Hle. exact Ha.
Qed.

Lemma shape_date flag c l : Forall (fun t => t_flag t = flag /\ t_date t = c) l -> Forall (fun t => t_date t = c) l.
Proof. apply Forall_impl. intros t [_ H]; exact H. Qed.

Theorem prepared_sorted o op cl clr l : sorted_dates l -> check_dates op cl = FromOk ->
  sorted_dates (prepare_c o op cl clr l).
Proof.
  intros Hs Hc. rewrite prepare_decomp by exact Hc.
  (* open part ++ window *)
  assert (H1 : sorted_dates (part_open o op l ++ part_window op cl l)).
  { unfold part_open, part_window. apply sorted_app.
    - destruct op; [|constructor]. eapply sorted_same_date, shape_date, open_summary_shape.
    - unfold take_hi, drop_lo. destruct (close_date cl), op; try apply sorted_take; try apply sorted_drop; exact Hs.
    - intros a b Ha Hb. destruct op as [d|]; [|destruct Ha].
      pose proof (open_summary_shape o d (take_before d l)) as Hsh. rewrite Forall_forall in Hsh.
      destruct (Hsh a Ha) as [_ Hda].
      assert (In b (drop_before d l)) as Hb'.
      { unfold take_hi, drop_lo in Hb. destruct (close_date cl); [|exact Hb].
        rewrite take_before_filter in Hb by (apply sorted_drop; exact Hs). apply filter_In in Hb. apply Hb. }
      rewrite drop_before_filter in Hb' by exact Hs. apply filter_In in Hb'. destruct Hb' as [_ Hdb].
      apply Z.leb_le in Hdb. unfold date_le. apply Z.leb_le. lia. }
  (* ++ close part *)
  assert (H2 : sorted_dates (part_open o op l ++ part_window op cl l ++ part_close o op cl l)).
  { rewrite app_assoc. unfold part_close. destruct cl as [[e|]|]; cbv zeta.
    - eapply sorted_snoc_block; [exact H1 | | eapply shape_date, conv_entries_shape].
      apply Forall_app; split.
      + unfold part_open. destruct op as [d|]; [|constructor].
        simpl in Hc. destruct (Z.ltb_spec e d); [discriminate|].
        eapply Forall_impl; [|apply open_summary_shape]. intros t [_ Ht]. simpl in Ht. lia.
      + unfold part_window. simpl. eapply Forall_impl; [|apply take_before_lt]. simpl. intros; lia.
    - eapply sorted_snoc_block; [exact H1 | apply last_date_max; exact H1 | eapply shape_date, conv_entries_shape].
    - rewrite app_nil_r. exact H1. }
  rewrite !app_assoc. rewrite <- app_assoc, <- app_assoc, !app_assoc.
  unfold part_clear. destruct clr; cbv zeta.
  - rewrite <- !app_assoc in *.
    replace (part_open o op l ++ part_window op cl l ++ part_close o op cl l ++
             transfer_entries (part_open o op l ++ part_window op cl l ++ part_close o op cl l) (o_earn_cur o)
               (last_date (part_open o op l ++ part_window op cl l ++ part_close o op cl l)))
      with ((part_open o op l ++ part_window op cl l ++ part_close o op cl l) ++
             transfer_entries (part_open o op l ++ part_window op cl l ++ part_close o op cl l) (o_earn_cur o)
               (last_date (part_open o op l ++ part_window op cl l ++ part_close o op cl l)))
      by (rewrite <- !app_assoc; reflexivity).
    eapply sorted_snoc_block; [exact H2 | apply last_date_max; exact H2 | eapply shape_date, transfer_entries_shape].
  - rewrite app_nil_r. rewrite <- !app_assoc. exact H2.
Qed.
