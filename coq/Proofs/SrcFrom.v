(* Tie by translation, C13 / C05 (group `from`): the PyMini term generated on every run from the CURRENT source of
   Compiler._compile_from (Gen/SrcFrom.v) decides what Model/Compile.compile_from decides, for the three shapes of a FROM
   clause and its absence:
     from_none_src    no FROM clause: nothing changes, no condition;
     from_table_src   FROM <name>: self.table := context.tables.get(name), `table "..." does not exist` when that is None;
     from_select_src  FROM (SELECT ..): the subquery is compiled (state threaded, rule K12), an EvalPivot is rejected,
                      self.table := SubqueryTable(subquery);
     from_expr_src    FROM <expression> OPEN ON .. CLOSE [ON ..] CLEAR: the expression is compiled, then IN THIS ORDER: an
                      aggregate is rejected, CLOSE before OPEN is rejected (only when both dates are given: `CLOSE`
                      alone is True), a table without .update is rejected, and self.table := self.table.update(open=,
                      close=, clear=) with EXACTLY the three qualifiers of the node; the compiled expression is returned;
     from_expr_model  that decision is Compile.compile_from's on FKExpr.
   Encodings: Model/PrimsSelect.v. *)
From Coq Require Import String Ascii ZArith List Bool Lia.
Import ListNotations.
From Verif Require Import Base.PyValue Model.Eval Model.PyMini Model.PrimsApi Model.PrimsCompiler Model.PrimsSelect
  Proofs.PyMiniLemmas Proofs.PyMiniLemmas2 Proofs.SrcApi Proofs.PyValueProofs.
From Verif Require Model.Compile.
From Verif Require Import Gen.SrcFrom.
Open Scope string_scope.
Open Scope list_scope.
Open Scope Z_scope.

Notation cerr := Compile.cerr.
Arguments CompErr : simpl never.
Arguments val_le : simpl never.
Arguments method_call : simpl never.

Lemma threaded_state_is_table : threaded_state = ["table"].
Proof. reflexivity. Qed.

Definition enc_res {A} (f : A -> pv) (r : Compile.result A cerr) : pv :=
  match r with Compile.Ok a => f a | Compile.Err e => PV (VErr (CompErr e)) end.

(* ast.From.open: a date or None; .close: None, True (CLOSE without a date) or a date *)
Definition enc_open (o : option Z) : pv := popt (fun d => PV (VDate d)) o.
Definition enc_close (c : option (option Z)) : pv :=
  match c with None => PNone | Some None => PBool true | Some (Some d) => PV (VDate d) end.

Definition CTX : string := "beanquery.Connection".

Section Tie.
Variable call_ref : nat -> list pv -> pv.
Variable tbl : nat -> Compile.cnode.
Variable kids : nat -> list nat.
Variable mro : string -> list string.
Variable msg : string -> list pv -> pv.
Variable updatable : pv -> bool.
Variable upd : pv -> pv -> pv -> pv -> pv.
Notation prim := (prim_select tbl kids mro msg updatable upd).
Notation exec_block := (PyMini.exec_block call_ref prim).

Variables t0 t1 : pv.
Variable kC : nat.
Variable tabs : list (pv * pv).       (* context.tables: name -> table, in insertion order *)
Variable rest : env.

Definition ctx : pv := record (zs CTX) [("tables", pdict tabs)].
Definition flds (t : pv) : env := ("table", t) :: ("_compile", PRef kC) :: ("context", ctx) :: rest.

Definition ksub : nat := 0.    (* refs: beanquery.query_compile.SubqueryTable *)
Definition ka : nat := 1.      (* refs: beanquery.compiler.is_aggregate *)
Lemma refs_checked : ref_of refs "beanquery.query_compile.SubqueryTable" = Some ksub
                     /\ ref_of refs "beanquery.compiler.is_aggregate" = Some ka.
Proof. split; reflexivity. Qed.

Lemma xb_cons s c t :
  exec_block s (c :: t) = bind (PyMini.exec call_ref prim s c)
                            (fun o => match o with Next s1 => exec_block s1 t | Ret _ _ => Ok o end).
Proof. reflexivity. Qed.

Ltac step :=
  repeat match goal with ETL : ?TL = _ :> list stmt |- _ => subst TL end;
  match goal with
  | |- context [PyMini.exec_block _ _ ?ss ?ll] =>
      lazymatch ll with
      | cons ?cc ?tt =>
          let TL := fresh "TL" in let ETL := fresh "ETL" in
          remember tt as TL eqn:ETL; rewrite (xb_cons ss cc TL); cbn
      end
  end.

(* enter the branch of an `if` whose test evaluates by computation: its body becomes a block to step through *)
Ltac step_if :=
  repeat match goal with ETL : ?TL = _ :> list stmt |- _ => subst TL end;
  match goal with
  | |- context [PyMini.exec_block _ _ ?ss (cons (SIf ?c ?a ?b) ?tt)] =>
      let TL := fresh "TL" in let ETL := fresh "ETL" in
      remember tt as TL eqn:ETL; rewrite (xb_cons ss (SIf c a b) TL);
      erewrite (exec_if call_ref prim c a b ss); [|cbn; reflexivity|cbn; reflexivity]
  end; cbv iota.

Definition finish (r : res outcome) : res (env * pv) :=
  bind r (fun o => match o with Next s => Ok (fields s, PNone) | Ret s v => Ok (fields s, v) end).

(* the statements of the `if isinstance(node, ast.From):` branch *)
Definition from_body : list stmt :=
  Eval cbv in match nth 3 (f_body compile_from) SPass with SIf _ a _ => a | _ => [] end.

Lemma method_update_eq recv a b c :
  method_call prim "update:open,close,clear" recv [a; b; c] = Ok (recv, upd recv a b c).
Proof. destruct recv as [v|l|l|n|]; reflexivity. Qed.

(* ---------------------------------------------------------------- no FROM clause *)
Theorem from_none_src :
  call_method call_ref prim compile_from (flds t0) [PNone] = Ok (flds t0, PNone).
Proof. reflexivity. Qed.

(* ---------------------------------------------------------------- FROM <table name> *)
Definition table_named (name : pv) : pv :=
  match assoc name (rev (map (fun kv => PTuple [fst kv; snd kv]) tabs)) with Some t => t | None => PNone end.

Theorem from_table_src : forall name : string,
  call_method call_ref prim compile_from (flds t0) [record (zs TABLE) [("name", PStr name)]] =
  if pv_is_none (table_named (PStr name)) then Exc (CompErr Compile.ETableNotFound)
  else Ok (flds (table_named (PStr name)), PNone).
Proof.
  intros name. unfold call_method, compile_from. cbn [f_params f_body bind_params bind f_gen].
  step. step. step. fold (table_named (PStr name)).
  destruct (pv_is_none (table_named (PStr name))); cbn; reflexivity.
Qed.

(* ---------------------------------------------------------------- FROM (SELECT ...) *)
Variable sel_fields : list (string * pv).
Definition SELNODE : pv := record (zs SELECT) sel_fields.
Variable rsub : Compile.result pv cerr.
Hypothesis Hsub : call_ref kC [t0; SELNODE] = enc_res (fun q => PTuple [t1; q]) rsub.

(* isinstance(subquery, EvalQuery): a record of that class (a heap reference is a compiled expression node, not a query) *)
Definition is_query (q : pv) : bool := match as_nref q with Some _ => false | None => isinstance q EQ end.

Theorem from_select_src :
  call_method call_ref prim compile_from (flds t0) [SELNODE] =
  match rsub with
  | Compile.Err e => Exc (CompErr e)
  | Compile.Ok q =>
      if is_query q
      then match call_ref ksub [q] with PV (VErr k) => Exc k | t => Ok (flds t, PNone) end
      else Exc (CompErr Compile.ESubqueryPivot)
  end.
Proof.
  unfold call_method, compile_from. cbn [f_params f_body bind_params bind f_gen].
  step. step. rewrite Hsub. destruct rsub as [q|e]; cbn [enc_res]; [|reflexivity]. cbn.
  unfold is_query, isinstance. cbn [split_bar EQ existsb Ascii.eqb Bool.eqb append].
  destruct (as_nref q); cbn; [reflexivity|].
  destruct (is_a (class_of q) "beanquery.query_compile.EvalQuery"); cbn; [|reflexivity].
  change (call_ref 0%nat [q]) with (call_ref ksub [q]).
  destruct (call_ref ksub [q]) as [[| | | | | |]| | | |]; cbn; reflexivity.
Qed.

(* ---------------------------------------------------------------- FROM <expression> OPEN .. CLOSE .. CLEAR *)
Variable ex clr : pv.
Variable op : option Z.
Variable cl : option (option Z).
Definition FROMNODE : pv :=
  record (zs FROM) [("expression", ex); ("open", enc_open op); ("close", enc_close cl); ("clear", clr)].
Variable rexpr : Compile.result (option nat) cerr.
Hypothesis Hexpr : call_ref kC [t0; ex] = enc_res (fun oe => PTuple [t1; popt nref oe]) rexpr.
Hypothesis Hagg : forall i, call_ref ka [nref i] = PBool (Compile.has_agg (tbl i)).

Definition close_before_open : bool :=
  match op, cl with Some o, Some (Some c) => c <? o | _, _ => false end.

Definition p_from_expr : Compile.result (option nat) cerr :=
  Compile.bind rexpr (fun oe =>
  if match oe with Some i => Compile.has_agg (tbl i) | None => false end then Compile.Err Compile.EAggInFrom
  else if close_before_open then Compile.Err Compile.EOpenAfterClose
  else if negb (updatable t1) then Compile.Err Compile.EFromNotSupported
  else Compile.Ok oe).

Theorem from_expr_src :
  call_method call_ref prim compile_from (flds t0) [FROMNODE] =
  match p_from_expr with
  | Compile.Ok oe => Ok (flds (upd t1 (enc_open op) (enc_close cl) clr), popt nref oe)
  | Compile.Err e => Exc (CompErr e)
  end.
Proof.
  unfold call_method, compile_from, p_from_expr. cbn [f_params f_body bind_params bind f_gen].
  assert (Hagg' : forall i, call_ref 1%nat [nref i] = PBool (Compile.has_agg (tbl i))) by exact Hagg.
  step. step. step. step_if.
  step. rewrite Hexpr. destruct rexpr as [oe|e]; cbn [enc_res Compile.bind]; [|reflexivity]. cbn.
  set (s0 := {| locals := [("self", PSelf); ("node", FROMNODE); ("c_expression", popt nref oe)]; fields := flds t1 |}).
  assert (Rest : forall B, B = skipn 2 from_body ->
    exec_block s0 B =
    match (if close_before_open then Compile.Err Compile.EOpenAfterClose
           else if negb (updatable t1) then Compile.Err Compile.EFromNotSupported else Compile.Ok oe) with
    | Compile.Ok oe => Ok (Ret {| locals := locals s0; fields := flds (upd t1 (enc_open op) (enc_close cl) clr) |}
                               (popt nref oe))
    | Compile.Err e => Exc (CompErr e)
    end).
  { intros B ->. unfold from_body, s0. cbv [skipn]. unfold close_before_open, FROMNODE.
    clear Hexpr.
    destruct op as [o|]; [destruct cl as [[c|]|]|].
    - step.
      rewrite val_le_date. destruct (Z.leb_spec o c) as [L|L];
           [apply Z.ltb_ge in L|apply Z.ltb_lt in L]; rewrite L; cbn; [|reflexivity].
      step; destruct (updatable t1); cbn; try reflexivity; step; rewrite method_update_eq; cbn; step; reflexivity.
    - step. step; destruct (updatable t1); cbn; try reflexivity; step; rewrite method_update_eq; cbn; step; reflexivity.
    - step. step; destruct (updatable t1); cbn; try reflexivity; step; rewrite method_update_eq; cbn; step; reflexivity.
    - step. step; destruct (updatable t1); cbn; try reflexivity; step; rewrite method_update_eq; cbn; step; reflexivity. }
  destruct oe as [i|].
  - step. rewrite Hagg'. destruct (Compile.has_agg (tbl i)); cbn; [reflexivity|].
    repeat match goal with ETL : ?TL = _ :> list stmt |- _ => subst TL end.
    erewrite Rest by reflexivity.
    destruct (if close_before_open then _ else _); reflexivity.
  - step.
    repeat match goal with ETL : ?TL = _ :> list stmt |- _ => subst TL end.
    erewrite Rest by reflexivity.
    destruct (if close_before_open then _ else _); reflexivity.
Qed.

(* the decision is Compile.compile_from's on a FROM expression *)
Variable sch : Compile.schema.
Variable tb : Compile.table.
Variable clrb : bool.
Hypothesis Hupd : Compile.t_updatable tb = updatable t1.

Definition fe_of (r : Compile.result (option nat) cerr) : option (Compile.result Compile.cres cerr) :=
  match r with
  | Compile.Ok None => None
  | Compile.Ok (Some i) => Some (Compile.Ok (Compile.RNode (tbl i)))
  | Compile.Err e => Some (Compile.Err e)
  end.

Theorem from_expr_model :
  Compile.compile_from sch tb (Compile.FKExpr op cl clrb) (fe_of rexpr) =
  match p_from_expr with
  | Compile.Ok oe => Compile.Ok (tb, option_map tbl oe)
  | Compile.Err e => Compile.Err e
  end.
Proof.
  clear Hexpr Hagg Hsub. unfold p_from_expr, Compile.compile_from, close_before_open. rewrite Hupd.
  destruct rexpr as [[i|]|e]; cbn [fe_of Compile.bind Compile.as_node]; [| |reflexivity].
  - destruct (Compile.has_agg (tbl i)); [reflexivity|].
    destruct (match op, cl with Some o, Some (Some c') => c' <? o | _, _ => false end); [reflexivity|].
    destruct (updatable t1); reflexivity.
  - destruct (match op, cl with Some o, Some (Some c') => c' <? o | _, _ => false end); [reflexivity|].
    destruct (updatable t1); reflexivity.
Qed.

End Tie.

(* ---------------------------------------------------------------- the statement Properties/C13.v restates *)
Theorem compile_from_source :
  forall (call_ref : nat -> list pv -> pv) (tbl : nat -> Compile.cnode) (kids : nat -> list nat)
         (mro : string -> list string) (msg : string -> list pv -> pv) (updatable : pv -> bool)
         (upd : pv -> pv -> pv -> pv -> pv) (t0 t1 : pv) (kC : nat) (tabs : list (pv * pv)) (rest : env)
         (ex clr : pv) (op : option Z) (cl : option (option Z)) (rexpr : Compile.result (option nat) cerr)
         (sch : Compile.schema) (tb : Compile.table) (clrb : bool),
  call_ref kC [t0; ex] = enc_res (fun oe => PTuple [t1; popt nref oe]) rexpr ->
  (forall i, call_ref ka [nref i] = PBool (Compile.has_agg (tbl i))) ->
  Compile.t_updatable tb = updatable t1 ->
  match Compile.compile_from sch tb (Compile.FKExpr op cl clrb) (fe_of tbl rexpr) with
  | Compile.Ok (tb', c) =>
      exists oe, call_method call_ref (prim_select tbl kids mro msg updatable upd) compile_from (flds kC tabs rest t0)
                   [FROMNODE ex clr op cl] =
                 Ok (flds kC tabs rest (upd t1 (enc_open op) (enc_close cl) clr), popt nref oe)
                 /\ tb' = tb /\ c = option_map tbl oe
  | Compile.Err e =>
      call_method call_ref (prim_select tbl kids mro msg updatable upd) compile_from (flds kC tabs rest t0)
        [FROMNODE ex clr op cl] = Exc (CompErr e)
  end.
Proof.
  intros call_ref tbl kids mro msg updatable upd t0 t1 kC tabs rest ex clr op cl rexpr sch tb clrb He Ha Hu.
  rewrite (from_expr_model tbl updatable t1 op cl rexpr sch tb clrb Hu).
  rewrite (from_expr_src call_ref tbl kids mro msg updatable upd t0 t1 kC tabs rest ex clr op cl rexpr He Ha).
  destruct (p_from_expr tbl updatable t1 op cl rexpr) as [oe|e]; [|reflexivity].
  exists oe. repeat split; reflexivity.
Qed.
