From Coq Require Import String ZArith List Bool Lia.
Import ListNotations.
From Verif Require Import Base.PyValue Model.Eval Model.Order Model.Exec Model.PyMini Model.PrimsAgg Gen.SrcAgg
  Proofs.PyMiniLemmas Proofs.PyMiniLemmas2.
Open Scope string_scope.
Open Scope Z_scope.

Section NodeLoop.
Variable call_ref : nat -> list pv -> pv.
Variable prim : string -> list pv -> res pv.

Definition nbody (M x t : string) (extras : list string) : list stmt :=
  [SAssign (TName t) (XMethod (TName x) M (XName t :: map XName extras));
   SExpr (XMethod (TName "$acc") "append" [XName x])].

Fixpoint node_fold (f : pv -> pv -> res (pv * pv)) (nodes : list pv) (th : pv) : res (list pv * pv) :=
  match nodes with
  | [] => Ok ([], th)
  | n :: rest => bind (f n th) (fun p => bind (node_fold f rest (snd p)) (fun q => Ok (fst p :: fst q, snd q)))
  end.

Lemma node_loop : forall (M x t : string) (extras : list string) (vs : list pv),
  x <> t -> x <> "$acc" -> t <> "$acc" ->
  (extras = [] /\ vs = []) \/ (exists e v, extras = [e] /\ vs = [v] /\ e <> x /\ e <> t /\ e <> "$acc") ->
  forall nodes acc th loc flds nodes' th',
  lookup t loc = Some th -> lookup "$acc" loc = Some (PList acc) ->
  (forall e v, extras = [e] -> vs = [v] -> lookup e loc = Some v) ->
  node_fold (fun n th => method_call prim M n (th :: vs)) nodes th = Ok (nodes', th') ->
  exists loc',
    for_loop call_ref prim (nbody M x t extras) x {| locals := loc; fields := flds |} nodes =
      Ok (Next {| locals := loc'; fields := flds |}) /\
    lookup t loc' = Some th' /\ lookup "$acc" loc' = Some (PList (acc ++ nodes')) /\
    (forall y, y <> x -> y <> t -> y <> "$acc" -> lookup y loc' = lookup y loc).
Proof.
  intros M x t extras vs Hxt Hxa Hta Hex.
  induction nodes as [|n rest IH]; intros acc th loc flds nodes' th' Ht Ha He Hf.
  - cbn [node_fold] in Hf. injection Hf as <- <-. exists loc. rewrite app_nil_r. repeat split; auto.
  - cbn [node_fold] in Hf.
    destruct (method_call prim M n (th :: vs)) as [[n1 th1]| |] eqn:Em; cbn [bind snd fst] in Hf; try discriminate.
    destruct (node_fold (fun n th => method_call prim M n (th :: vs)) rest th1) as [[ns th2]| |] eqn:Ef;
      cbn [bind snd fst] in Hf; try discriminate.
    injection Hf as <- <-.
    cbn [for_loop]. unfold nbody at 1. rewrite exec_block_cons.
    set (loc1 := update x n loc).
    assert (Ht1 : lookup t loc1 = Some th) by (unfold loc1; rewrite lookup_update_other by congruence; exact Ht).
    assert (Hx1 : lookup x loc1 = Some n) by apply lookup_update_eq.
    set (loc3 := update t th1 (update x n1 loc1)).
    assert (E1 : PyMini.exec call_ref prim (write {| locals := loc; fields := flds |} (TName x) n)
                   (SAssign (TName t) (XMethod (TName x) M (XName t :: map XName extras))) =
                 Ok (Next {| locals := loc3; fields := flds |})).
    { cbn [write locals fields]. fold loc1.
      destruct Hex as [[-> ->]|[e [v [-> [-> [Hex [Het Hea]]]]]]].
      - cbn [map PyMini.exec PyMini.eval read locals fields bind]. rewrite Ht1. cbn [bind locals fields]. rewrite Hx1. cbn [bind].
        rewrite Em. cbn [bind write locals fields]. reflexivity.
      - assert (He1 : lookup e loc1 = Some v)
          by (unfold loc1; rewrite lookup_update_other by congruence; apply (He e v eq_refl eq_refl)).
        cbn [map PyMini.exec PyMini.eval read locals fields bind]. rewrite Ht1. cbn [bind locals fields]. rewrite He1. cbn [bind locals fields].
        rewrite Hx1. cbn [bind]. rewrite Em. cbn [bind write locals fields]. reflexivity. }
    rewrite E1. cbn [bind]. rewrite exec_block_cons.
    assert (Hx3 : lookup x loc3 = Some n1).
    { unfold loc3. rewrite lookup_update_other by congruence. apply lookup_update_eq. }
    assert (Ha3 : lookup "$acc" loc3 = Some (PList acc)).
    { unfold loc3, loc1. rewrite !lookup_update_other by congruence. exact Ha. }
    cbn [PyMini.exec PyMini.eval read locals fields bind]. rewrite Hx3. cbn [bind locals fields]. rewrite Ha3. cbn [bind].
    cbn [method_call String.eqb Ascii.eqb Bool.eqb bind write locals fields exec_block].
    set (loc4 := update "$acc" (PList (acc ++ [n1])%list) loc3).
    destruct (IH (acc ++ [n1])%list th1 loc4 flds ns th2) as [loc' [El [Lt [La Lf]]]].
    + unfold loc4, loc3. rewrite lookup_update_other by congruence. apply lookup_update_eq.
    + apply lookup_update_eq.
    + intros e v -> ->. destruct Hex as [[Hx _]|[e' [v' [Hx [Hv [Hex [Het Hea]]]]]]]; [discriminate|].
      injection Hx as <-. injection Hv as <-.
      unfold loc4, loc3, loc1. rewrite !lookup_update_other by congruence. apply (He e v eq_refl eq_refl).
    + exact Ef.
    + exists loc'. split; [exact El|]. split; [exact Lt|]. split.
      * rewrite La, <- app_assoc. reflexivity.
      * intros y Hy1 Hy2 Hy3. rewrite (Lf y Hy1 Hy2 Hy3). unfold loc4, loc3, loc1.
        rewrite !lookup_update_other by congruence. reflexivity.
Qed.
End NodeLoop.
