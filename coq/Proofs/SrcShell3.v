(* Tie by translation, C19 (bld-shell3): the PyMini term generated on every run from the CURRENT source of
   BQLShell.do_run (Gen/SrcShell3.v) appends to the shell's event log exactly the plan [run_plan] - and [run_plan],
   interpreted in a World (execute = Model/Shell.execute with the directive's date as default CLOSE date, stop at
   the first exception), is Model/Shell.v's do_run. *)
From Coq Require Import String Ascii ZArith List Bool Lia.
Import ListNotations.
From Verif Require Import Base.PyValue Model.Eval Model.PyMini Model.PrimsApi Model.PrimsShell Model.PrimsShell2
  Model.PrimsShell3 Proofs.PyMiniLemmas.
From Verif Require Model.Shell Proofs.SrcShell.
From Verif Require Import Gen.SrcShell3.
Open Scope string_scope.
Open Scope list_scope.
Open Scope Z_scope.

Inductive action := APrint (s : Shell.str) | AError (s : Shell.str) | AExec (q : Shell.query_directive).

Definition enc_action (a : action) : pv :=
  match a with
  | APrint s => PTuple [PStr "stdout"; PS s]
  | AError s => PTuple [PStr "error"; PS s]
  | AExec q => PTuple [PStr "execute:default_close_date"; PTuple [PS (Shell.q_text q); PInt (Shell.q_date q)]]
  end.

Definition all_actions (q : Shell.query_directive) : list action :=
  [APrint (Shell.q_name q ++ [58]); AExec q; APrint []; APrint []].

Definition find_q (qs : list Shell.query_directive) (name : Shell.str) : option Shell.query_directive :=
  find (fun q => Shell.str_eqb (Shell.q_name q) name) qs.

(* what `.run ARG` does with the named queries qs (a dict: first directive of each name), or the exception *)
Definition run_plan (qs : list Shell.query_directive) (arg : Shell.str) : res (list action) :=
  let arg := Shell.rstrip_by Shell.run_strip arg in
  match arg with
  | [] => Ok (match qs with
              | [] => []
              | _ => [APrint (Shell.join_nl (map Shell.q_name (Shell.sort_q qs)))]
              end)
  | _ =>
    if Shell.str_eqb arg [42] then Ok (flat_map all_actions (Shell.sort_q qs))
    else
      match Shell.shlex_split arg with
      | Shell.ShOk [] => Exc ValueError
      | Shell.ShOk [name] =>
          match find_q qs name with
          | None => Ok [AError (Shell.s2z "query """ ++ name ++ Shell.s2z """ not found")]
          | Some q => Ok [AExec q]
          end
      | Shell.ShOk _ => Ok [AError (Shell.s2z "too many arguments for ""run"" command")]
      | _ => Exc ValueError
      end
  end.

(* ---- the plan is Model/Shell.v's do_run ---- *)
Section Interp.
Variable W : Shell.World.
Variable quiet : bool.
Fixpoint interp (st : Shell.state) (l : list action) : list (Shell.event W) :=
  match l with
  | [] => []
  | APrint s :: t => Shell.println W Shell.Stdout s :: interp st t
  | AError s :: t => Shell.error W s :: interp st t
  | AExec q :: t =>
      let evs := Shell.execute W st (Shell.q_text q) (Some (Shell.q_date q)) in
      evs ++ (if Shell.raised W evs then [] else interp st t)
  end.

Lemma interp_all st : forall l, interp st (flat_map all_actions l) = Shell.run_all W st l.
Proof.
  induction l as [|q t IH]; [reflexivity|].
  cbn [flat_map all_actions app interp Shell.run_all]. rewrite IH. reflexivity.
Qed.

Theorem run_plan_model : forall st arg,
  Shell.do_run W st arg =
  match run_plan (Shell.named_queries W) arg with
  | Ok p => interp st p
  | Exc _ =>
      match Shell.shlex_split (Shell.rstrip_by Shell.run_strip arg) with
      | Shell.ShNoQuote => [Shell.ERaise (Shell.XValue (Shell.s2z "No closing quotation"))]
      | Shell.ShNoEscaped => [Shell.ERaise (Shell.XValue (Shell.s2z "No escaped character"))]
      | Shell.ShOk _ => [Shell.ERaise (Shell.XValue (Shell.s2z "not enough values to unpack (expected at least 1, got 0)"))]
      end
  | Stuck => []
  end.
Proof.
  intros st arg. unfold Shell.do_run, run_plan.
  destruct (Shell.rstrip_by Shell.run_strip arg) as [|c r].
  - destruct (Shell.named_queries W); reflexivity.
  - destruct (Shell.str_eqb (c :: r) [42]); [symmetry; apply interp_all|].
    destruct (Shell.shlex_split (c :: r)) as [[|name [|x l]]| |]; try reflexivity.
    unfold Shell.find_query, find_q.
    destruct (find _ (Shell.named_queries W)); [|reflexivity].
    cbn [interp]. destruct (Shell.raised W _); rewrite app_nil_r; reflexivity.
Qed.
End Interp.

(* ---- the translated do_run appends the plan ---- *)
Lemma dec_enc_qitems : forall qs, dec_qitems (enc_qitems qs) = Some qs.
Proof.
  induction qs as [|[n t d] r IH]; [reflexivity|].
  change (enc_qitems ({| Shell.q_name := n; Shell.q_text := t; Shell.q_date := d |} :: r)) with
    (enc_qitem {| Shell.q_name := n; Shell.q_text := t; Shell.q_date := d |} :: enc_qitems r).
  cbn [dec_qitems]. rewrite IH.
  unfold enc_qitem, dec_qitem, enc_qdir, record, PS. cbn. reflexivity.
Qed.

Lemma dec_strs_names : forall (qs : list Shell.query_directive),
  dec_strs (map (fun q => PS (Shell.q_name q)) qs) = Some (map Shell.q_name qs).
Proof. induction qs as [|q r IH]; [reflexivity|]. cbn [map dec_strs PS]. unfold PS in *. rewrite IH. reflexivity. Qed.

Lemma join_sep_nl : forall l, join_sep [10] l = Shell.join_nl l.
Proof. induction l as [|x [|y t] IH]; try reflexivity. cbn [join_sep Shell.join_nl] in *. rewrite IH. reflexivity. Qed.

Lemma dropwhile_ext f g : (forall c, f c = g c) -> forall l, Shell.dropwhile f l = Shell.dropwhile g l.
Proof. intros H. induction l as [|c t IH]; [reflexivity|]. cbn [Shell.dropwhile]. rewrite H, IH. reflexivity. Qed.

Lemma rstrip_run arg : Shell.rstrip_by (fun c => Shell.has c [59; 32; 9]) arg = Shell.rstrip_by Shell.run_strip arg.
Proof.
  unfold Shell.rstrip_by. f_equal. apply dropwhile_ext. intros c. unfold Shell.has, Shell.run_strip. cbn [existsb].
  rewrite !(Z.eqb_sym c). rewrite orb_false_r, orb_assoc. reflexivity.
Qed.

Lemma zeqb_sym : forall a b, zeqb a b = zeqb b a.
Proof.
  induction a as [|x a IH]; destruct b as [|y b]; try reflexivity.
  cbn [zeqb]. rewrite (Z.eqb_sym x y), IH. reflexivity.
Qed.

Lemma assoc_qitems name : forall qs,
  assoc (PS name) (enc_qitems qs) = option_map enc_qdir (find_q qs name).
Proof.
  induction qs as [|q r IH]; [reflexivity|].
  cbn [enc_qitems map enc_qitem assoc find_q find]. unfold PS at 1 2. cbn [key_eqb].
  fold (enc_qitems r). rewrite IH.
  change (Shell.str_eqb (Shell.q_name q) name) with (zeqb (Shell.q_name q) name).
  rewrite (zeqb_sym name). destruct (zeqb (Shell.q_name q) name); reflexivity.
Qed.

Section Tie.
Variable call_ref : nat -> list pv -> pv.
Variable msg : string -> list pv -> pv.
Notation prim := (prim_shell3 call_ref msg).
Notation exec_block := (PyMini.exec_block call_ref prim).
Notation exec := (PyMini.exec call_ref prim).
Notation eval := (PyMini.eval call_ref prim).

Definition all_body : list stmt :=
  match f_body shell_do_run with
  | [_; _; SIf _ [SForUnpack _ _ b; _] _; _; _; _; _; _; _; _] => b
  | _ => []
  end.

Fixpoint uloop (body : list stmt) (xs : list string) (s : st) (l : list pv) : res outcome :=
  match l with
  | [] => Ok (Next s)
  | v :: t => bind (unpack_names s xs v) (fun sv => bind (exec_block sv body)
                (fun o => match o with Next s1 => uloop body xs s1 t | Ret _ _ => Ok o end))
  end.

Definition uloop_in (body : list stmt) (xs : list string) := fix loop (s : st) (l : list pv) : res outcome :=
  match l with
  | [] => Ok (Next s)
  | v :: t => bind (unpack_names s xs v) (fun sv => bind (block_in call_ref prim sv body)
                (fun o => match o with Next s1 => loop s1 t | Ret _ _ => Ok o end))
  end.

Lemma uloop_in_eq body xs : forall l s, uloop_in body xs s l = uloop body xs s l.
Proof.
  induction l as [|v t IH]; intros s; [reflexivity|].
  change (uloop_in body xs s (v :: t)) with
    (bind (unpack_names s xs v) (fun sv => bind (block_in call_ref prim sv body)
       (fun o => match o with Next s1 => uloop_in body xs s1 t | Ret _ _ => Ok o end))).
  cbn [uloop]. destruct (unpack_names s xs v) as [sv| |]; cbn [bind]; try reflexivity.
  rewrite block_in_eq.
  destruct (exec_block sv body) as [[s2|s2 w]| |]; cbn [bind]; auto.
Qed.

Lemma exec_forunpack xs it body s s1 l :
  eval s it = Ok (s1, PList l) -> exec s (SForUnpack xs it body) = uloop body xs s1 l.
Proof.
  intros H. cbn [PyMini.exec]. rewrite H. cbn [bind]. clear H. revert s1.
  induction l as [|v t IH]; intros s1; [reflexivity|].
  cbv beta iota fix. fold (block_in call_ref prim). cbv beta iota fix in IH. fold (block_in call_ref prim) in IH.
  cbn [uloop]. destruct (unpack_names s1 xs v) as [sv| |]; cbn [bind]; try reflexivity.
  rewrite block_in_eq.
  destruct (exec_block sv body) as [[s2|s2 w]| |]; cbn [bind]; auto.
Qed.

Lemma all_loop : forall (qs0 l : list Shell.query_directive) (loc : PyMini.env) (evs : list pv),
  exists loc',
    uloop all_body ["name"; "query"] {| locals := loc; fields := run3_flds qs0 evs |} (enc_qitems l) =
    Ok (Next {| locals := loc'; fields := run3_flds qs0 (evs ++ map enc_action (flat_map all_actions l)) |}).
Proof.
  intros qs0. induction l as [|q t IH]; intros loc evs.
  - exists loc. cbn. rewrite app_nil_r. reflexivity.
  - change (enc_qitems (q :: t)) with (enc_qitem q :: enc_qitems t). cbn [uloop].
    unfold all_body at 1. unfold enc_qitem at 1.
    unfold run3_flds in *.
    repeat (progress (cbn -[uloop enc_qitems all_body]; rewrite ?lookup_update_eq;
                      repeat (rewrite lookup_update_neq by reflexivity))).
    edestruct (IH (update "query" (enc_qdir q) (update "name" (PS (Shell.q_name q)) loc))) as [loc' E].
    rewrite E. exists loc'. cbn [flat_map all_actions map app enc_action].
    repeat (rewrite <- app_assoc; cbn [app]). unfold PS, PStr. reflexivity.
Qed.

Lemma names_comp s1 : forall l,
  map_res (fun v => bind (eval (write s1 (TName "name") v) (XName "name")) (fun p => Ok (snd p))) l = Ok l.
Proof.
  induction l as [|v t IH]; [reflexivity|]. cbn [map_res]. rewrite IH.
  cbn. rewrite lookup_update_eq. reflexivity.
Qed.

(* `.run ARG`: for EVERY dict of named queries, everything logged so far and every argument string, the translated
   do_run leaves self.queries alone and appends exactly the plan's events (or raises ValueError where the plan does) *)
Theorem do_run_src : forall (qs : list Shell.query_directive) (evs : list pv) (arg : list Z),
  call_method call_ref prim shell_do_run (run3_flds qs evs) [PS arg] =
  bind (run_plan qs arg) (fun p => Ok (run3_flds qs (evs ++ map enc_action p), PNone)).
Proof.
  intros qs evs arg. unfold shell_do_run, call_method, run_plan. cbn [bind_params f_params f_body].
  cbn -[Shell.rstrip_by Shell.has Shell.shlex_split compare1 dec_qitems enc_qitems Shell.sort_q].
  rewrite rstrip_run. destruct (Shell.rstrip_by Shell.run_strip arg) as [|c r].
  - (* no argument: the names *)
    destruct qs as [|q0 qs].
    + cbn. rewrite app_nil_r. reflexivity.
    + change (enc_qitems (q0 :: qs)) with (enc_qitem q0 :: enc_qitems qs).
      cbn -[Shell.sort_q dec_qitems enc_qitems].
      change (enc_qitem q0 :: enc_qitems qs) with (enc_qitems (q0 :: qs)). rewrite dec_enc_qitems.
      cbn -[Shell.sort_q enc_qitems].
      set (L := map (fun q => PS (Shell.q_name q)) (Shell.sort_q (q0 :: qs))).
      match goal with |- context [?F L] =>
        assert (HF : forall l, F l = Ok l)
          by (induction l as [|v t IHl]; [reflexivity|]; cbn; rewrite ?lookup_update_eq; cbn; rewrite IHl; reflexivity);
        rewrite HF
      end.
      subst L. cbn -[Shell.sort_q enc_qitems]. rewrite dec_strs_names. cbn -[Shell.sort_q enc_qitems].
      rewrite join_sep_nl. reflexivity.
  - cbn -[Shell.shlex_split compare1 dec_qitems enc_qitems Shell.sort_q Shell.str_eqb zeqb].
    unfold PS at 1. rewrite Proofs.SrcShell.compare1_eq_str. change (Shell.str_eqb (c :: r) [42]) with (zeqb (c :: r) [42]).
    destruct (zeqb (c :: r) [42]) eqn:Estar.
    + (* run all *)
      cbn -[dec_qitems enc_qitems Shell.sort_q].
      rewrite dec_enc_qitems. cbn -[enc_qitems Shell.sort_q].
      set (L := enc_qitems (Shell.sort_q qs)).
      match goal with |- context [?F ?S L] =>
        change (F S L) with (uloop_in all_body ["name"; "query"] S L)
      end.
      rewrite uloop_in_eq. subst L.
      match goal with |- context [uloop _ _ {| locals := ?loc; fields := _ |} _] =>
        destruct (all_loop qs (Shell.sort_q qs) loc evs) as [loc' E]
      end.
      unfold run3_flds in *. rewrite E. cbn. reflexivity.
    + cbn -[Shell.shlex_split dec_qitems enc_qitems Shell.sort_q assoc].
      destruct (Shell.shlex_split (c :: r)) as [[|name [|x l]]| |] eqn:Esp;
        cbn -[dec_qitems enc_qitems Shell.sort_q assoc]; try reflexivity.
      all: rewrite ?Esp; cbn -[dec_qitems enc_qitems Shell.sort_q assoc]; try reflexivity.
      all: change (Pos.to_nat 1) with 1%nat; cbn -[dec_qitems enc_qitems Shell.sort_q assoc]; try reflexivity.
      rewrite assoc_qitems. destruct (find_q qs name) as [q|]; cbn; rewrite ?app_nil_r; reflexivity.
Qed.


(* ---- BQLShell.do_reload ---- *)
Definition kPrintErrors : nat := 0.
Definition kStderr : nat := 1.
Definition kStatistics : nat := 2.
Lemma reload_refs_ok :
  ref_of refs "beancount.parser.printer.print_errors:file" = Some kPrintErrors /\
  ref_of refs "sys.stderr" = Some kStderr /\
  ref_of refs "beanquery.shell.print_statistics" = Some kStatistics.
Proof. repeat split. Qed.

Definition enc_fn (f : option (list Z)) : pv := match f with Some s => PS s | None => PNone end.
Definition table_tag : list Z := zs "beanquery.sources.beancount.EntriesTable".
(* the connection AFTER errors.clear(), options.clear() and attach(): its entries table and its errors *)
Definition enc_conn (ents opts : pv) (errs : list pv) : pv :=
  record ctx_tag [("tables", pdict [(PStr "entries", record table_tag [("entries", ents); ("options", opts)])]);
                  ("errors", PList errs)].
Definition reload_flds (f : option (list Z)) (conn : pv) (quiet inter : bool) (outf : pv) (evs : list pv) : env :=
  [("filename", enc_fn f); ("context", conn); ("no_errors", PBool quiet); ("interactive", PBool inter);
   ("outfile", outf); ("$events", PList evs)].
Definition reload_events (f : list Z) (ents : pv) : list pv :=
  [PTuple [PStr "context.errors.clear"; PTuple []]; PTuple [PStr "context.options.clear"; PTuple []];
   PTuple [PStr "context.attach"; PTuple [PS (zs "beancount:" ++ f)]];
   PTuple [PStr "_extract_queries"; PTuple [ents]]].

Theorem do_reload_src : forall (f : option (list Z)) (ents opts outf arg : pv) (errs evs : list pv) (quiet inter : bool),
  call_method call_ref prim shell_do_reload (reload_flds f (enc_conn ents opts errs) quiet inter outf evs) [arg] =
  match f with
  | None | Some [] => Ok (reload_flds f (enc_conn ents opts errs) quiet inter outf evs, PNone)
  | Some fn =>
      bind (match errs with
            | [] => Ok PNone
            | _ => if quiet then Ok PNone else do_call call_ref (PRef kPrintErrors) [PList errs; PRef kStderr]
            end) (fun _ =>
      bind (if inter then do_call call_ref (PRef kStatistics) [ents; opts; outf] else Ok PNone) (fun _ =>
      Ok (reload_flds f (enc_conn ents opts errs) quiet inter outf (evs ++ reload_events fn ents), PNone)))
  end.
Proof.
  intros f ents opts outf arg errs evs quiet inter.
  unfold shell_do_reload, call_method, reload_flds, enc_conn, reload_events, kPrintErrors, kStderr, kStatistics.
  destruct f as [[|c r]|]; try (cbn; reflexivity).
  destruct errs as [|e0 errs], quiet, inter; cbn -[do_call];
    repeat match goal with |- context [do_call ?c ?g ?a] => destruct (do_call c g a); cbn -[do_call] end;
    repeat (rewrite <- app_assoc; cbn [app]); try reflexivity.
Qed.

End Tie.
