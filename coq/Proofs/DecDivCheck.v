(* C18 -- safediv / Decimal division is correctly rounded: exhaustive check over a pool of
   small decimals (the statement lists the pool). *)
From Coq Require Import ZArith List Bool Lia.
Import ListNotations.
From Verif Require Import Base.Out Base.PyValue Model.Dates Model.StrFuncs Proofs.DatesProofs.
Open Scope Z_scope.

Definition div_coefs : list Z := [0; 1; 2; 3; 5; 6; 7; 9; 12; 25; 64; 999].
Definition div_pool : list dec :=
  flat_map (fun c => flat_map (fun e => [mkdec false c e; mkdec true c e]) [-1; 2]) div_coefs.

(* r is x / y correctly rounded to PREC digits: sign = xor, at most PREC digits, within half a unit
   in the last place of the exact quotient, and exact unless all PREC digits are used
   (A = cr * cy * 10^(er-m), B = cx * 10^(ex-ey-m) are r and x/y scaled by cy * 10^-m) *)
Definition div_ok (x y r : dec) : bool :=
  let ideal := dexp x - dexp y in
  let m := Z.min (dexp r) ideal in
  let A := dcoef r * dcoef y * 10 ^ (dexp r - m) in
  let B := dcoef x * 10 ^ (ideal - m) in
  Bool.eqb (dneg r) (xorb (dneg x) (dneg y))
  && (ndigits (dcoef r) <=? PREC)
  && (2 * Z.abs (A - B) <=? dcoef y * 10 ^ (dexp r - m))
  && ((A =? B) || (ndigits (dcoef r) =? PREC))
  && (negb (A =? B) || (dexp r <=? ideal) || negb (dcoef r mod 10 =? 0) || (dcoef r =? 0)).

Definition div_check : bool :=
  forallb (fun x => forallb (fun y => dec_is_zero y || div_ok x y (dec_div x y)) div_pool) div_pool.

Lemma div_check_ok : div_check = true.
Proof. vm_cast_no_check (eq_refl true). Qed.

Lemma safediv_correctly_rounded x y :
  In x div_pool -> In y div_pool -> dcoef y <> 0 ->
  exists r, f_safediv x y = VDec r /\ div_ok x y r = true.
Proof.
  intros Hx Hy Hz. exists (dec_div x y). split.
  - unfold f_safediv, dec_is_zero. apply Z.eqb_neq in Hz. rewrite Hz. reflexivity.
  - pose proof div_check_ok as H. unfold div_check in H. rewrite forallb_forall in H.
    specialize (H x Hx). rewrite forallb_forall in H. specialize (H y Hy).
    unfold dec_is_zero in H. apply Z.eqb_neq in Hz. rewrite Hz in H. exact H.
Qed.
