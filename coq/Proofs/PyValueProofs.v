From Coq Require Import ZArith QArith List Bool Lia.
Import ListNotations.
From Verif Require Import Base.StableSort Base.PyValue.
Open Scope Z_scope.

Lemma zleb_total : total Z.leb.
Proof. intros x y. destruct (Z.leb_spec x y); [now left|right]. apply Z.leb_le. lia. Qed.
Lemma zleb_trans : trans Z.leb.
Proof. intros x y z H1 H2. apply Z.leb_le in H1, H2. apply Z.leb_le. lia. Qed.

Lemma qleb_total : total Qle_bool.
Proof.
  intros x y. destruct (Qlt_le_dec y x) as [H|H].
  - right. apply Qle_bool_iff. apply Qlt_le_weak. exact H.
  - left. apply Qle_bool_iff. exact H.
Qed.
Lemma qleb_trans : trans Qle_bool.
Proof. intros x y z H1 H2. apply Qle_bool_iff in H1, H2. apply Qle_bool_iff. eapply Qle_trans; eassumption. Qed.

Lemma list_le_total : total list_le.
Proof.
  intros a. induction a as [|x a IH]; intros [|y b]; simpl; auto.
  destruct (Z.ltb_spec x y), (Z.ltb_spec y x); auto; try lia.
Qed.
Lemma list_le_trans : trans list_le.
Proof.
  intros a. induction a as [|x a IH]; intros [|y b] [|z c]; simpl; auto; try discriminate.
  destruct (Z.ltb_spec x y), (Z.ltb_spec y x), (Z.ltb_spec y z), (Z.ltb_spec z y),
           (Z.ltb_spec x z), (Z.ltb_spec z x); auto; try lia; try discriminate.
  apply IH.
Qed.

Lemma list_le_antisym a : forall b, list_le a b = true -> list_le b a = true -> a = b.
Proof.
  induction a as [|x a IH]; intros [|y b]; simpl; auto; try discriminate.
  destruct (Z.ltb_spec x y), (Z.ltb_spec y x); try discriminate; try lia.
  intros H1 H2. assert (x = y) by lia. subst. f_equal. now apply IH.
Qed.

Theorem val_le_total : total val_le.
Proof.
  unfold val_le. apply total_lex; [apply total_on, zleb_total|].
  apply total_lex; apply total_on; [apply qleb_total|apply list_le_total].
Qed.

Theorem val_le_trans : trans val_le.
Proof.
  unfold val_le. apply trans_lex; [apply total_on, zleb_total|apply trans_on, zleb_trans|].
  apply trans_lex; [apply total_on, qleb_total|apply trans_on, qleb_trans|apply trans_on, list_le_trans].
Qed.

(* NULL sorts before every value. *)
Theorem null_least v : val_le VNull v = true.
Proof. destruct v; reflexivity. Qed.
Theorem null_strictly_least v : v <> VNull -> val_le v VNull = false.
Proof. destruct v; try reflexivity. congruence. Qed.

(* equality is an equivalence *)
Lemma val_eq_refl x : val_eq x x = true.
Proof. apply eqv_refl, val_le_total. Qed.
Lemma val_eq_sym x y : val_eq x y = val_eq y x.
Proof. apply eqv_sym. Qed.
Lemma val_eq_trans x y z : val_eq x y = true -> val_eq y z = true -> val_eq x z = true.
Proof.
  unfold val_eq, eqv. intros H1 H2. apply andb_prop in H1 as [A B]. apply andb_prop in H2 as [C D].
  apply andb_true_intro. split; eapply val_le_trans; eassumption.
Qed.

Lemma row_eq_refl r : row_eq r r = true.
Proof. induction r as [|x r IH]; simpl; [reflexivity|]. now rewrite val_eq_refl. Qed.
Lemma row_eq_sym a : forall b, row_eq a b = row_eq b a.
Proof. induction a as [|x a IH]; intros [|y b]; simpl; auto. now rewrite val_eq_sym, IH. Qed.
Lemma row_eq_trans a : forall b c, row_eq a b = true -> row_eq b c = true -> row_eq a c = true.
Proof.
  induction a as [|x a IH]; intros [|y b] [|z c]; simpl; auto; try discriminate.
  intros H1 H2. apply andb_prop in H1 as [A B]. apply andb_prop in H2 as [C D].
  apply andb_true_intro. split; [eapply val_eq_trans; eassumption|eapply IH; eassumption].
Qed.

(* Sanity: on same-type values the order is the expected one. *)
Lemma val_le_int a b : val_le (VInt a) (VInt b) = (a <=? b).
Proof.
  unfold val_le, lex, on; simpl. unfold Qle_bool; simpl. rewrite !Z.mul_1_r.
  destruct (Z.leb_spec a b), (Z.leb_spec b a); try reflexivity; lia.
Qed.
Lemma val_le_date a b : val_le (VDate a) (VDate b) = (a <=? b).
Proof.
  unfold val_le, lex, on; simpl. unfold Qle_bool; simpl. rewrite !Z.mul_1_r.
  destruct (Z.leb_spec a b), (Z.leb_spec b a); try reflexivity; lia.
Qed.
Lemma val_le_str a b : val_le (VStr a) (VStr b) = list_le a b.
Proof.
  unfold val_le, lex, on; simpl. destruct (list_le a b) eqn:E; destruct (list_le b a) eqn:E'; reflexivity.
Qed.
