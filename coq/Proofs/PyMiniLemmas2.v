(* More reasoning principles for the PyMini interpreter (additions to Proofs/PyMiniLemmas.v): the unpacking for-loop
   `for a, b in it:` as a top-level recursive function, blocks, results of generator functions. *)
From Coq Require Import String ZArith List Bool Lia.
Import ListNotations.
From Verif Require Import Base.PyValue Model.Eval Model.PyMini Proofs.PyMiniLemmas.
Open Scope string_scope.

Section L2.
Variable call_ref : nat -> list pv -> pv.
Variable prim : string -> list pv -> res pv.
Notation exec := (exec call_ref prim).
Notation exec_block := (exec_block call_ref prim).
Notation eval := (PyMini.eval call_ref prim).

Lemma exec_block_cons s c t :
  exec_block s (c :: t) = bind (exec s c) (fun o => match o with Next s1 => exec_block s1 t | Ret _ _ => Ok o end).
Proof. reflexivity. Qed.

Lemma exec_block_nil s : exec_block s [] = Ok (Next s).
Proof. reflexivity. Qed.

(* for x1, .., xn in l: body *)
Fixpoint for_unpack_loop (body : list stmt) (xs : list string) (s : st) (l : list pv) : res outcome :=
  match l with
  | [] => Ok (Next s)
  | v :: t => bind (unpack_names s xs v)
                (fun sv => bind (exec_block sv body)
                   (fun o => match o with Next s1 => for_unpack_loop body xs s1 t | Ret _ _ => Ok o end))
  end.

Definition unpack_loop_in (body : list stmt) (xs : list string) := fix loop (s : st) (l : list pv) : res outcome :=
  match l with
  | [] => Ok (Next s)
  | v :: t => bind (unpack_names s xs v)
                (fun sv => bind (block_in call_ref prim sv body)
                   (fun o => match o with Next s1 => loop s1 t | Ret _ _ => Ok o end))
  end.

Lemma unpack_loop_in_eq body xs : forall l s, unpack_loop_in body xs s l = for_unpack_loop body xs s l.
Proof.
  induction l as [|v t IH]; intros s; [reflexivity|].
  change (unpack_loop_in body xs s (v :: t)) with
    (bind (unpack_names s xs v)
       (fun sv => bind (block_in call_ref prim sv body)
          (fun o => match o with Next s1 => unpack_loop_in body xs s1 t | Ret _ _ => Ok o end))).
  cbn [for_unpack_loop].
  destruct (unpack_names s xs v) as [sv| |]; cbn [bind]; try reflexivity.
  rewrite block_in_eq.
  destruct (exec_block sv body) as [[s1|s1 w]| |]; cbn [bind]; auto.
Qed.

Lemma exec_for_unpack xs it body s s1 l :
  eval s it = Ok (s1, PList l) -> exec s (SForUnpack xs it body) = for_unpack_loop body xs s1 l.
Proof.
  intros H. cbn [PyMini.exec]. rewrite H. cbn [bind]. apply (unpack_loop_in_eq body xs l s1).
Qed.

(* the for-loop over a tuple *)
Lemma exec_for_tuple x it body s s1 l :
  eval s it = Ok (s1, PTuple l) -> exec s (SFor x it body) = for_loop call_ref prim body x s1 l.
Proof.
  intros H. cbn [PyMini.exec]. rewrite H. cbn [bind]. apply (loop_in_eq call_ref prim body x l s1).
Qed.

Lemma eval_listcomp_tuple elt x it s s1 l :
  eval s it = Ok (s1, PTuple l) ->
  eval s (XListComp elt x it None) =
  bind (map_res (fun v => bind (eval (write s1 (TName x) v) elt) (fun p => Ok (snd p))) l)
       (fun vs => Ok (s1, PList vs)).
Proof.
  intros H. cbn [PyMini.eval]. rewrite H. cbn [bind].
  match goal with |- bind ?a _ = bind ?b _ => assert (E : a = b) end.
  { clear H. induction l as [|v t IH]; [reflexivity|]. cbn [map_res].
    destruct (eval (write s1 (TName x) v) elt) as [[s2 r]| |]; cbn [bind snd]; try reflexivity.
    rewrite IH. reflexivity. }
  rewrite E. reflexivity.
Qed.

Lemma map_res_ok {A B} (f : A -> res B) (g : A -> B) l :
  (forall a, In a l -> f a = Ok (g a)) -> map_res f l = Ok (map g l).
Proof.
  induction l as [|a t IH]; intros H; [reflexivity|].
  cbn [map_res map]. rewrite (H a (or_introl eq_refl)). cbn [bind].
  rewrite IH by (intros b Hb; apply H; right; exact Hb). reflexivity.
Qed.

(* ---- compositional evaluation of expressions *)
Lemma eval_name s x v : lookup x (locals s) = Some v -> eval s (XName x) = Ok (s, v).
Proof. intros H. cbn [PyMini.eval read]. rewrite H. reflexivity. Qed.

Lemma eval_prim1 name a s s1 v :
  eval s a = Ok (s1, v) -> eval s (XPrim name [a]) = bind (prim name [v]) (fun r => Ok (s1, r)).
Proof. intros H. cbn [PyMini.eval]. rewrite H. reflexivity. Qed.

Lemma eval_prim2 name a b s s1 s2 v w :
  eval s a = Ok (s1, v) -> eval s1 b = Ok (s2, w) ->
  eval s (XPrim name [a; b]) = bind (prim name [v; w]) (fun r => Ok (s2, r)).
Proof. intros H1 H2. cbn [PyMini.eval]. rewrite H1. cbn [bind]. rewrite H2. reflexivity. Qed.

Lemma eval_attr o a s s1 ov :
  eval s o = Ok (s1, ov) -> ov <> PSelf ->
  eval s (XAttr o a) = bind (prim ("attr:" ++ a) [ov]) (fun v => Ok (s1, v)).
Proof. intros H N. cbn [PyMini.eval]. rewrite H. cbn [bind]. destruct ov; try reflexivity. congruence. Qed.

Lemma eval_index a i s s1 s2 l z :
  eval s a = Ok (s1, PList l) -> eval s1 i = Ok (s2, PV (VInt z)) ->
  eval s (XIndex a i) = bind (index_at l z) (fun x => Ok (s2, x)).
Proof. intros H1 H2. cbn [PyMini.eval]. rewrite H1. cbn [bind]. rewrite H2. reflexivity. Qed.

Lemma exec_assign t e s s1 v : eval s e = Ok (s1, v) -> exec s (SAssign t e) = Ok (Next (write s1 t v)).
Proof. intros H. cbn [PyMini.exec]. rewrite H. reflexivity. Qed.

Lemma index_at_nat (l : list pv) (i : nat) d : (i < length l)%nat -> index_at l (Z.of_nat i) = Ok (nth i l d).
Proof.
  intros H. unfold index_at.
  assert (E1 : (Z.of_nat i <? 0)%Z = false) by (apply Z.ltb_ge; lia).
  assert (E2 : (Z.of_nat (length l) <=? Z.of_nat i)%Z = false) by (apply Z.leb_gt; lia).
  rewrite E1. cbv iota zeta. rewrite E1, E2. cbn [orb]. rewrite Nat2Z.id. rewrite (nth_error_nth' l d H). reflexivity.
Qed.

Lemma eval_index_tuple a i s s1 s2 l z :
  eval s a = Ok (s1, PTuple l) -> eval s1 i = Ok (s2, PV (VInt z)) ->
  eval s (XIndex a i) = bind (index_at l z) (fun x => Ok (s2, x)).
Proof. intros H1 H2. cbn [PyMini.eval]. rewrite H1. cbn [bind]. rewrite H2. reflexivity. Qed.

(* [elt for x in it if c] *)
Fixpoint comp_res (f : pv -> res (option pv)) (l : list pv) : res (list pv) :=
  match l with
  | [] => Ok []
  | v :: t => bind (f v) (fun o => bind (comp_res f t) (fun rs => Ok (match o with Some r => r :: rs | None => rs end)))
  end.

Definition comp_item (elt c : expr) (x : string) (s1 : st) (v : pv) : res (option pv) :=
  let sx := write s1 (TName x) v in
  bind (bind (eval sx c) (fun p => pv_truthy (snd p)))
       (fun keep => if keep : bool then bind (eval sx elt) (fun p => Ok (Some (snd p))) else Ok None).

Lemma eval_listcomp_cond elt x it c s s1 l :
  eval s it = Ok (s1, PList l) ->
  eval s (XListComp elt x it (Some c)) = bind (comp_res (comp_item elt c x s1) l) (fun vs => Ok (s1, PList vs)).
Proof.
  intros H. cbn [PyMini.eval]. rewrite H. cbn [bind].
  match goal with |- bind ?a _ = bind ?b _ => assert (E : a = b) end.
  { clear H. induction l as [|v t IH]; [reflexivity|]. cbn [comp_res]. unfold comp_item at 1.
    destruct (eval (write s1 (TName x) v) c) as [[s2 cv]| |]; cbn [bind snd]; try reflexivity.
    destruct (pv_truthy cv) as [[|]| |]; cbn [bind]; try reflexivity.
    - destruct (eval (write s1 (TName x) v) elt) as [[s3 r]| |]; cbn [bind snd]; try reflexivity.
      rewrite IH. reflexivity.
    - rewrite IH. destruct (comp_res (comp_item elt c x s1) t); reflexivity. }
  rewrite E. reflexivity.
Qed.

Lemma comp_res_filter {A} (h : A -> pv) (f : pv -> res (option pv)) (p : A -> bool) (g : A -> pv) l :
  (forall a, In a l -> f (h a) = Ok (if p a then Some (g a) else None)) ->
  comp_res f (map h l) = Ok (map g (filter p l)).
Proof.
  induction l as [|a t IH]; intros H; [reflexivity|].
  cbn [map comp_res filter]. rewrite (H a (or_introl eq_refl)). cbn [bind].
  rewrite IH by (intros b Hb; apply H; right; exact Hb). cbn [bind].
  destruct (p a); reflexivity.
Qed.

Lemma map_res_map_ok' {A B C} (h : A -> B) (f : B -> res C) (g : A -> C) l :
  (forall a, In a l -> f (h a) = Ok (g a)) -> map_res f (map h l) = Ok (map g l).
Proof.
  induction l as [|a t IH]; intros H; [reflexivity|].
  cbn [map map_res]. rewrite (H a (or_introl eq_refl)). cbn [bind].
  rewrite IH by (intros b Hb; apply H; right; exact Hb). reflexivity.
Qed.

End L2.

Lemma lookup_update_other x y v e : x <> y -> lookup x (update y v e) = lookup x e.
Proof. intros N. apply lookup_update_neq. apply String.eqb_neq. exact N. Qed.
