(* Tie by translation (C13): the PyMini term generated from the SOURCE of query_env.BeanTable.prepare computes, for
   every combination of the OPEN / CLOSE / CLEAR attributes of the table and every entries value, what
   Model/Summarize.v's [prepare] computes - the three clauses in the fixed order OPEN, CLOSE, CLEAR, each only when
   requested, CLOSE without a date calling close_opt with None, the entries threaded from one stage to the next and
   the options passed unchanged.

   The three Beancount operations are opaque library functions (the model's Section parameters op_open / op_close /
   op_clear): the hypotheses say that summarize.open_opt / close_opt / clear_opt, called with (entries, date, options),
   return a pair whose first component is the operation applied to the entries (the second, an index, is arbitrary:
   prepare discards it).  isinstance(self.close, datetime.date) is Model/PrimsLedger.v's isinstance under the refs
   table of the generated file. *)
From Coq Require Import String ZArith List Bool Lia.
Import ListNotations.
From Verif Require Import Base.PyValue Model.Eval Model.PyMini Model.PrimsLedger Model.Summarize Gen.SrcLedgerPrepare
  Proofs.PyMiniLemmas Proofs.PyMiniLemmasLedger.
Open Scope string_scope.
Open Scope Z_scope.

(* the attributes of the table as values: a date, None, True *)
Definition enc_odate (o : option Z) : pv := match o with Some d => PV (VDate d) | None => PNone end.
Definition enc_close (c : option close_spec) : pv :=
  match c with None => PNone | Some (CloseOn d) => PV (VDate d) | Some CloseAll => PBool true end.
Definition enc_clear (b : bool) : pv := if b then PBool true else PNone.

Section Tie.
Variable call_ref : nat -> list pv -> pv.
Variable ext : string -> list pv -> res pv.
Variable E : Type.
Variable op_open : Z -> E -> E.
Variable op_close : option Z -> E -> E.
Variable op_clear : E -> E.
Variable enc : E -> pv.
Variable opts : pv.
Notation prims := (prims_ledger SrcLedgerPrepare.refs ext).

Definition summarize_ok : Prop :=
  (forall e d, exists i,
     ext "beancount.ops.summarize.open_opt" [enc e; PV (VDate d); opts] = Ok (PTuple [enc (op_open d e); i])) /\
  (forall e d, exists i,
     ext "beancount.ops.summarize.close_opt" [enc e; enc_odate d; opts] = Ok (PTuple [enc (op_close d e); i])) /\
  (forall e, exists i,
     ext "beancount.ops.summarize.clear_opt" [enc e; PNone; opts] = Ok (PTuple [enc (op_clear e); i])).

Definition table_fields (e : E) (o : option Z) (c : option close_spec) (clr : bool) : env :=
  [("entries", enc e); ("options", opts); ("open", enc_odate o); ("close", enc_close c); ("clear", enc_clear clr)].

Theorem prepare_src : summarize_ok -> forall o c clr e,
  call_method call_ref prims src_prepare (table_fields e o c clr) [] =
  Ok (table_fields e o c clr, enc (prepare E op_open op_close op_clear o c clr e)).
Proof.
  intros (H_open & H_close & H_clear) o c clr e.
  destruct o as [d|]; destruct c as [[d'|]|]; destruct clr; vm_compute.
  all: repeat match goal with
       | |- context [ext "beancount.ops.summarize.open_opt" [enc ?e; PV (VDate ?d); opts]] =>
           let i := fresh "i" in let H := fresh "H" in
           destruct (H_open e d) as [i H]; rewrite H; clear H; vm_compute
       | |- context [ext "beancount.ops.summarize.close_opt" [enc ?e; PV (VDate ?d); opts]] =>
           let i := fresh "i" in let H := fresh "H" in
           destruct (H_close e (Some d)) as [i H]; vm_compute in H; rewrite H; clear H; vm_compute
       | |- context [ext "beancount.ops.summarize.close_opt" [enc ?e; PV VNull; opts]] =>
           let i := fresh "i" in let H := fresh "H" in
           destruct (H_close e None) as [i H]; vm_compute in H; rewrite H; clear H; vm_compute
       | |- context [ext "beancount.ops.summarize.clear_opt" [enc ?e; PV VNull; opts]] =>
           let i := fresh "i" in let H := fresh "H" in
           destruct (H_clear e) as [i H]; vm_compute in H; rewrite H; clear H; vm_compute
       end.
  all: reflexivity.
Qed.
End Tie.

(* the hypotheses are satisfiable: entries are values themselves, the operations tag them *)
Definition demo_ext (name : string) (args : list pv) : res pv :=
  match args with
  | [e; d; o] => Ok (PTuple [PTuple [PV (VStr (Dates.s2z name)); d; e]; PNone])
  | _ => Stuck
  end.
Lemma demo_summarize_ok :
  summarize_ok demo_ext pv
    (fun d e => PTuple [PV (VStr (Dates.s2z "beancount.ops.summarize.open_opt")); PV (VDate d); e])
    (fun d e => PTuple [PV (VStr (Dates.s2z "beancount.ops.summarize.close_opt")); enc_odate d; e])
    (fun e => PTuple [PV (VStr (Dates.s2z "beancount.ops.summarize.clear_opt")); PNone; e])
    (fun e => e) (PInt 0).
Proof. repeat split; intros; eexists; reflexivity. Qed.
