(* Proofs about Model/Threads.v (C20). *)
From Coq Require Import ZArith List Bool Lia.
Import ListNotations.
From Verif Require Import Model.Threads.
Open Scope Z_scope.

(* ------------------------------------------------------------------ *)
(* Computations that touch no shared cell: only the registry is read.  *)

Inductive private {A} : comp A -> Prop :=
| pr_ret : forall a, private (Ret a)
| pr_yield : forall t k, private k -> private (Yield t k)
| pr_reg : forall k, (forall r, private (k r)) -> private (GetReg k).

Lemma private_bind : forall A B (c : comp A) (f : A -> comp B),
  private c -> (forall a, private (f a)) -> private (bind c f).
Proof.
  intros A B c f H Hf. induction H; simpl; auto; constructor; auto.
Qed.

Lemma private_yield_if : forall A b (k : comp A), private k -> private (yield_if b k).
Proof. intros A [] k H; simpl; auto. constructor; auto. Qed.

(* A private thread leaves the global state alone, stays private, and cutting its
   execution at a yield point does not change what it finally computes. *)
Lemma to_yield_private : forall A (c : comp A) g, private c ->
  snd (to_yield c g) = g /\ private (fst (to_yield c g)) /\
  to_end (fst (to_yield c g)) g = to_end c g.
Proof.
  intros A c g H. induction H; simpl.
  - repeat split. constructor.
  - repeat split. auto.
  - apply H0.
Qed.

Lemma to_end_private : forall A (c : comp A) g, private c -> snd (to_end c g) = g.
Proof. intros A c g H. induction H; simpl; auto. Qed.

Lemma drain_private : forall A (ts : list (comp A)) g, Forall private ts ->
  drain ts g = (map (fun c => fst (to_end c g)) ts, g).
Proof.
  intros A ts g H. induction H; simpl; auto.
  pose proof (to_end_private _ x g H) as E.
  destruct (to_end x g) as [a g1] eqn:Ex. simpl in E. subst g1.
  rewrite IHForall. reflexivity.
Qed.

Lemma map_set_nth : forall A B (f : A -> B) (l : list A) i x c,
  nth_error l i = Some c -> f x = f c -> map f (set_nth i x l) = map f l.
Proof.
  intros A B f l. induction l as [|h t IH]; intros i x c Hn Hf.
  - destruct i; discriminate.
  - destruct i; simpl in *.
    + inversion Hn; subst. rewrite Hf. reflexivity.
    + f_equal. eapply IH; eauto.
Qed.

Lemma Forall_set_nth : forall A (P : A -> Prop) (l : list A) i x,
  Forall P l -> P x -> Forall P (set_nth i x l).
Proof.
  intros A P l. induction l as [|h t IH]; intros i x Hl Hx; simpl.
  - destruct i; constructor.
  - inversion Hl; subst. destruct i; constructor; auto.
Qed.

Lemma step_private : forall A (st : sstate A) i, Forall private (fst st) ->
  Forall private (fst (step st i)) /\ snd (step st i) = snd st /\
  map (fun c => fst (to_end c (snd st))) (fst (step st i)) = map (fun c => fst (to_end c (snd st))) (fst st).
Proof.
  intros A [ts g] i H. unfold step. simpl in *.
  destruct (nth_error ts i) as [c|] eqn:En; simpl; auto.
  assert (Hc : private c).
  { rewrite Forall_forall in H. apply H. eapply nth_error_In; eauto. }
  destruct (to_yield_private _ c g Hc) as (Hg & Hp & He).
  destruct (to_yield c g) as [c' g'] eqn:Ey. simpl in *. subst g'.
  repeat split.
  - apply Forall_set_nth; auto.
  - eapply map_set_nth; eauto. rewrite He. reflexivity.
Qed.

Lemma fold_step_private : forall A sched (st : sstate A), Forall private (fst st) ->
  let st' := fold_left step sched st in
  Forall private (fst st') /\ snd st' = snd st /\
  map (fun c => fst (to_end c (snd st))) (fst st') = map (fun c => fst (to_end c (snd st))) (fst st).
Proof.
  intros A sched. induction sched as [|i s IH]; intros st H; simpl; auto.
  destruct (step_private _ st i H) as (Hp & Hg & Hm).
  destruct (IH (step st i) Hp) as (Hp' & Hg' & Hm').
  repeat split; auto.
  - congruence.
  - rewrite Hg in Hm'. rewrite Hm'. exact Hm.
Qed.

(* The scheduler theorem: threads that touch no shared cell compute, under EVERY
   schedule, what they compute when run one after the other - and leave the same
   global state. *)
Theorem isolation_sched : forall A (ts : list (comp A)) g sched,
  Forall private ts -> run_state sched (ts, g) = run_state [] (ts, g).
Proof.
  intros A ts g sched H. unfold run_state.
  destruct (fold_step_private _ sched (ts, g) H) as (Hp & Hg & Hm).
  simpl in *. rewrite Hg.
  rewrite (drain_private _ _ g Hp), (drain_private _ ts g H). rewrite Hm. reflexivity.
Qed.

(* ------------------------------------------------------------------ *)
(* The registry is never written, by any thread, under any schedule.   *)

Lemma to_yield_reg : forall A (c : comp A) g, g_reg (snd (to_yield c g)) = g_reg g.
Proof.
  intros A c. induction c; intros g; simpl; auto.
  - rewrite IHc. reflexivity.
  - rewrite IHc. reflexivity.
Qed.

Lemma to_end_reg : forall A (c : comp A) g, g_reg (snd (to_end c g)) = g_reg g.
Proof.
  intros A c. induction c; intros g; simpl; auto.
  - rewrite IHc. reflexivity.
  - rewrite IHc. reflexivity.
Qed.

Lemma step_reg : forall A (st : sstate A) i, g_reg (snd (step st i)) = g_reg (snd st).
Proof.
  intros A [ts g] i. unfold step. simpl.
  destruct (nth_error ts i) as [c|]; simpl; auto.
  pose proof (to_yield_reg _ c g). destruct (to_yield c g). simpl in *. auto.
Qed.

Lemma drain_reg : forall A (ts : list (comp A)) g, g_reg (snd (drain ts g)) = g_reg g.
Proof.
  intros A ts. induction ts as [|c t IH]; intros g; simpl; auto.
  pose proof (to_end_reg _ c g) as E. destruct (to_end c g) as [a g1]. simpl in E.
  specialize (IH g1). destruct (drain t g1) as [r g2]. simpl in *. congruence.
Qed.

Theorem registry_read_only : forall A sched (st : sstate A),
  g_reg (snd (run_state sched st)) = g_reg (snd st).
Proof.
  intros A sched. unfold run_state. induction sched as [|i s IH]; intros st; simpl.
  - apply drain_reg.
  - rewrite IH. apply step_reg.
Qed.

(* ------------------------------------------------------------------ *)
(* What the compiler and the evaluator build is private when the        *)
(* inventory has no shared cell and the statement object is not shared. *)

Ltac priv :=
  repeat first
    [ apply private_yield_if
    | apply private_bind
    | apply pr_ret | apply pr_yield | apply pr_reg
    | progress intros ].

Lemma get_names_private : forall A own (k : list phname -> comp A),
  (forall n, private (k n)) -> private (get_names None own k).
Proof. intros. simpl. auto. Qed.

Lemma check_placeholders_private : forall fine ps own,
  private (check_placeholders fine None ps own).
Proof.
  intros. unfold check_placeholders. apply get_names_private. intros n.
  destruct n as [|n0 nt]; [constructor|].
  destruct (forallb ph_truthy (n0 :: nt)).
  - destruct ps; try constructor. destruct (forallb _ _); constructor.
  - destruct (forallb _ (n0 :: nt)); [|constructor].
    destruct ps; try constructor. destruct (Nat.eqb _ _); constructor.
Qed.

Lemma cbin_private : forall mk op ca cb, private ca -> private cb -> private (cbin mk op ca cb).
Proof.
  intros. unfold cbin. apply private_bind; auto. intros [a'|k]; [|constructor].
  apply private_bind; auto. intros [b'|k]; [|constructor].
  destruct op; [|constructor]. destruct a'; try constructor. destruct b'; constructor.
Qed.

Lemma cfun_private : forall f mk fn ca, private ca -> private (cfun f mk fn ca).
Proof.
  intros. unfold cfun. apply private_bind; auto. intros [a'|k]; [|constructor].
  constructor. intros r. destruct (in_reg f r); [|constructor].
  destruct fn; [|constructor]. destruct a'; constructor.
Qed.

Lemma cexpr_private : forall ps own e, private (cexpr None ps own e).
Proof.
  intros ps own e. induction e; simpl; try (constructor; fail);
    try (apply cbin_private; auto; fail); try (apply cfun_private; auto; fail).
  - (* EParam *)
    destruct (nth_error own i); [|constructor]. destruct (param_value ps p); constructor.
  - (* EYield *)
    apply private_bind; auto. intros [a'|k]; [|constructor].
    constructor. intros r. destruct (in_reg FN_VYIELD r); [|constructor].
    destruct a'; try constructor. destruct v; repeat constructor.
  - (* EIn *)
    apply private_bind; auto. intros [a'|k]; [|constructor]. apply cbin_private; auto.
Qed.

Lemma cexprs_private : forall ps own l, private (cexprs None ps own l).
Proof.
  intros ps own l. induction l; simpl; [constructor|].
  apply private_bind; [apply cexpr_private|]. intros [e'|k]; [|constructor].
  apply private_bind; auto. intros [t'|k]; constructor.
Qed.

Lemma caggs_private : forall ps own l, private (caggs None ps own l).
Proof.
  intros ps own l. induction l as [|[f e] t IH]; simpl; [constructor|].
  apply private_bind; [apply cfun_private, cexpr_private|]. intros [e'|k]; [|constructor].
  apply private_bind; auto. intros [t'|k]; constructor.
Qed.

Lemma cquery_private : forall ps own q, private (cquery None ps own q).
Proof.
  intros ps own [ts w | key aggs w]; simpl.
  - apply private_bind; [apply cexprs_private|]. intros [ts'|k]; [|constructor].
    apply private_bind; [apply cexpr_private|]. intros [w'|k]; constructor.
  - apply private_bind; [apply cexpr_private|]. intros [key'|k]; [|constructor].
    apply private_bind; [apply caggs_private|]. intros [aggs'|k]; [|constructor].
    apply private_bind; [apply cexpr_private|]. intros [w'|k]; constructor.
Qed.

Lemma compile_private : forall fine ps s, private (compile fine None ps s).
Proof.
  intros. unfold compile. apply private_bind; [apply check_placeholders_private|].
  intros [names|k]; [apply cquery_private|constructor].
Qed.

Section EvalPrivate.
Variable fine : bool.
Variable rows : list posting.

Lemma eval_balance_private : forall c l, private (eval_balance fine false c l).
Proof.
  intros c l. unfold eval_balance.
  destruct (match c_memo c with Some (rid, v) => if rid =? c_rowid c then Some v else None | None => None end);
    constructor.
Qed.

Lemma ebin_private : forall op ea eb, private ea -> (forall c l, private (eb c l)) -> private (ebin op ea eb).
Proof.
  intros. unfold ebin. apply private_bind; auto. intros [[va c] l].
  destruct va; [|constructor]. apply private_bind; auto. intros [[vb c'] l'].
  destruct vb; constructor.
Qed.

Lemma eval_private : forall e cx l, private (eval fine false rows e cx l).
Proof.
  induction e; intros cx l; simpl; try (constructor; fail); try (apply ebin_private; auto; fail).
  - apply eval_balance_private.
  - (* EYield *)
    apply private_bind; auto. intros [[v c'] l']. destruct v; repeat constructor.
  - auto.
  - (* EEmpty *)
    apply private_bind; auto. intros [[v c'] l']. constructor.
  - (* ENullOdd *)
    apply private_bind; auto. intros [[v c'] l']. constructor.
  - (* EAnd *)
    apply private_bind; auto. intros [[va c'] l']. destruct va; [|constructor].
    destruct (z =? 0); [constructor|]. apply private_bind; auto.
    intros [[vb c''] l'']. destruct vb; constructor.
  - (* EIn *)
    apply private_bind; auto. intros [[va c'] l']. destruct va; [|constructor].
    apply private_bind.
    + destruct (lookup id (l_sub l')); [constructor|].
      destruct (new_ctx l') as [sc l1].
      apply private_bind; [|intros [vals l2]; constructor].
      match goal with |- private (?F rows _ _ []) =>
        assert (HF : forall rs sc0 l0 acc, private (F rs sc0 l0 acc)) end.
      { induction rs as [|p rs IH]; intros sc0 l0 acc; [constructor|].
        apply private_yield_if. apply private_bind; auto.
        intros [[w sc1] l2]. destruct (truthy w); auto.
        apply private_bind; auto. intros [[v sc2] l3]. auto. }
      apply HF.
    + intros [r l2]. destruct r; constructor.
Qed.

Lemma evals_private : forall es c l, private (evals fine false rows es c l).
Proof.
  induction es; intros c l; simpl; [constructor|].
  apply private_bind; [apply eval_private|]. intros [[v c'] l'].
  apply private_bind; auto. intros [[vs c''] l'']. constructor.
Qed.

Lemma select_loop_private : forall ts w rs c l acc, private (select_loop fine false rows ts w rs c l acc).
Proof.
  intros ts w rs. induction rs; intros c l acc; simpl; [constructor|].
  apply private_yield_if. apply private_bind; [apply eval_private|].
  intros [[wv c'] l']. destruct (truthy wv); auto.
  apply private_bind; [apply evals_private|]. intros [[vs c''] l'']. auto.
Qed.

Lemma agg_update_private : forall aggs st c l, private (agg_update fine false rows aggs st c l).
Proof.
  induction aggs as [|[f e] t IH]; intros st c l; simpl; [constructor|].
  destruct st as [|s st']; [constructor|].
  apply private_bind.
  - destruct f.
    + apply private_bind; [apply eval_private|]. intros [[v c'] l']. constructor.
    + apply private_bind; [apply eval_private|]. intros [[v c'] l']. constructor.
    + destruct s; [constructor|apply eval_private].
    + apply eval_private.
  - intros [[s' c'] l']. apply private_bind; auto. intros [[st'' c''] l'']. constructor.
Qed.

Lemma agg_loop_private : forall key aggs w rs c l m, private (agg_loop fine false rows key aggs w rs c l m).
Proof.
  intros key aggs w rs. induction rs; intros c l m; simpl; [constructor|].
  apply private_yield_if. apply private_bind; [apply eval_private|].
  intros [[wv c'] l']. destruct (truthy wv); auto.
  apply private_bind; [apply eval_private|]. intros [[kv c''] l''].
  apply private_bind; [apply agg_update_private|]. intros [[st' c3] l3]. auto.
Qed.

Lemma exec_private : forall tid q, private (exec fine false rows tid q).
Proof.
  intros tid q. unfold exec. destruct (new_ctx (mkL tid 0 [])) as [c l].
  destruct q; (apply private_bind; [|intros; constructor]).
  - apply select_loop_private.
  - apply agg_loop_private.
Qed.
End EvalPrivate.

Lemma thread_private : forall cells astw fine tid p,
  balance_cached cells = false -> (astw = false \/ p_share p = None) -> private (thread cells astw fine tid p).
Proof.
  intros cells astw fine tid p Hc Hs. unfold thread. rewrite Hc.
  assert (E : (if astw then p_share p else None) = None).
  { destruct Hs as [H|H]; rewrite H; [reflexivity|destruct astw; reflexivity]. }
  rewrite E.
  apply private_yield_if. apply private_bind; [apply compile_private|].
  intros [q|k]; [apply exec_private|constructor].
Qed.

Lemma shared_statements_nil : forall ps, shared_statements ps = [] -> Forall (fun p => p_share p = None) ps.
Proof.
  induction ps as [|p t IH]; intros H; constructor; unfold shared_statements in H; simpl in H.
  - destruct (p_share p); [discriminate|reflexivity].
  - apply IH. destruct (p_share p); [discriminate|exact H].
Qed.

Lemma threads_private : forall cells astw fine ps tid,
  balance_cached cells = false -> (astw = false \/ shared_statements ps = []) ->
  Forall private (threads_from cells astw fine tid ps).
Proof.
  intros cells astw fine ps tid Hc H.
  assert (H' : Forall (fun p => astw = false \/ p_share p = None) ps).
  { destruct H as [H|H].
    - rewrite Forall_forall. intros; left; exact H.
    - apply shared_statements_nil in H. rewrite Forall_forall in *. intros; right; auto. }
  clear H. revert tid. induction ps as [|p t IH]; intros tid; simpl; constructor; inversion H'; subst.
  - apply thread_private; auto.
  - apply IH; auto.
Qed.

(* C20_isolation: no process-wide cell in the inventory, and no statement object that is
   both shared between threads and written by compile: every schedule gives the serial
   results. *)
Theorem isolation : forall (cells : list cell_id) (astw fine : bool) (sched : list nat) (ps : list prog),
  cells = [] -> (astw = false \/ shared_statements ps = []) ->
  run cells astw fine sched ps = serial cells astw fine ps.
Proof.
  intros cells astw fine sched ps Hc Hs. subst cells. unfold serial, run, run_full.
  rewrite isolation_sched; auto.
  apply threads_private; auto.
Qed.

(* also the final global state (cache, shared statements, registry) is the serial one *)
Theorem isolation_full : forall (astw fine : bool) (reg : list Z) (sched : list nat) (ps : list prog),
  (astw = false \/ shared_statements ps = []) ->
  run_full [] astw fine reg sched ps = run_full [] astw fine reg [] ps.
Proof.
  intros. unfold run_full. apply isolation_sched.
  apply threads_private; auto.
Qed.

Theorem registries_read_only : forall cells astw fine reg sched ps,
  g_reg (snd (run_full cells astw fine reg sched ps)) = reg.
Proof. intros. unfold run_full. rewrite registry_read_only. reflexivity. Qed.

(* ------------------------------------------------------------------ *)
(* The repair keeps the serial semantics: for a compiled query without  *)
(* IN-subqueries, executing with the process-wide one-entry cache (OLD) *)
(* from a cache that holds no entry of this table scan gives the same   *)
(* rows as executing with the memo on the row context (NEW).            *)

Lemma to_end_bind : forall A B (c : comp A) (f : A -> comp B) g,
  to_end (bind c f) g = let (a, g1) := to_end c g in to_end (f a) g1.
Proof.
  intros A B c f. induction c; intros g; simpl; auto.
Qed.

Definition sim {A B} (R : A -> B -> glob -> Prop) (g : glob) (old : comp A) (new : comp B) : Prop :=
  exists a b g1, to_end old g = (a, g1) /\ (forall g', fst (to_end new g') = b) /\ R a b g1.

Lemma sim_ret : forall A B (R : A -> B -> glob -> Prop) g a b, R a b g -> sim R g (Ret a) (Ret b).
Proof. intros. exists a, b, g. simpl. auto. Qed.

Lemma sim_bind : forall A B A' B' (R : A -> B -> glob -> Prop) (R' : A' -> B' -> glob -> Prop)
    g old new (f : A -> comp A') (f' : B -> comp B'),
  sim R g old new -> (forall a b g1, R a b g1 -> sim R' g1 (f a) (f' b)) ->
  sim R' g (bind old f) (bind new f').
Proof.
  intros A B A' B' R R' g old new f f' (a & b & g1 & Ho & Hn & Hr) Hf.
  destruct (Hf a b g1 Hr) as (a' & b' & g2 & Ho' & Hn' & Hr').
  exists a', b', g2. repeat split; auto.
  - rewrite to_end_bind, Ho. exact Ho'.
  - intros g'. rewrite to_end_bind. specialize (Hn g').
    destruct (to_end new g') as [x gx]. simpl in Hn. subst x. apply Hn'.
Qed.

Lemma sim_yield : forall A B (R : A -> B -> glob -> Prop) g t t' old new,
  sim R g old new -> sim R g (Yield t old) (Yield t' new).
Proof. intros A B R g t t' old new (a & b & g1 & Ho & Hn & Hr). exists a, b, g1. simpl. auto. Qed.

Lemma sim_yield_if : forall A B (R : A -> B -> glob -> Prop) g f old new,
  sim R g old new -> sim R g (yield_if f old) (yield_if f new).
Proof. intros. destruct f; simpl; auto. Qed.

Definition erase (c : ctx) : ctx := mkC (c_id c) (c_rowid c) (c_bal c) None (c_post c).

(* the cache holds exactly what the memo of this row context holds, or nothing of this scan *)
Definition Inv (g : glob) (cn : ctx) : Prop :=
  match c_memo cn with
  | Some (r, v) => g_cache g = Some ((fst (c_id cn), snd (c_id cn), r), v)
  | None => match g_cache g with
            | Some ((t, s, _), _) => (t, s) <> c_id cn
            | None => True
            end
  end.

Definition Rev (a b : ev) (g : glob) : Prop :=
  let '(v, co, l) := a in let '(v', cn, l') := b in
  v = v' /\ co = erase cn /\ l = l' /\ Inv g cn.

Fixpoint nosub (e : expr) : bool :=
  match e with
  | EIn _ _ _ _ => false
  | EYield a | EUnknown a | EEmpty a | ENullOdd a => nosub a
  | EAdd a b | ELt a b | EAnd a b => nosub a && nosub b
  | _ => true
  end.

Section Repair.
Variable fine : bool.
Variable rows : list posting.

Lemma ckey_eqb_spec : forall a b, ckey_eqb a b = true <-> a = b.
Proof.
  intros [[a1 a2] a3] [[b1 b2] b3]. unfold ckey_eqb.
  rewrite !andb_true_iff, !Z.eqb_eq. split.
  - intros [[? ?] ?]; subst; reflexivity.
  - intros H; inversion H; auto.
Qed.

Lemma sim_balance : forall cn l g, Inv g cn ->
  sim Rev g (eval_balance fine true (erase cn) l) (eval_balance fine false cn l).
Proof.
  intros cn l g HI. unfold sim, eval_balance, Inv in *.
  destruct cn as [[t s] rid bal memo post]. simpl in *.
  destruct memo as [[r v]|].
  - (* memo present: cache = Some ((t,s,r),v) *)
    destruct (r =? rid) eqn:Er.
    + apply Z.eqb_eq in Er. subst r.
      exists (Some v, erase (mkC (t, s) rid bal (Some (rid, v)) post), l), (Some v, mkC (t, s) rid bal (Some (rid, v)) post, l), g.
      repeat split; auto.
      destruct fine; simpl; rewrite HI; simpl; rewrite !Z.eqb_refl; reflexivity.
    + set (b := bal + p_number post).
      exists (Some b, erase (mkC (t, s) rid b (Some (rid, b)) post), l), (Some b, mkC (t, s) rid b (Some (rid, b)) post, l),
             (mkG (Some ((t, s, rid), b)) (g_stmts g) (g_reg g)).
      repeat split; auto.
      destruct fine; simpl; rewrite HI; simpl; rewrite !Z.eqb_refl, Er; reflexivity.
  - set (b := bal + p_number post).
    exists (Some b, erase (mkC (t, s) rid b (Some (rid, b)) post), l), (Some b, mkC (t, s) rid b (Some (rid, b)) post, l),
           (mkG (Some ((t, s, rid), b)) (g_stmts g) (g_reg g)).
    repeat split; auto.
    destruct (g_cache g) as [[[[t' s'] r'] v']|] eqn:Ec.
    + assert (En : ckey_eqb (t', s', r') (t, s, rid) = false).
      { destruct (ckey_eqb (t', s', r') (t, s, rid)) eqn:E; auto.
        apply ckey_eqb_spec in E. inversion E; subst. exfalso. apply HI. reflexivity. }
      destruct fine; simpl; rewrite Ec; rewrite En; reflexivity.
    + destruct fine; simpl; rewrite Ec; reflexivity.
Qed.

Lemma sim_ebin : forall op g ea ea' eb,
  sim Rev g ea ea' ->
  (forall cn l g1, Inv g1 cn -> sim Rev g1 (eb true (erase cn) l) (eb false cn l)) ->
  sim Rev g (ebin op ea (eb true)) (ebin op ea' (eb false)).
Proof.
  intros op g ea ea' eb Ha Hb. unfold ebin.
  eapply sim_bind; [exact Ha|].
  intros [[v co] l] [[v' cn] l'] g1 (Ev & Ec & El & HI). subst.
  destruct v'; [|apply sim_ret; simpl; auto].
  eapply sim_bind; [apply Hb; auto|].
  intros [[v co] l] [[v2 cn2] l2] g2 (Ev & Ec & El & HI2). subst.
  destruct v2; apply sim_ret; simpl; auto.
Qed.

Lemma sim_eval : forall e, nosub e = true -> forall cn l g, Inv g cn ->
  sim Rev g (eval fine true rows e (erase cn) l) (eval fine false rows e cn l).
Proof.
  induction e; intros Hn cn l g HI; simpl in *; try (apply sim_ret; simpl; auto; fail).
  - apply sim_balance; auto.
  - (* EYield *)
    eapply sim_bind; [apply IHe; auto|].
    intros [[v co] l1] [[v' cn'] l'] g1 (Ev & Ec & El & HI1). subst.
    destruct v'; [apply sim_yield|]; apply sim_ret; simpl; auto.
  - apply IHe; auto.
  - eapply sim_bind; [apply IHe; auto|].
    intros [[v co] l1] [[v' cn'] l'] g1 (Ev & Ec & El & HI1). subst. apply sim_ret; simpl; auto.
  - eapply sim_bind; [apply IHe; auto|].
    intros [[v co] l1] [[v' cn'] l'] g1 (Ev & Ec & El & HI1). subst. apply sim_ret; simpl; auto.
  - apply andb_true_iff in Hn as [H1 H2].
    apply (sim_ebin op_add g _ _ (fun cached => eval fine cached rows e2)); auto.
  - apply andb_true_iff in Hn as [H1 H2].
    apply (sim_ebin op_lt g _ _ (fun cached => eval fine cached rows e2)); auto.
  - (* EAnd *)
    apply andb_true_iff in Hn as [H1 H2].
    eapply sim_bind; [apply IHe1; auto|].
    intros [[v co] l1] [[v' cn'] l'] g1 (Ev & Ec & El & HI1). subst.
    destruct v'; [|apply sim_ret; simpl; auto].
    destruct (z =? 0); [apply sim_ret; simpl; auto|].
    eapply sim_bind; [apply IHe2; auto|].
    intros [[v co] l1] [[v2 cn2] l2] g2 (Ev & Ec & El & HI2). subst.
    destruct v2; apply sim_ret; simpl; auto.
  - discriminate.
Qed.

Definition Revs (a b : list value * ctx * lst) (g : glob) : Prop :=
  let '(v, co, l) := a in let '(v', cn, l') := b in
  v = v' /\ co = erase cn /\ l = l' /\ Inv g cn.

Lemma sim_evals : forall es, forallb nosub es = true -> forall cn l g, Inv g cn ->
  sim Revs g (evals fine true rows es (erase cn) l) (evals fine false rows es cn l).
Proof.
  induction es as [|e t IH]; intros Hn cn l g HI; simpl in *.
  - apply sim_ret; simpl; auto.
  - apply andb_true_iff in Hn as [H1 H2].
    eapply sim_bind; [apply sim_eval; auto|].
    intros [[v co] l1] [[v' cn'] l'] g1 (Ev & Ec & El & HI1). subst.
    eapply sim_bind; [apply IH; auto|].
    intros [[vs co] l1] [[vs' cn2] l2] g2 (Ev & Ec & El & HI2). subst.
    apply sim_ret; simpl; auto.
Qed.

Lemma erase_next_row : forall cn p, next_row (erase cn) p = erase (next_row cn p).
Proof. reflexivity. Qed.

Lemma Inv_next_row : forall g cn p, Inv g cn -> Inv g (next_row cn p).
Proof. intros. unfold Inv in *. simpl. exact H. Qed.

Definition Req {A} (a b : A) (g : glob) : Prop := a = b.

Lemma sim_select_loop : forall ts w, forallb nosub ts = true -> nosub w = true ->
  forall rs cn l acc g, Inv g cn ->
  sim Req g (select_loop fine true rows ts w rs (erase cn) l acc) (select_loop fine false rows ts w rs cn l acc).
Proof.
  intros ts w Ht Hw rs. induction rs as [|p rs IH]; intros cn l acc g HI; simpl.
  - apply sim_ret. reflexivity.
  - rewrite erase_next_row. apply sim_yield_if.
    eapply sim_bind; [apply sim_eval; auto; apply Inv_next_row; auto|].
    intros [[v co] l1] [[v' cn'] l'] g1 (Ev & Ec & El & HI1). subst.
    destruct (truthy v'); [|apply IH; auto].
    eapply sim_bind; [apply sim_evals; auto|].
    intros [[vs co] l1] [[vs' cn2] l2] g2 (Ev & Ec & El & HI2). subst. apply IH; auto.
Qed.

Definition Rst (a b : store * ctx * lst) (g : glob) : Prop :=
  let '(v, co, l) := a in let '(v', cn, l') := b in
  v = v' /\ co = erase cn /\ l = l' /\ Inv g cn.

Lemma sim_agg_update : forall aggs, forallb (fun fe => nosub (snd fe)) aggs = true ->
  forall st cn l g, Inv g cn ->
  sim Rst g (agg_update fine true rows aggs st (erase cn) l) (agg_update fine false rows aggs st cn l).
Proof.
  induction aggs as [|[f e] t IH]; intros Hn st cn l g HI; simpl in *.
  - apply sim_ret; simpl; auto.
  - apply andb_true_iff in Hn as [H1 H2]. simpl in H1.
    destruct st as [|s st']; [apply sim_ret; simpl; auto|].
    eapply sim_bind with (R := Rev).
    + destruct f.
      * eapply sim_bind; [apply sim_eval; auto|].
        intros [[v co] l1] [[v' cn'] l'] g1 (Ev & Ec & El & HI1). subst. apply sim_ret; simpl; auto.
      * eapply sim_bind; [apply sim_eval; auto|].
        intros [[v co] l1] [[v' cn'] l'] g1 (Ev & Ec & El & HI1). subst. apply sim_ret; simpl; auto.
      * destruct s; [apply sim_ret; simpl; auto|apply sim_eval; auto].
      * apply sim_eval; auto.
    + intros [[v co] l1] [[v' cn'] l'] g1 (Ev & Ec & El & HI1). subst.
      eapply sim_bind; [apply IH; auto|].
      intros [[vs co] l1] [[vs' cn2] l2] g2 (Ev & Ec & El & HI2). subst. apply sim_ret; simpl; auto.
Qed.

Lemma sim_agg_loop : forall key aggs w, nosub key = true -> forallb (fun fe => nosub (snd fe)) aggs = true ->
  nosub w = true -> forall rs cn l m g, Inv g cn ->
  sim Req g (agg_loop fine true rows key aggs w rs (erase cn) l m) (agg_loop fine false rows key aggs w rs cn l m).
Proof.
  intros key aggs w Hk Ha Hw rs. induction rs as [|p rs IH]; intros cn l m g HI; simpl.
  - apply sim_ret. reflexivity.
  - rewrite erase_next_row. apply sim_yield_if.
    eapply sim_bind; [apply sim_eval; auto; apply Inv_next_row; auto|].
    intros [[v co] l1] [[v' cn'] l'] g1 (Ev & Ec & El & HI1). subst.
    destruct (truthy v'); [|apply IH; auto].
    eapply sim_bind; [apply sim_eval; auto|].
    intros [[kv co] l1] [[kv' cn2] l2] g2 (Ev & Ec & El & HI2). subst.
    eapply sim_bind; [apply sim_agg_update; auto|].
    intros [[st co] l1] [[st' cn3] l3] g3 (Ev & Ec & El & HI3). subst. apply IH; auto.
Qed.

Definition nosub_query (q : query) : bool :=
  match q with
  | QSelect ts w => forallb nosub ts && nosub w
  | QAgg key aggs w => nosub key && forallb (fun fe => nosub (snd fe)) aggs && nosub w
  end.

(* no entry of a scan of thread [tid] is in the cache *)
Definition cache_foreign (tid : Z) (g : glob) : Prop :=
  match g_cache g with Some ((t, _, _), _) => t <> tid | None => True end.

Theorem repair_preserves_serial : forall tid q g g',
  nosub_query q = true -> cache_foreign tid g ->
  fst (to_end (exec fine true rows tid q) g) = fst (to_end (exec fine false rows tid q) g').
Proof.
  intros tid q g g' Hn Hc.
  set (cn := mkC (tid, 0) 0 0 None (mkP 0 0 0)).
  assert (HI : Inv g cn).
  { unfold Inv, cache_foreign in *. simpl. destruct (g_cache g) as [[[[t s] r] v]|]; auto.
    intros E. inversion E. auto. }
  unfold exec. simpl.
  destruct q as [ts w|key aggs w]; simpl in Hn.
  - apply andb_true_iff in Hn as [H1 H2].
    destruct (sim_select_loop ts w H1 H2 rows cn (mkL tid (0 + 1) []) [] g HI) as (a & b & g1 & Ho & Hnw & Hr).
    red in Hr. subst b. unfold erase, cn in Ho. simpl in Ho.
    rewrite !to_end_bind. rewrite Ho. specialize (Hnw g'). unfold cn in Hnw.
    destruct (to_end (select_loop fine false rows ts w rows _ _ _) g'). simpl in *. subst. reflexivity.
  - apply andb_true_iff in Hn as [H12 H3]. apply andb_true_iff in H12 as [H1 H2].
    destruct (sim_agg_loop key aggs w H1 H2 H3 rows cn (mkL tid (0 + 1) []) [] g HI) as (a & b & g1 & Ho & Hnw & Hr).
    red in Hr. subst b. unfold erase, cn in Ho. simpl in Ho.
    rewrite !to_end_bind. rewrite Ho. specialize (Hnw g'). unfold cn in Hnw.
    destruct (to_end (agg_loop fine false rows key aggs w rows _ _ _) g'). simpl in *. subst. reflexivity.
Qed.
End Repair.

(* ------------------------------------------------------------------ *)
(* Keyed cells: the scheduler theorem for [kcomp] and the two thread shapes. *)

Inductive kprivate {A} : kcomp A -> Prop :=
| kpr_ret : forall a, kprivate (KRet a)
| kpr_yield : forall k, kprivate k -> kprivate (KYield k).

Lemma kprivate_bind : forall A B (c : kcomp A) (f : A -> kcomp B),
  kprivate c -> (forall a, kprivate (f a)) -> kprivate (kbind c f).
Proof. intros A B c f H Hf. induction H; simpl; auto. constructor; auto. Qed.

Lemma kto_yield_private : forall A (c : kcomp A) s, kprivate c ->
  snd (kto_yield c s) = s /\ kprivate (fst (kto_yield c s)) /\
  kto_end (fst (kto_yield c s)) s = kto_end c s.
Proof.
  intros A c s H. induction H; simpl.
  - repeat split. constructor.
  - repeat split. auto.
Qed.

Lemma kto_end_private : forall A (c : kcomp A) s, kprivate c -> snd (kto_end c s) = s.
Proof. intros A c s H. induction H; simpl; auto. Qed.

Lemma kto_end_private_any : forall A (c : kcomp A) s s', kprivate c -> fst (kto_end c s) = fst (kto_end c s').
Proof. intros A c s s' H. induction H; simpl; auto. Qed.

Lemma kdrain_private : forall A (ts : list (kcomp A)) s, Forall kprivate ts ->
  kdrain ts s = (map (fun c => fst (kto_end c s)) ts, s).
Proof.
  intros A ts s H. induction H; simpl; auto.
  pose proof (kto_end_private _ x s H) as E.
  destruct (kto_end x s) as [a s1] eqn:Ex. simpl in E. subst s1.
  rewrite IHForall. reflexivity.
Qed.

Lemma kstep_private : forall A (st : kstate A) i, Forall kprivate (fst st) ->
  Forall kprivate (fst (kstep st i)) /\ snd (kstep st i) = snd st /\
  map (fun c => fst (kto_end c (snd st))) (fst (kstep st i)) = map (fun c => fst (kto_end c (snd st))) (fst st).
Proof.
  intros A [ts s] i H. unfold kstep. simpl in *.
  destruct (nth_error ts i) as [c|] eqn:En; simpl; auto.
  assert (Hc : kprivate c).
  { rewrite Forall_forall in H. apply H. eapply nth_error_In; eauto. }
  destruct (kto_yield_private _ c s Hc) as (Hg & Hp & He).
  destruct (kto_yield c s) as [c' s'] eqn:Ey. simpl in *. subst s'.
  repeat split.
  - apply Forall_set_nth; auto.
  - eapply map_set_nth; eauto. rewrite He. reflexivity.
Qed.

Lemma kfold_step_private : forall A sched (st : kstate A), Forall kprivate (fst st) ->
  let st' := fold_left kstep sched st in
  Forall kprivate (fst st') /\ snd st' = snd st /\
  map (fun c => fst (kto_end c (snd st))) (fst st') = map (fun c => fst (kto_end c (snd st))) (fst st).
Proof.
  intros A sched. induction sched as [|i s IH]; intros st H; simpl; auto.
  destruct (kstep_private _ st i H) as (Hp & Hg & Hm).
  destruct (IH (kstep st i) Hp) as (Hp' & Hg' & Hm').
  repeat split; auto.
  - congruence.
  - rewrite Hg in Hm'. rewrite Hm'. exact Hm.
Qed.

Theorem kisolation_sched : forall A (ts : list (kcomp A)) s sched,
  Forall kprivate ts -> krun_state sched (ts, s) = krun_state [] (ts, s).
Proof.
  intros A ts s sched H. unfold krun_state.
  destruct (kfold_step_private _ sched (ts, s) H) as (Hp & Hg & Hm).
  simpl in *. rewrite Hg.
  rewrite (kdrain_private _ _ s Hp), (kdrain_private _ ts s H). rewrite Hm. reflexivity.
Qed.

Lemma ns_bind_private : forall own refs, kprivate (ns_bind false own refs).
Proof.
  intros own refs. induction refs as [|r t IH]; simpl.
  - constructor.
  - apply kprivate_bind; auto. intros; constructor.
Qed.

Lemma ns_thread_private : forall q, kprivate (ns_thread false q).
Proof.
  intros q. unfold ns_thread. simpl.
  apply kprivate_bind. apply ns_bind_private.
  intros a. constructor. apply kprivate_bind. apply ns_bind_private. intros; constructor.
Qed.

Lemma agg_read_private : forall own n j, kprivate (agg_read false own j n).
Proof.
  intros own n. induction n as [|m IH]; intros j; simpl.
  - constructor.
  - constructor. apply kprivate_bind; auto. intros; constructor.
Qed.

Lemma agg_emit_private : forall groups, kprivate (agg_emit false groups).
Proof.
  intros groups. induction groups as [|g t IH]; simpl.
  - constructor.
  - apply kprivate_bind. apply agg_read_private.
    intros row. apply kprivate_bind; auto. intros; constructor.
Qed.

Lemma Forall_map_private : forall X A (f : X -> kcomp A) l, (forall x, kprivate (f x)) -> Forall kprivate (map f l).
Proof. intros X A f l H. induction l; simpl; constructor; auto. Qed.

(* With an empty inventory both containers are private to one compilation / execution and every
   schedule gives the serial results. *)
Theorem keyed_cells_isolation : forall (cells : list cell_id) (sched : list nat)
    (qs : list ns_stmt) (gs : list (list (list Z))),
  cells = [] ->
  krun sched (map (ns_thread (keyed_cells_shared cells)) qs) = kserial (map (ns_thread (keyed_cells_shared cells)) qs) /\
  krun sched (map (agg_emit (keyed_cells_shared cells)) gs) = kserial (map (agg_emit (keyed_cells_shared cells)) gs).
Proof.
  intros cells sched qs gs ->. unfold krun, kserial, krun. simpl. split.
  - rewrite (kisolation_sched _ _ [] sched); auto. apply Forall_map_private. apply ns_thread_private.
  - rewrite (kisolation_sched _ _ [] sched); auto. apply Forall_map_private. apply agg_emit_private.
Qed.
