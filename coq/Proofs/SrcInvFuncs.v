(* C12 -- the BQL functions only() / empty() / filter_currency() over inventories.
   Part 1: specification lemmas for the model functions Model/Inventory.v gained for them (get_currency_units, is_empty,
   from_entries, inventory_filter_currency): what they are on well-formed inventories, and that only() is a homomorphism
   (the total of a currency over a sum of positions is the sum of the positions' numbers in that currency).
   Part 2: tie by translation - the PyMini terms generated from the SOURCE of query_env.only_inventory, empty_inventory,
   filter_currency_inventory (the envlx_ terms of Gen/SrcEnvLedger.v) compute these model functions, for every inventory and
   currency, under the primitives of Model/PrimsInvFuncs.v. *)
From Coq Require Import String ZArith List Bool Lia Permutation.
Import ListNotations.
From Verif Require Import Base.PyValue Model.Eval Model.PyMini Model.PrimsLedger Model.PrimsAggInv Model.PrimsInvFuncs
  Model.Inventory Model.Balance Proofs.InventoryProofs Gen.SrcEnvLedger Proofs.PyValueProofs Proofs.PyMiniLemmas
  Proofs.PyMiniLemmas2.
Open Scope list_scope.
Open Scope Z_scope.

(* ================================================================== part 1: the model functions *)
Definition in_currency (c : currency) (k : key) (n : Z) : Z := if fst k =? c then n else 0.

Lemma in_currency_additive c : additive (in_currency c).
Proof. intros k n m. unfold in_currency. destruct (fst k =? c); lia. Qed.

Lemma fold_currency_units c : forall (inv : inventory) tot,
  fold_left (fun tot (e : entry) => if fst (fst e) =? c then tot + snd e else tot) inv tot
  = tot + esum (in_currency c) inv.
Proof.
  unfold esum, in_currency. induction inv as [|e t IH]; intros tot; cbn [fold_left zsum fold_right]; [lia|].
  rewrite IH. unfold zsum. destruct (fst (fst e) =? c); lia.
Qed.

(* get_currency_units: the numbers of the entries in that currency added up; the Amount carries the currency *)
Lemma get_currency_units_spec inv c : get_currency_units inv c = (esum (in_currency c) inv, c).
Proof. unfold get_currency_units. rewrite fold_currency_units. reflexivity. Qed.

Lemma is_empty_spec inv : is_empty inv = true <-> inv = [].
Proof. destruct inv; cbn; split; congruence. Qed.

(* only() is additive: adding an amount / a position changes the total of currency c by the number iff it is in c *)
Lemma only_add_amount inv a cost c : wf inv ->
  fst (inventory_only c (add_amount inv a cost)) = fst (inventory_only c inv) + (if snd a =? c then fst a else 0).
Proof.
  intros [ND _]. unfold inventory_only. rewrite !get_currency_units_spec. cbn [fst].
  rewrite esum_add_amount by (try apply in_currency_additive; exact ND). reflexivity.
Qed.

Lemma only_add_position inv p c : wf inv ->
  fst (inventory_only c (add_position inv p)) = fst (inventory_only c inv) + (if pcur p =? c then pnum p else 0).
Proof. intros H. unfold add_position. rewrite only_add_amount by exact H. reflexivity. Qed.

(* only(c, sum(position)) = the sum of the numbers of the positions held in c *)
Lemma only_sum_pos c : forall l,
  inventory_only c (sum_pos l) = (zsum (fun p => if pcur p =? c then pnum p else 0) l, c).
Proof.
  intros l. unfold inventory_only. rewrite get_currency_units_spec. f_equal.
  unfold sum_pos.
  assert (G : forall l acc, wf acc ->
            esum (in_currency c) (fold_left add_position l acc)
            = esum (in_currency c) acc + zsum (fun p => if pcur p =? c then pnum p else 0) l).
  { clear l. induction l as [|p t IH]; intros acc Hacc; cbn [fold_left zsum fold_right]; [lia|].
    rewrite IH by (apply wf_add_position; exact Hacc).
    pose proof (only_add_position acc p c Hacc) as E. unfold inventory_only in E.
    rewrite !get_currency_units_spec in E. cbn [fst] in E. rewrite E. unfold zsum. lia. }
  rewrite G by apply wf_nil. reflexivity.
Qed.

(* empty(sum) : an inventory built by the aggregators is empty iff every key nets to zero *)
Lemma is_empty_lookup inv : wf inv -> (is_empty inv = true <-> forall k, lookup inv k = 0).
Proof.
  intros [ND NZ]. split.
  - intros H k. apply is_empty_spec in H. subst. reflexivity.
  - intros H. destruct inv as [|[k n] t]; [reflexivity|]. exfalso.
    specialize (H k). unfold lookup in H. cbn [find] in H. rewrite key_eqb_refl in H.
    inversion NZ; subst. cbn in *. congruence.
Qed.

(* Inventory(positions) on positions that are pairwise of different lots and non-zero rebuilds exactly that list *)
Lemma add_entry_fresh acc (e : entry) : ~ In (fst e) (keys acc) -> snd e <> 0 -> add_entry acc e = acc ++ [e].
Proof.
  intros NI NZ. destruct e as [[c k] n]. cbn [fst snd] in *.
  unfold add_entry, add_position, add_amount, add_amount_full, punits, epos. cbn [pnum pcur pcost fst snd].
  rewrite (notin_find_none _ _ NI). apply Z.eqb_neq in NZ. rewrite NZ. reflexivity.
Qed.

Lemma fold_add_entry_wf : forall l acc, wf (acc ++ l) -> fold_left add_entry l acc = acc ++ l.
Proof.
  induction l as [|e t IH]; intros acc H; cbn [fold_left]; [rewrite app_nil_r; reflexivity|].
  destruct H as [ND NZ].
  assert (NI : ~ In (fst e) (keys acc)).
  { unfold keys in *. rewrite map_app in ND. cbn [map] in ND. apply NoDup_remove_2 in ND.
    intro HI. apply ND. apply in_or_app. left. exact HI. }
  assert (Z0 : snd e <> 0).
  { apply Forall_app in NZ. destruct NZ as [_ NZ]. inversion NZ; assumption. }
  rewrite add_entry_fresh by assumption.
  rewrite IH; [rewrite <- app_assoc; reflexivity|].
  rewrite <- app_assoc. split; assumption.
Qed.

Lemma from_entries_wf l : wf l -> from_entries l = l.
Proof. intros H. unfold from_entries. rewrite fold_add_entry_wf; [reflexivity|exact H]. Qed.

Lemma wf_filter (f : entry -> bool) inv : wf inv -> wf (filter f inv).
Proof.
  intros [ND NZ]. split.
  - unfold keys in *. induction inv as [|e t IH]; cbn [filter map]; [constructor|].
    inversion ND; subst. inversion NZ; subst.
    destruct (f e); cbn [map]; [constructor|]; auto.
    intro HI. apply H1. apply in_map_iff in HI. destruct HI as [x [E HI]]. apply filter_In in HI.
    apply in_map_iff. exists x. tauto.
  - apply Forall_forall. intros x HI. apply filter_In in HI. rewrite Forall_forall in NZ. apply NZ. tauto.
Qed.

(* filter_currency(inv, c) on a well-formed inventory: exactly its positions in currency c, in the same order *)
Lemma inventory_filter_currency_wf inv c : wf inv ->
  inventory_filter_currency inv c = filter (fun e : entry => fst (fst e) =? c) inv.
Proof. intros H. unfold inventory_filter_currency. apply from_entries_wf. apply wf_filter. exact H. Qed.

Lemma wf_inventory_filter_currency inv c : wf (inventory_filter_currency inv c).
Proof. unfold inventory_filter_currency, from_entries. apply wf_fold_add_entry. apply wf_nil. Qed.

Lemma find_filter_key (g : key -> bool) k : forall inv : inventory,
  find k (filter (fun e : entry => g (fst e)) inv) = if g k then find k inv else None.
Proof.
  induction inv as [|[k0 n0] t IH]; cbn [filter find fst]; [destruct (g k); reflexivity|].
  destruct (g k0) eqn:G0; cbn [find]; destruct (key_eqP k0 k) as [->|N]; try rewrite G0; try exact IH; try reflexivity.
  rewrite IH, G0. reflexivity.
Qed.

(* as a finite map: the numbers of the keys in currency c, nothing elsewhere *)
Lemma lookup_inventory_filter_currency inv c k : wf inv ->
  lookup (inventory_filter_currency inv c) k = if fst k =? c then lookup inv k else 0.
Proof.
  intros H. rewrite inventory_filter_currency_wf by exact H. unfold lookup.
  rewrite (find_filter_key (fun k => fst k =? c)). destruct (fst k =? c); reflexivity.
Qed.

(* ================================================================== part 2: the tie *)
Open Scope string_scope.
Open Scope Z_scope.
Local Arguments val_eq : simpl never.
Local Arguments Inv.enc_inv : simpl never.
Local Arguments Inv.dec_inv : simpl never.

Lemma val_eq_int a b : val_eq (VInt a) (VInt b) = (a =? b).
Proof.
  unfold val_eq, StableSort.eqv. rewrite !val_le_int.
  destruct (a =? b) eqn:E; [apply Z.eqb_eq in E; subst; rewrite Z.leb_refl; reflexivity|].
  apply Z.eqb_neq in E. destruct (a <=? b) eqn:E1; destruct (b <=? a) eqn:E2; try reflexivity.
  apply Z.leb_le in E1, E2. lia.
Qed.

Lemma dec_enc_ocost c : Inv.dec_ocost (Inv.enc_ocost c) = Some c.
Proof. destruct c as [[n cu d [l|]]|]; reflexivity. Qed.
Lemma dec_enc_entry e : Inv.dec_entry (Inv.enc_entry e) = Some e.
Proof.
  destruct e as [[c k] n]. unfold Inv.enc_entry, Inv.dec_entry. cbn [fst snd PInt].
  rewrite dec_enc_ocost. reflexivity.
Qed.
Lemma dec_enc_entries i : Inv.dec_entries (map Inv.enc_entry i) = Some i.
Proof. induction i as [|e t IH]; [reflexivity|]. cbn [map Inv.dec_entries]. rewrite dec_enc_entry, IH. reflexivity. Qed.
Lemma dec_enc_inv i : Inv.dec_inv (Inv.enc_inv i) = Some i.
Proof. unfold Inv.dec_inv, Inv.enc_inv. apply dec_enc_entries. Qed.

Section Tie.
Variable call_ref : nat -> list pv -> pv.
Notation callf := (call_function call_ref prim_invfuncs).

(* only(currency, inventory) = inventory.get_currency_units(currency) *)
Theorem only_inventory_src : forall (c : currency) (i : inventory),
  callf envlx_only_inventory [PInt c; Inv.enc_inv i] = Ok (enc_amt (inventory_only c i)).
Proof.
  intros c i. unfold call_function. cbn. unfold prim_invfuncs. cbn [String.eqb Ascii.eqb Bool.eqb].
  rewrite dec_enc_inv. reflexivity.
Qed.

(* empty(inventory) = inventory.is_empty() *)
Theorem empty_inventory_src : forall (i : inventory),
  callf envlx_empty_inventory [Inv.enc_inv i] = Ok (PBool (inventory_empty i)).
Proof.
  intros i. unfold call_function. cbn. unfold prim_invfuncs. cbn [String.eqb Ascii.eqb Bool.eqb].
  rewrite dec_enc_inv. reflexivity.
Qed.

(* filter_currency(inv, currency) = Inventory(pos for pos in inv if pos.units.currency == currency) *)
Theorem filter_currency_inventory_src : forall (i : inventory) (c : currency),
  callf envlx_filter_currency_inventory [Inv.enc_inv i; PInt c] = Ok (Inv.enc_inv (inventory_filter_currency i c)).
Proof.
  intros i c. unfold call_function. cbn [bind_params envlx_filter_currency_inventory f_params f_body f_gen exec_block exec].
  set (s0 := {| locals := [("inv", Inv.enc_inv i); ("currency", PInt c)]; fields := [] |}).
  cbn [PyMini.eval].
  assert (Hit : PyMini.eval call_ref prim_invfuncs s0 (XName "inv") = Ok (s0, PList (map Inv.enc_entry i))) by reflexivity.
  pose proof (eval_listcomp_cond call_ref prim_invfuncs (XName "pos") "pos" (XName "inv")
                (XCompare (XAttr (XAttr (XName "pos") "units") "currency") [(CEq, XName "currency")])
                s0 s0 (map Inv.enc_entry i) Hit) as HL.
  cbn [PyMini.eval] in HL. rewrite HL. clear HL.
  rewrite (comp_res_filter Inv.enc_entry _ (fun e : entry => fst (fst e) =? c) Inv.enc_entry).
  - cbn [bind]. unfold prim_invfuncs at 1. cbn [String.eqb Ascii.eqb Bool.eqb]. cbn.
    rewrite dec_enc_entries. reflexivity.
  - intros e _. unfold comp_item. destruct e as [[cu k] n]. cbn [fst snd].
    cbn. rewrite dec_enc_ocost. cbn. rewrite val_eq_int. destruct (cu =? c); reflexivity.
Qed.
End Tie.
