(* Tie by translation: the PyMini terms generated from the SOURCE of the __call__ methods of beanquery's evaluation
   nodes (query_compile.EvalUnaryOp, EvalUnaryOpSafe, EvalBinaryOp, EvalBetween, EvalAnd, EvalOr, EvalCoalesce,
   EvalConstant) and of the NULL-strict wrapper query_env.function() puts around every scalar function compute,
   for every operand list and every operand value, what the corresponding clause of Model/Eval.v's [eval] computes.

   Children and operators are opaque callables: a child node a is a reference k with
   call_ref k [context] = mev a (hypothesis [child]); operand values are not exceptions (that is C04's
   theorem for well-typed queries); an operator's result may be an exception value and is then raised. *)
From Coq Require Import String ZArith List Bool Lia.
Import ListNotations.
From Verif Require Import Base.PyValue Model.Eval Model.PyMini Gen.SrcEval Proofs.PyMiniLemmas Proofs.EvalProofs.
Open Scope string_scope.
Open Scope Z_scope.

Local Arguments val_le : simpl never.
Local Arguments val_eq : simpl never.

Definition is_err (v : value) : bool := match v with VErr _ => true | _ => false end.

Section Tie.
Variable call_ref : nat -> list pv -> pv.
Variable prim : string -> list pv -> res pv.
Variable ctx : pv.              (* the row context handed down unchanged *)
Variable r : row.
Variable st : list value.
Notation mev := (Verif.Model.Eval.eval r st).

(* reference k behaves as child node a on this row *)
Definition child (k : nat) (a : enode) : Prop :=
  call_ref k [ctx] = PV (mev a) /\ is_err (mev a) = false.

(* what a node call must produce for model value v: v itself, raised if it is an exception value *)
Definition expect (flds : env) (v : value) : res (env * pv) :=
  match v with VErr k => Exc k | _ => Ok (flds, PV v) end.

Lemma do_call_child k a : child k a -> do_call call_ref (PRef k) [ctx] = Ok (PV (mev a)).
Proof. intros [H E]. cbn. rewrite H. destruct (mev a); try reflexivity; discriminate. Qed.

Lemma do_call_value k args v : call_ref k args = PV v -> do_call call_ref (PRef k) args =
  match v with VErr e => Exc e | _ => Ok (PV v) end.
Proof. intros H. cbn. rewrite H. destruct v; reflexivity. Qed.

Ltac child_call H :=
  let E := fresh "E" in
  pose proof (do_call_child _ _ H) as E; cbn in E; cbn; rewrite ?E; clear E.

(* ---------------------------------------------------------------- unary *)
Theorem node_unary_src : forall op k kop a,
  op = UNot \/ op = UIsNull \/ op = UIsNotNull ->
  child k a -> (forall x, call_ref kop [PV x] = PV (un op x)) ->
  let flds := [("operand", PRef k); ("operator", PRef kop)] in
  call_method call_ref prim node_unary flds [ctx] = expect flds (mev (EUnary op a)).
Proof.
  intros op k kop a Hop Hc Hk flds. destruct Hc as [Hc He].
  cbn. rewrite Hc. destruct (mev a) eqn:Ev; try discriminate;
    cbn; rewrite Hk; destruct Hop as [->|[->| ->]]; reflexivity.
Qed.

Theorem node_unary_safe_src : forall k kop a,
  child k a -> (forall x, is_null x = false -> call_ref kop [PV x] = PV (un UNeg x)) ->
  let flds := [("operand", PRef k); ("operator", PRef kop)] in
  call_method call_ref prim node_unary_safe flds [ctx] = expect flds (mev (EUnary UNeg a)).
Proof.
  intros k kop a [Hc He] Hk flds.
  cbn. rewrite Hc. destruct (mev a) eqn:Ev; try discriminate; try reflexivity;
    cbn; rewrite Hk by reflexivity; cbn; try reflexivity;
    match goal with |- context [if ?b then _ else _] => destruct b end; reflexivity.
Qed.

(* ---------------------------------------------------------------- binary *)
Theorem node_binary_src : forall op ka kb kop a b,
  child ka a -> child kb b ->
  (forall x y, is_null x = false -> is_null y = false -> call_ref kop [PV x; PV y] = PV (bin op x y)) ->
  let flds := [("left", PRef ka); ("right", PRef kb); ("operator", PRef kop)] in
  call_method call_ref prim node_binary flds [ctx] = expect flds (mev (EBinary op a b)).
Proof.
  intros op ka kb kop a b [Ha Ea] [Hb Eb] Hk flds.
  cbn. rewrite Ha.
  destruct (mev a) eqn:Eva; try discriminate; try reflexivity;
    cbn; rewrite Hb;
    destruct (mev b) eqn:Evb; try discriminate; try reflexivity;
    cbn; rewrite Hk by reflexivity;
    match goal with |- context [bin op ?x ?y] => destruct (bin op x y) end; reflexivity.
Qed.

(* ---------------------------------------------------------------- BETWEEN: lower <= operand <= upper *)
Theorem node_between_src : forall k kl kh a lo hi,
  child k a -> child kl lo -> child kh hi ->
  (* the three operands are comparable (same kind), as the overload table guarantees *)
  (is_null (mev a) = false -> is_null (mev lo) = false -> is_null (mev hi) = false ->
   rank (mev lo) = rank (mev a) /\ rank (mev a) = rank (mev hi)) ->
  let flds := [("operand", PRef k); ("lower", PRef kl); ("upper", PRef kh)] in
  call_method call_ref prim node_between flds [ctx] = expect flds (mev (EBetween a lo hi)).
Proof.
  intros k kl kh a lo hi [Ha Ea] [Hl El] [Hh Eh] Hr flds.
  cbn. rewrite Ha.
  destruct (mev a) eqn:Eva; try discriminate; try reflexivity;
    cbn; rewrite Hl;
    destruct (mev lo) eqn:Evl; try discriminate; try reflexivity;
    cbn; rewrite Hh;
    destruct (mev hi) eqn:Evh; try discriminate; try reflexivity;
    cbn; cbn in Hr; destruct (Hr eq_refl eq_refl eq_refl) as [R1 R2]; try discriminate;
    repeat match goal with |- context [val_le ?x ?y] => destruct (val_le x y) eqn:? end; reflexivity.
Qed.

(* ---------------------------------------------------------------- AND / OR / COALESCE *)
Definition children (ks : list nat) (args : list enode) : Prop := Forall2 child ks args.

Definition loc0 : env := [("self", PSelf); ("context", ctx)].

Ltac step_env :=
  repeat (rewrite ?lookup_update_eq;
          rewrite ?lookup_update_neq by reflexivity).
Ltac py_step :=
  repeat (progress (cbn [PyMini.exec PyMini.exec_block PyMini.eval bind read write locals fields]; step_env)).

Definition and_body : list stmt :=
  [SAssign (TName "value") (XCall (XName "arg") [XName "context"] None);
   SIf (XCompare (XName "value") [(CIs, XConst PNone)]) [SReturn (Some (XConst PNone))] [];
   SIf (XNot (XName "value")) [SReturn (Some (XConst (PBool false)))] []].

(* one iteration of a loop body that starts with  value = arg(context) *)
Lemma value_of_arg : forall k a loc flds,
  child k a -> lookup "context" loc = Some ctx ->
  let s := write {| locals := loc; fields := flds |} (TName "arg") (PRef k) in
  PyMini.exec call_ref prim s (SAssign (TName "value") (XCall (XName "arg") [XName "context"] None)) =
  Ok (Next (write s (TName "value") (PV (mev a)))).
Proof.
  intros k a loc flds Hc Hctx s. pose proof (do_call_child _ _ Hc) as E.
  unfold s. py_step. rewrite Hctx. py_step. rewrite E. reflexivity.
Qed.

Lemma and_loop : forall ks args, children ks args -> forall flds loc,
  lookup "context" loc = Some ctx ->
  exists loc',
  for_loop call_ref prim and_body "arg" {| locals := loc; fields := flds |} (map PRef ks) =
  Ok (match find (fun v => is_null v || negb (truthy v)) (map mev args) with
      | None => Next {| locals := loc'; fields := flds |}
      | Some v => Ret {| locals := loc'; fields := flds |} (PV (if is_null v then VNull else VBool false))
      end).
Proof.
  induction 1 as [|k a ks args Hc Hcs IH]; intros flds loc Hctx.
  - exists loc. reflexivity.
  - cbn [map for_loop find]. unfold and_body at 1. cbn [PyMini.exec_block].
    rewrite (value_of_arg k a loc flds Hc Hctx). cbn [bind].
    destruct Hc as [_ He].
    set (loc2 := update "value" (PV (mev a)) (update "arg" (PRef k) loc)).
    assert (Hv : lookup "value" loc2 = Some (PV (mev a))) by apply lookup_update_eq.
    assert (Hc2 : lookup "context" loc2 = Some ctx).
    { unfold loc2. step_env. exact Hctx. }
    cbn [write locals fields]. fold loc2. clearbody loc2.
    destruct (mev a) eqn:Ev; try discriminate;
      repeat (cbn -[for_loop and_body find]; rewrite ?Hv);
      try (eexists; reflexivity);
      cbn [find is_null truthy orb negb];
      try match goal with |- context [negb ?c] => destruct c eqn:? end;
      cbn -[for_loop and_body find]; try (eexists; reflexivity); try (apply IH; exact Hc2).
Qed.

Lemma children_args_list ks args : children ks args -> length ks = length args.
Proof. induction 1; cbn; congruence. Qed.

Theorem node_and_src : forall ks args,
  children ks args ->
  let flds := [("args", PList (map PRef ks))] in
  call_method call_ref prim node_and flds [ctx] = Ok (flds, PV (mev (EAnd args))).
Proof.
  intros ks args Hc flds. rewrite and_table. unfold and_spec.
  unfold call_method, node_and. cbn [f_params f_body bind_params PyMini.exec_block].
  rewrite (exec_for call_ref prim "arg" _ _ _ {| locals := [("self", PSelf); ("context", ctx)]; fields := flds |}
             (map PRef ks)) by reflexivity.
  fold and_body.
  destruct (and_loop ks args Hc flds [("self", PSelf); ("context", ctx)] eq_refl) as [loc' E].
  rewrite E. destruct (find _ _); reflexivity.
Qed.

(* ---- OR: r = False; for arg: value = arg(ctx); if value is None: r = None; if value: return True; return r *)
Definition or_body : list stmt :=
  [SAssign (TName "value") (XCall (XName "arg") [XName "context"] None);
   SIf (XCompare (XName "value") [(CIs, XConst PNone)]) [SAssign (TName "r") (XConst PNone)] [];
   SIf (XName "value") [SReturn (Some (XConst (PBool true)))] []].

Lemma or_loop : forall ks args, children ks args -> forall flds loc acc,
  lookup "context" loc = Some ctx -> lookup "r" loc = Some (PV acc) ->
  exists loc',
  for_loop call_ref prim or_body "arg" {| locals := loc; fields := flds |} (map PRef ks) =
  Ok (if existsb truthy (map mev args)
      then Ret {| locals := loc'; fields := flds |} (PBool true)
      else Next {| locals := loc'; fields := flds |}) /\
  (existsb truthy (map mev args) = false ->
   lookup "r" loc' = Some (PV (if existsb is_null (map mev args) then VNull else acc))).
Proof.
  induction 1 as [|k a ks args Hc Hcs IH]; intros flds loc acc Hctx Hr.
  - exists loc. split; [reflexivity|intros _; exact Hr].
  - cbn [map for_loop existsb]. unfold or_body at 1. cbn [PyMini.exec_block].
    rewrite (value_of_arg k a loc flds Hc Hctx). cbn [bind].
    destruct Hc as [_ He].
    set (loc2 := update "value" (PV (mev a)) (update "arg" (PRef k) loc)).
    assert (Hv : lookup "value" loc2 = Some (PV (mev a))) by apply lookup_update_eq.
    assert (Hc2 : lookup "context" loc2 = Some ctx) by (unfold loc2; step_env; exact Hctx).
    assert (Hr2 : lookup "r" loc2 = Some (PV acc)) by (unfold loc2; step_env; exact Hr).
    cbn [write locals fields]. fold loc2. clearbody loc2.
    destruct (mev a) eqn:Ev; try discriminate.
    + (* NULL: r = None, not truthy *)
      repeat (cbn -[for_loop or_body existsb]; rewrite ?Hv).
      set (loc3 := update "r" PNone loc2).
      assert (Hv3 : lookup "value" loc3 = Some (PV VNull)) by (unfold loc3; step_env; exact Hv).
      assert (Hc3 : lookup "context" loc3 = Some ctx) by (unfold loc3; step_env; exact Hc2).
      assert (Hr3 : lookup "r" loc3 = Some (PV VNull)) by (unfold loc3; apply lookup_update_eq).
      clearbody loc3. rewrite Hv3. cbn -[for_loop or_body existsb].
      destruct (IH flds loc3 VNull Hc3 Hr3) as [loc' [E R]]. exists loc'. split; [exact E|].
      intros H. rewrite (R H). cbn [is_null orb]. destruct (existsb is_null (map mev args)); reflexivity.
    + repeat (cbn -[for_loop or_body existsb]; rewrite ?Hv). destruct b.
      * eexists. split; [reflexivity|discriminate].
      * cbn -[for_loop or_body existsb]. destruct (IH flds loc2 acc Hc2 Hr2) as [loc' [E R]]. exists loc'.
        split; [exact E|exact R].
    + repeat (cbn -[for_loop or_body existsb]; rewrite ?Hv). destruct (z =? 0)%Z eqn:Z0; cbn -[for_loop or_body existsb].
      * destruct (IH flds loc2 acc Hc2 Hr2) as [loc' [E R]]. exists loc'. split; [exact E|exact R].
      * eexists. split; [reflexivity|discriminate].
    + repeat (cbn -[for_loop or_body existsb]; rewrite ?Hv). destruct (dcoef d =? 0)%Z eqn:Z0; cbn -[for_loop or_body existsb].
      * destruct (IH flds loc2 acc Hc2 Hr2) as [loc' [E R]]. exists loc'. split; [exact E|exact R].
      * eexists. split; [reflexivity|discriminate].
    + repeat (cbn -[for_loop or_body existsb]; rewrite ?Hv). destruct s as [|c s']; cbn -[for_loop or_body existsb].
      * destruct (IH flds loc2 acc Hc2 Hr2) as [loc' [E R]]. exists loc'. split; [exact E|exact R].
      * eexists. split; [reflexivity|discriminate].
    + repeat (cbn -[for_loop or_body existsb]; rewrite ?Hv).
      eexists. split; [reflexivity|discriminate].
Qed.

Theorem node_or_src : forall ks args,
  children ks args ->
  let flds := [("args", PList (map PRef ks))] in
  call_method call_ref prim node_or flds [ctx] = Ok (flds, PV (mev (EOr args))).
Proof.
  intros ks args Hc flds. rewrite or_table. unfold or_spec.
  unfold call_method, node_or. cbn [f_params f_body bind_params PyMini.exec_block].
  change (PyMini.exec call_ref prim {| locals := [("self", PSelf); ("context", ctx)]; fields := flds |}
            (SAssign (TName "r") (XConst (PBool false))))
    with (Ok (Next {| locals := [("self", PSelf); ("context", ctx); ("r", PBool false)]; fields := flds |})).
  cbn [bind].
  rewrite (exec_for call_ref prim "arg" _ _ _
             {| locals := [("self", PSelf); ("context", ctx); ("r", PBool false)]; fields := flds |}
             (map PRef ks)) by reflexivity.
  fold or_body.
  destruct (or_loop ks args Hc flds [("self", PSelf); ("context", ctx); ("r", PBool false)] (VBool false)
              eq_refl eq_refl) as [loc' [E R]].
  rewrite E. destruct (existsb truthy (map mev args)); [reflexivity|].
  cbn [bind PyMini.exec PyMini.eval read locals]. rewrite (R eq_refl). reflexivity.
Qed.

(* ---- COALESCE *)
Definition coalesce_body : list stmt :=
  [SAssign (TName "value") (XCall (XName "arg") [XName "context"] None);
   SIf (XCompare (XName "value") [(CIsNot, XConst PNone)]) [SReturn (Some (XName "value"))] []].

Lemma coalesce_loop : forall ks args, children ks args -> forall flds loc,
  lookup "context" loc = Some ctx ->
  exists loc',
  for_loop call_ref prim coalesce_body "arg" {| locals := loc; fields := flds |} (map PRef ks) =
  Ok (match find (fun v => negb (is_null v)) (map mev args) with
      | None => Next {| locals := loc'; fields := flds |}
      | Some v => Ret {| locals := loc'; fields := flds |} (PV v)
      end).
Proof.
  induction 1 as [|k a ks args Hc Hcs IH]; intros flds loc Hctx.
  - exists loc. reflexivity.
  - cbn [map for_loop find]. unfold coalesce_body at 1. cbn [PyMini.exec_block].
    rewrite (value_of_arg k a loc flds Hc Hctx). cbn [bind].
    destruct Hc as [_ He].
    set (loc2 := update "value" (PV (mev a)) (update "arg" (PRef k) loc)).
    assert (Hv : lookup "value" loc2 = Some (PV (mev a))) by apply lookup_update_eq.
    assert (Hc2 : lookup "context" loc2 = Some ctx) by (unfold loc2; step_env; exact Hctx).
    cbn [write locals fields]. fold loc2. clearbody loc2.
    destruct (mev a) eqn:Ev; try discriminate;
      repeat (cbn -[for_loop coalesce_body find]; rewrite ?Hv);
      try (eexists; reflexivity); try (apply IH; exact Hc2).
Qed.

Theorem node_coalesce_src : forall ks args,
  children ks args ->
  let flds := [("args", PList (map PRef ks))] in
  call_method call_ref prim node_coalesce flds [ctx] = Ok (flds, PV (mev (ECoalesce args))).
Proof.
  intros ks args Hc flds. rewrite coalesce_table. unfold coalesce_spec.
  unfold call_method, node_coalesce. cbn [f_params f_body bind_params PyMini.exec_block].
  rewrite (exec_for call_ref prim "arg" _ _ _ {| locals := [("self", PSelf); ("context", ctx)]; fields := flds |}
             (map PRef ks)) by reflexivity.
  fold coalesce_body.
  destruct (coalesce_loop ks args Hc flds [("self", PSelf); ("context", ctx)] eq_refl) as [loc' E].
  rewrite E. destruct (find _ _); reflexivity.
Qed.

Theorem node_constant_src : forall v,
  call_method call_ref prim node_constant [("value", PV v)] [ctx] = Ok ([("value", PV v)], PV v).
Proof. reflexivity. Qed.

(* ---------------------------------------------------------------- the NULL-strict wrapper of query_env.function *)
Definition none_check_body : list stmt :=
  [SIf (XCompare (XName "arg") [(CIs, XConst PNone)]) [SReturn (Some (XConst PNone))] []].

Lemma none_loop : forall vs flds loc,
  exists loc',
  for_loop call_ref prim none_check_body "arg" {| locals := loc; fields := flds |} (map PV vs) =
  Ok (if existsb is_null vs then Ret {| locals := loc'; fields := flds |} PNone
      else Next {| locals := loc'; fields := flds |}) /\
  (forall x, String.eqb x "arg" = false -> lookup x loc' = lookup x loc).
Proof.
  induction vs as [|v vs IH]; intros flds loc.
  - exists loc. split; [reflexivity|reflexivity].
  - cbn [map for_loop existsb]. unfold none_check_body at 1.
    cbn [PyMini.exec_block PyMini.exec PyMini.eval bind read write locals fields].
    rewrite lookup_update_eq.
    destruct v; cbn -[for_loop none_check_body existsb];
      try (destruct (IH flds (update "arg" (PV VNull) loc)) as [loc' [E R]]);
      try (eexists; split; [reflexivity|intros x Hx; apply lookup_update_neq; exact Hx]).
    all: match goal with
         | |- context [update "arg" ?w ?l] =>
             destruct (IH flds (update "arg" w l)) as [loc'' [E' R']]; exists loc''; split;
             [exact E'|intros x Hx; rewrite (R' x Hx); apply lookup_update_neq; exact Hx]
         end.
Qed.

Definition comp_elt (loc flds : env) (v : pv) : res pv :=
  bind (PyMini.eval call_ref prim (write {| locals := loc; fields := flds |} (TName "operand") v)
          (XCall (XName "operand") [XName "row"] None)) (fun p => Ok (snd p)).

Lemma comp_elt_child loc flds k a :
  child k a -> lookup "row" loc = Some ctx -> comp_elt loc flds (PRef k) = Ok (PV (mev a)).
Proof.
  intros Hk Hrow. pose proof (do_call_child _ _ Hk) as E. unfold comp_elt.
  py_step. rewrite Hrow. py_step. rewrite E. reflexivity.
Qed.

Lemma operands_comp : forall ks args loc flds,
  children ks args -> lookup "row" loc = Some ctx ->
  map_res (comp_elt loc flds) (map PRef ks) = Ok (map PV (map mev args)).
Proof.
  intros ks args loc flds Hc Hrow. induction Hc as [|k a ks args Hk Hcs IH]; [reflexivity|].
  cbn [map map_res]. rewrite (comp_elt_child loc flds k a Hk Hrow). cbn [bind]. rewrite IH. reflexivity.
Qed.

Definition wrapper_fields (ks : list nat) (c : pv) : env := [("operands", PList (map PRef ks)); ("context", c)].

Lemma refs_func : nth_error refs 0 = Some (0%nat, "closure:func").
Proof. reflexivity. Qed.

Section Wrapper.
Variable f : func.
Variables (ks : list nat) (args : list enode) (c : pv).
Hypothesis Hch : children ks args.
Let vs := map mev args.
Let flds := wrapper_fields ks c.

Lemma wrapper_prefix : forall body_tail,
  exists loc',
  PyMini.exec_block call_ref prim {| locals := [("self", PSelf); ("row", ctx)]; fields := flds |}
    (SAssign (TName "args") (XListComp (XCall (XName "operand") [XName "row"] None) "operand"
                               (XAttr (XName "self") "operands") None)
     :: SFor "arg" (XName "args") none_check_body :: body_tail) =
  (if existsb is_null vs then Ok (Ret {| locals := loc'; fields := flds |} PNone)
   else PyMini.exec_block call_ref prim {| locals := loc'; fields := flds |} body_tail) /\
  lookup "args" loc' = Some (PList (map PV vs)) /\ lookup "row" loc' = Some ctx /\ lookup "self" loc' = Some PSelf.
Proof.
  intros tail. cbn [PyMini.exec_block].
  assert (E1 : PyMini.exec call_ref prim {| locals := [("self", PSelf); ("row", ctx)]; fields := flds |}
            (SAssign (TName "args") (XListComp (XCall (XName "operand") [XName "row"] None) "operand"
                               (XAttr (XName "self") "operands") None)) =
          Ok (Next {| locals := [("self", PSelf); ("row", ctx); ("args", PList (map PV vs))]; fields := flds |})).
  { cbn [PyMini.exec]. 
    rewrite (eval_listcomp call_ref prim _ _ _ _ {| locals := [("self", PSelf); ("row", ctx)]; fields := flds |}
               (map PRef ks)) by reflexivity.
    fold (comp_elt [("self", PSelf); ("row", ctx)] flds).
    rewrite (operands_comp ks args [("self", PSelf); ("row", ctx)] flds Hch eq_refl). reflexivity. }
  rewrite E1. cbn [bind].
  rewrite (exec_for call_ref prim "arg" _ _ _
             {| locals := [("self", PSelf); ("row", ctx); ("args", PList (map PV vs))]; fields := flds |}
             (map PV vs)) by reflexivity.
  destruct (none_loop vs flds [("self", PSelf); ("row", ctx); ("args", PList (map PV vs))]) as [loc' [E R]].
  exists loc'. rewrite E. split.
  - destruct (existsb is_null vs); reflexivity.
  - repeat split; rewrite R by reflexivity; reflexivity.
Qed.

Lemma mev_func : mev (EFunc f args) = if existsb is_null vs then VNull else apply_func f vs.
Proof. reflexivity. Qed.

(* plain functions: func( *args ) *)
Theorem func_wrapper_plain_src :
  call_ref 0 (map PV vs) = PV (apply_func f vs) ->
  call_method call_ref prim func_wrapper_plain flds [ctx] = expect flds (mev (EFunc f args)).
Proof.
  intros Hf. rewrite mev_func. unfold call_method, func_wrapper_plain.
  cbn [f_params f_body bind_params]. fold none_check_body.
  match goal with |- context [SFor "arg" (XName "args") none_check_body :: ?t] =>
    destruct (wrapper_prefix t) as [loc' [E [Ha [Hr Hs]]]] end.
  rewrite E. destruct (existsb is_null vs); [reflexivity|].
  cbn [PyMini.exec_block PyMini.exec PyMini.eval bind pv_truthy truthy PNone PBool read locals fields].
  rewrite Ha. cbn [bind app do_call]. rewrite Hf.
  destruct (apply_func f vs); reflexivity.
Qed.

(* pass_row: func(row, *args ) *)
Theorem func_wrapper_row_src : forall g : list pv -> value,
  call_ref 0 (ctx :: map PV vs) = PV (g (map PV vs)) ->
  call_method call_ref prim func_wrapper_row flds [ctx] =
  expect flds (if existsb is_null vs then VNull else g (map PV vs)).
Proof.
  intros g Hf. unfold call_method, func_wrapper_row.
  cbn [f_params f_body bind_params]. fold none_check_body.
  match goal with |- context [SFor "arg" (XName "args") none_check_body :: ?t] =>
    destruct (wrapper_prefix t) as [loc' [E [Ha [Hr Hs]]]] end.
  rewrite E. destruct (existsb is_null vs); [reflexivity|].
  repeat (cbn [PyMini.exec_block PyMini.exec PyMini.eval bind pv_truthy truthy PNone PBool read locals fields
               app do_call]; rewrite ?Hr, ?Ha).
  rewrite Hf.
  destruct (g (map PV vs)); reflexivity.
Qed.

(* pass_context: func(self.context, *args ) *)
Theorem func_wrapper_context_src : forall g : list pv -> value,
  call_ref 0 (c :: map PV vs) = PV (g (map PV vs)) ->
  call_method call_ref prim func_wrapper_context flds [ctx] =
  expect flds (if existsb is_null vs then VNull else g (map PV vs)).
Proof.
  intros g Hf. unfold call_method, func_wrapper_context.
  cbn [f_params f_body bind_params]. fold none_check_body.
  match goal with |- context [SFor "arg" (XName "args") none_check_body :: ?t] =>
    destruct (wrapper_prefix t) as [loc' [E [Ha [Hr Hs]]]] end.
  rewrite E. destruct (existsb is_null vs); [reflexivity|].
  repeat (cbn [PyMini.exec_block PyMini.exec PyMini.eval bind pv_truthy truthy PNone PBool read locals fields
               app do_call flds wrapper_fields lookup String.eqb Ascii.eqb Bool.eqb]; rewrite ?Hs, ?Ha).
  rewrite Hf.
  destruct (g (map PV vs)); reflexivity.
Qed.

End Wrapper.

End Tie.
