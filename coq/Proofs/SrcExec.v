(* Tie by translation for the executor core: the PyMini terms generated on every run from the SOURCE of
   beanquery/query_execute.py (Gen/SrcExec.v: uniquify, the inner functions of nullitemgetter, the non-aggregate row
   loop and the ORDER BY .. LIMIT tail of execute_select) compute, for ALL inputs, what the hand-written models the
   C03 / C01 theorems are stated over compute (Model/Order.v: uniquify, order_rows, post; Model/Exec.v: scan_nonagg).
   Library calls have the semantics of Model/PrimsExec.v. *)
From Coq Require Import String ZArith List Bool Lia Permutation.
Import ListNotations.
From Verif Require Import Base.StableSort Base.PyValue Proofs.PyValueProofs Model.Eval Model.Order Proofs.OrderProofs
  Model.PyMini Model.PrimsExec Gen.SrcExec Proofs.PyMiniLemmas Proofs.PyMiniLemmas2.
Open Scope string_scope.
Open Scope list_scope.
Open Scope Z_scope.

Local Arguments val_le : simpl never.
Local Arguments val_eq : simpl never.

(* ------------------------------------------------------------------ representation of model data as Python values *)
Definition row_pv (r : row) : pv := PTuple (map PV r).      (* a result row (tuple) *)
Definition rowl_pv (r : row) : pv := PList (map PV r).      (* a row of evaluated targets before projection (list) *)

Lemma pv_eqb_value x y : pv_eqb (PV x) (PV y) = val_eq x y.
Proof.
  cbn [pv_eqb]. unfold val_eq, val_le. rewrite !eqv_lex.
  destruct x, y; cbn [is_null orb andb rank Z.eqb]; try reflexivity;
    try (cbn; reflexivity);
    unfold eqv at 1, on; cbn [rank]; try reflexivity.
Qed.

Lemma pv_eqb_row a : forall b, pv_eqb (row_pv a) (row_pv b) = row_eq a b.
Proof.
  unfold row_pv. induction a as [|x a IH]; intros [|y b]; try reflexivity.
  specialize (IH b). cbn [map row_eq].
  change (pv_eqb (PTuple (PV x :: map PV a)) (PTuple (PV y :: map PV b)))
    with (pv_eqb (PV x) (PV y) && pv_eqb (PTuple (map PV a)) (PTuple (map PV b))).
  rewrite pv_eqb_value, IH. reflexivity.
Qed.

(* ------------------------------------------------------------------ uniquify *)
Fixpoint uniq_pv (seen : list pv) (l : list pv) : list pv :=
  match l with
  | [] => []
  | x :: t => if existsb (pv_eqb x) seen then uniq_pv seen t else x :: uniq_pv (seen ++ [x]) t
  end.

Lemma existsb_row_pv r seen : existsb (pv_eqb (row_pv r)) (map row_pv seen) = existsb (row_eq r) seen.
Proof. induction seen as [|s t IH]; [reflexivity|]. cbn [map existsb]. rewrite pv_eqb_row, IH. reflexivity. Qed.

Lemma uniq_pv_rows : forall l seen,
  uniq_pv (map row_pv seen) (map row_pv l) = map row_pv (uniquify_acc seen l).
Proof.
  induction l as [|r t IH]; intros seen; [reflexivity|].
  cbn [map uniq_pv uniquify_acc]. rewrite existsb_row_pv.
  destruct (existsb (row_eq r) seen); [apply IH|].
  cbn [map]. f_equal. rewrite <- IH. rewrite map_app. reflexivity.
Qed.

Section Uniquify.
Variable call_ref : nat -> list pv -> pv.
Variable prim : string -> list pv -> res pv.
Hypothesis prim_set : prim "builtins.set" [] = Ok (PList []).

Definition uniq_body : list stmt :=
  [SIf (XCompare (XName "obj") [(CNotIn, XName "seen")])
     [SExpr (XMethod (TName "seen") "add" [XName "obj"]); SYield (XName "obj")] []].

(* what the generator has yielded so far *)
Definition ystate (loc : env) (acc : list pv) : Prop :=
  (lookup yield_var loc = None /\ acc = []) \/ lookup yield_var loc = Some (PList acc).

Lemma uniq_loop : forall l seen acc loc flds,
  lookup "seen" loc = Some (PList seen) -> ystate loc acc ->
  exists loc',
    for_loop call_ref prim uniq_body "obj" {| locals := loc; fields := flds |} l =
      Ok (Next {| locals := loc'; fields := flds |}) /\
    ystate loc' (acc ++ uniq_pv seen l).
Proof.
  induction l as [|x t IH]; intros seen acc loc flds Hs Hy.
  - exists loc. split; [reflexivity|]. cbn [uniq_pv]. rewrite app_nil_r. exact Hy.
  - cbn [for_loop uniq_pv]. unfold uniq_body at 1.
    set (loc1 := update "obj" x loc).
    assert (Hs1 : lookup "seen" loc1 = Some (PList seen)) by (unfold loc1; rewrite lookup_update_neq by reflexivity; exact Hs).
    assert (Ho1 : lookup "obj" loc1 = Some x) by apply lookup_update_eq.
    assert (Hy1 : ystate loc1 acc).
    { unfold ystate, loc1. rewrite lookup_update_neq by reflexivity. exact Hy. }
    repeat (progress (cbn [exec_block PyMini.exec PyMini.eval bind read write locals fields compare1]; fold loc1;
                      rewrite ?Ho1, ?Hs1)).
    destruct (existsb (pv_eqb x) seen) eqn:E; cbn [negb bind pv_truthy PBool truthy].
    + (* already seen: nothing happens *)
      apply IH; assumption.
    + repeat (progress (cbn [exec_block PyMini.exec PyMini.eval bind read write locals fields method_call
                             String.eqb Ascii.eqb Bool.eqb];
                        rewrite ?Ho1, ?Hs1, ?E, ?(lookup_update_neq "obj" "seen") by reflexivity)).
      set (loc2 := update "seen" (PList (seen ++ [x])) loc1).
      assert (Hy2 : lookup yield_var loc2 = lookup yield_var loc1)
        by (unfold loc2; apply lookup_update_neq; reflexivity).
      rewrite Hy2.
      destruct Hy1 as [[Hn Ha]|Hsome].
      * rewrite Hn. cbn [write locals fields].
        destruct (IH (seen ++ [x]) [x] (update yield_var (PList [x]) loc2) flds) as [loc' [EL Y]].
        { rewrite lookup_update_neq by reflexivity. apply lookup_update_eq. }
        { right. apply lookup_update_eq. }
        exists loc'. split; [exact EL|]. subst acc. exact Y.
      * rewrite Hsome. cbn [write locals fields].
        destruct (IH (seen ++ [x]) (acc ++ [x]) (update yield_var (PList (acc ++ [x])) loc2) flds) as [loc' [EL Y]].
        { rewrite lookup_update_neq by reflexivity. apply lookup_update_eq. }
        { right. apply lookup_update_eq. }
        exists loc'. split; [exact EL|]. rewrite <- app_assoc in Y. exact Y.
Qed.

(* the translated generator function, on ANY list of values, yields the first occurrence of every value *)
Theorem uniquify_src_pv : forall l : list pv,
  call_fun call_ref prim exec_uniquify [PList l] = Ok (PList (uniq_pv [] l)).
Proof.
  intros l. unfold call_fun, exec_uniquify. cbn [f_params f_body f_gen bind_params].
  rewrite exec_block_cons. cbn [PyMini.exec PyMini.eval bind]. rewrite prim_set. cbn [bind write locals fields update String.eqb Ascii.eqb Bool.eqb].
  rewrite exec_block_cons.
  rewrite (exec_for call_ref prim "obj" _ _ _
             {| locals := [("iterable", PList l); ("seen", PList [])]; fields := [] |} l) by reflexivity.
  fold uniq_body.
  destruct (uniq_loop l [] [] [("iterable", PList l); ("seen", PList [])] [] eq_refl (or_introl (conj eq_refl eq_refl)))
    as [loc' [EL Y]].
  rewrite EL. cbn [bind exec_block locals]. cbn [app] in Y.
  destruct Y as [[Hn Ha]|Hs]; [rewrite Hn, Ha|rewrite Hs]; reflexivity.
Qed.

(* (i) on result rows: Model/Order.v's uniquify *)
Theorem uniquify_src : forall rows : list row,
  call_fun call_ref prim exec_uniquify [PList (map row_pv rows)] = Ok (PList (map row_pv (uniquify rows))).
Proof.
  intros rows. rewrite uniquify_src_pv. unfold uniquify. rewrite <- uniq_pv_rows. reflexivity.
Qed.
End Uniquify.

(* ------------------------------------------------------------------ nullitemgetter's inner functions *)
Definition idx_pv (i : nat) : pv := PInt (Z.of_nat i).
(* a key component: the cell, or the NULL sentinel (opaque object 0 of the refs table) when the cell is None *)
Definition key_pv (v : value) : pv := if is_null v then PRef 0 else PV v.

Lemma refs_NULL : nth_error refs 0 = Some (0%nat, "NULL").
Proof. reflexivity. Qed.
Lemma refs_nullitemgetter : nth_error refs 1 = Some (1%nat, "beanquery.query_execute.nullitemgetter").
Proof. reflexivity. Qed.
Lemma refs_uniquify : nth_error refs 2 = Some (2%nat, "beanquery.query_execute.uniquify").
Proof. reflexivity. Qed.

Lemma key_value_key_pv v : key_value (key_pv v) = Some v.
Proof. destruct v; reflexivity. Qed.

Lemma index_row (r : row) i : (i < length r)%nat -> index_at (map PV r) (Z.of_nat i) = Ok (PV (cell i r)).
Proof.
  intros H. rewrite (index_at_nat (map PV r) i (PV VNull)) by (rewrite map_length; exact H).
  unfold cell. rewrite (map_nth PV r VNull i). reflexivity.
Qed.

Section Nig.
Variable call_ref : nat -> list pv -> pv.
Notation prim := prims_base.

Theorem nig_single_src : forall (r : row) (i : nat), (i < length r)%nat ->
  call_fun call_ref prim exec_nig_single [idx_pv i; rowl_pv r] = Ok (key_pv (cell i r)).
Proof.
  intros r i Hi. unfold call_fun, exec_nig_single, idx_pv, rowl_pv.
  cbn [f_params f_body f_gen bind_params exec_block PyMini.exec PyMini.eval bind read write locals fields lookup
       String.eqb Ascii.eqb Bool.eqb PInt].
  rewrite (index_row r i Hi).
  cbn [bind update lookup String.eqb Ascii.eqb Bool.eqb locals fields].
  unfold key_pv. destruct (cell i r); reflexivity.
Qed.

Definition nig_body : list stmt :=
  [SAssign (TName "value") (XIndex (XName "obj") (XName "i"));
   SExpr (XMethod (TName "r") "append"
            [XIfExp (XCompare (XName "value") [(CIsNot, XConst PNone)]) (XName "value") (XConst (PRef 0))])].

Lemma nig_loop : forall (r : row) idxs acc loc flds,
  (forall i, In i idxs -> (i < length r)%nat) ->
  lookup "obj" loc = Some (rowl_pv r) -> lookup "r" loc = Some (PList acc) ->
  exists loc',
    for_loop call_ref prim nig_body "i" {| locals := loc; fields := flds |} (map idx_pv idxs) =
      Ok (Next {| locals := loc'; fields := flds |}) /\
    lookup "r" loc' = Some (PList (acc ++ map (fun i => key_pv (cell i r)) idxs)).
Proof.
  intros r. induction idxs as [|i t IH]; intros acc loc flds Hin Ho Hr.
  - exists loc. split; [reflexivity|]. cbn [map]. rewrite app_nil_r. exact Hr.
  - cbn [map for_loop]. unfold nig_body at 1.
    set (loc1 := update "i" (idx_pv i) loc).
    assert (Ho1 : lookup "obj" loc1 = Some (rowl_pv r)) by (unfold loc1; rewrite lookup_update_neq by reflexivity; exact Ho).
    assert (Hr1 : lookup "r" loc1 = Some (PList acc)) by (unfold loc1; rewrite lookup_update_neq by reflexivity; exact Hr).
    assert (Hi1 : lookup "i" loc1 = Some (idx_pv i)) by apply lookup_update_eq.
    cbn [write locals fields]. fold loc1. rewrite exec_block_cons.
    assert (Ev : PyMini.eval call_ref prim {| locals := loc1; fields := flds |} (XIndex (XName "obj") (XName "i")) =
                 Ok ({| locals := loc1; fields := flds |}, PV (cell i r))).
    { rewrite (eval_index call_ref prim _ _ _ _ _ (map PV r) (Z.of_nat i)
                 (eval_name call_ref prim {| locals := loc1; fields := flds |} "obj" _ Ho1)
                 (eval_name call_ref prim {| locals := loc1; fields := flds |} "i" _ Hi1)).
      rewrite (index_row r i (Hin i (or_introl eq_refl))). reflexivity. }
    rewrite (exec_assign call_ref prim _ _ _ _ _ Ev). cbn [bind write locals fields].
    set (loc2 := update "value" (PV (cell i r)) loc1).
    assert (Hv2 : lookup "value" loc2 = Some (PV (cell i r))) by apply lookup_update_eq.
    assert (Hr2 : lookup "r" loc2 = Some (PList acc)) by (unfold loc2; rewrite lookup_update_neq by reflexivity; exact Hr1).
    assert (Ho2 : lookup "obj" loc2 = Some (rowl_pv r)) by (unfold loc2; rewrite lookup_update_neq by reflexivity; exact Ho1).
    assert (Estep : exists loc3,
      PyMini.exec call_ref prim {| locals := loc2; fields := flds |}
        (SExpr (XMethod (TName "r") "append"
            [XIfExp (XCompare (XName "value") [(CIsNot, XConst PNone)]) (XName "value") (XConst (PRef 0))])) =
      Ok (Next {| locals := loc3; fields := flds |}) /\
      lookup "r" loc3 = Some (PList (acc ++ [key_pv (cell i r)])) /\ lookup "obj" loc3 = Some (rowl_pv r)).
    { exists (update "r" (PList (acc ++ [key_pv (cell i r)])) loc2).
      split; [|split; [apply lookup_update_eq|rewrite lookup_update_neq by reflexivity; exact Ho2]].
      unfold key_pv.
      destruct (cell i r) eqn:Ec;
        repeat (progress (cbn [PyMini.exec PyMini.eval bind read write locals fields compare1 pv_is_none PNone negb
                               pv_truthy PBool truthy method_call String.eqb Ascii.eqb Bool.eqb is_null];
                          rewrite ?Hv2, ?Hr2)); reflexivity. }
    destruct Estep as [loc3 [E3 [Hr3 Ho3]]]. fold loc2. rewrite exec_block_cons, E3. cbn [bind exec_block].
    destruct (IH (acc ++ [key_pv (cell i r)]) loc3 flds) as [loc' [EL HR]];
      [intros j Hj; apply Hin; right; exact Hj|exact Ho3|exact Hr3|].
    exists loc'. split; [exact EL|]. rewrite HR, <- app_assoc. reflexivity.
Qed.

Theorem nig_multi_src : forall (r : row) (idxs : list nat),
  (forall i, In i idxs -> (i < length r)%nat) ->
  call_fun call_ref prim exec_nig_multi [PTuple (map idx_pv idxs); rowl_pv r] =
  Ok (PTuple (map (fun i => key_pv (cell i r)) idxs)).
Proof.
  intros r idxs Hin. unfold call_fun, exec_nig_multi. cbn [f_params f_body f_gen bind_params].
  rewrite exec_block_cons.
  cbn [PyMini.exec PyMini.eval bind write locals fields update String.eqb Ascii.eqb Bool.eqb].
  rewrite exec_block_cons.
  rewrite (exec_for_tuple call_ref prim "i" _ _ _
             {| locals := [("items", PTuple (map idx_pv idxs)); ("obj", rowl_pv r); ("r", PList [])]; fields := [] |}
             (map idx_pv idxs)) by reflexivity.
  fold nig_body.
  destruct (nig_loop r idxs [] [("items", PTuple (map idx_pv idxs)); ("obj", rowl_pv r); ("r", PList [])] [] Hin
              eq_refl eq_refl) as [loc' [EL HR]].
  rewrite EL. cbn [bind]. rewrite exec_block_cons.
  cbn [PyMini.exec]. rewrite (eval_prim1 call_ref prim "builtins.tuple" (XName "r") _ _ _ (eval_name call_ref prim {| locals := loc'; fields := [] |} "r" _ HR)).
  reflexivity.
Qed.
End Nig.

(* applying the closure nullitemgetter( *idxs ) to a row: a key whose values are Order.key_of idxs *)
Section Keys.
Variable call_ref : nat -> list pv -> pv.
Notation akey := (apply_key call_ref exec_nig_single exec_nig_multi 1).

Lemma map_opt_key_pv vs : map_opt key_value (map key_pv vs) = Some vs.
Proof. induction vs as [|v t IH]; [reflexivity|]. cbn [map map_opt]. rewrite key_value_key_pv, IH. reflexivity. Qed.

Lemma apply_nig_key : forall (r : row) (idxs : list nat), idxs <> [] ->
  (forall i, In i idxs -> (i < length r)%nat) ->
  exists k, akey (partial_clo 1 (map idx_pv idxs)) (rowl_pv r) = Ok k /\ key_values k = Some (key_of idxs r).
Proof.
  intros r idxs Hne Hin. destruct idxs as [|i [|j t]]; [congruence| |].
  - exists (key_pv (cell i r)). split.
    + cbn [partial_clo map akey apply_key Nat.eqb apply_nig]. apply nig_single_src. apply Hin. left. reflexivity.
    + unfold key_values, key_of. cbn [map]. destruct (cell i r); reflexivity.
  - exists (PTuple (map (fun i => key_pv (cell i r)) (i :: j :: t))). split.
    + cbn [partial_clo map akey apply_key Nat.eqb apply_nig].
      apply (nig_multi_src call_ref r (i :: j :: t) Hin).
    + unfold key_values, key_of. rewrite <- (map_map (fun i => cell i r) key_pv). apply map_opt_key_pv.
Qed.
End Keys.

(* ------------------------------------------------------------------ list.sort(key=, reverse=) on decorated rows *)
Lemma insert_map {A B} (h : A -> B) (le : A -> A -> bool) (le' : B -> B -> bool) :
  (forall a b, le' (h a) (h b) = le a b) ->
  forall x l, insert le' (h x) (map h l) = map h (insert le x l).
Proof.
  intros H x l. induction l as [|y t IH]; [reflexivity|].
  cbn [map insert]. rewrite H. destruct (le x y); [reflexivity|]. cbn [map]. rewrite IH. reflexivity.
Qed.

Lemma isort_map {A B} (h : A -> B) (le : A -> A -> bool) (le' : B -> B -> bool) :
  (forall a b, le' (h a) (h b) = le a b) ->
  forall l, isort le' (map h l) = map h (isort le l).
Proof.
  intros H l. induction l as [|x t IH]; [reflexivity|].
  cbn [map isort]. rewrite IH. apply insert_map. exact H.
Qed.

Lemma py_sort_map {A B} (h : A -> B) (le : A -> A -> bool) (le' : B -> B -> bool) d :
  (forall a b, le' (h a) (h b) = le a b) ->
  forall l, py_sort le' d (map h l) = map h (py_sort le d l).
Proof.
  intros H l. unfold py_sort. destruct d.
  - rewrite <- map_rev, (isort_map h le le' H), map_rev. reflexivity.
  - apply isort_map. exact H.
Qed.

Lemma combine_map {A B C} (f : A -> B) (g : A -> C) l : combine (map f l) (map g l) = map (fun a => (f a, g a)) l.
Proof. induction l as [|a t IH]; [reflexivity|]. cbn [map combine]. rewrite IH. reflexivity. Qed.

Lemma py_sort_in {A} (le : A -> A -> bool) d l x : In x (py_sort le d l) -> In x l.
Proof.
  unfold py_sort. destruct d; intros H.
  - apply in_rev in H. apply (Permutation_in _ (Permutation_sym (isort_perm A le (rev l)))) in H.
    apply in_rev. exact H.
  - apply (Permutation_in _ (Permutation_sym (isort_perm A le l))) in H. exact H.
Qed.

Section Sort.
Variable call_ref : nat -> list pv -> pv.
Notation akey := (apply_key call_ref exec_nig_single exec_nig_multi 1).

Lemma keys_of_rows : forall (idxs : list nat) (rows : list row), idxs <> [] ->
  (forall r, In r rows -> forall i, In i idxs -> (i < length r)%nat) ->
  exists ks, mapM (akey (partial_clo 1 (map idx_pv idxs))) (map rowl_pv rows) = Ok ks /\
             map_opt key_values ks = Some (map (key_of idxs) rows).
Proof.
  intros idxs rows Hne. induction rows as [|r t IH]; intros Hin.
  - exists []. split; reflexivity.
  - destruct (apply_nig_key call_ref r idxs Hne (Hin r (or_introl eq_refl))) as [k [Ek Hk]].
    destruct IH as [ks [Eks Hks]]; [intros r' Hr'; apply Hin; right; exact Hr'|].
    exists (k :: ks). split.
    + cbn [map mapM]. rewrite Ek. cbn [bind]. rewrite Eks. reflexivity.
    + cbn [map map_opt]. rewrite Hk, Hks. reflexivity.
Qed.

(* rows.sort(key=nullitemgetter( *idxs ), reverse=d) is Order.sort_pass idxs d *)
Theorem sort_prim_src : forall (idxs : list nat) (d : bool) (rows : list row), idxs <> [] ->
  (forall r, In r rows -> forall i, In i idxs -> (i < length r)%nat) ->
  sort_prim akey (map rowl_pv rows) (partial_clo 1 (map idx_pv idxs)) d =
  Ok (PTuple [PList (map rowl_pv (sort_pass idxs d rows)); PNone]).
Proof.
  intros idxs d rows Hne Hin. unfold sort_prim.
  destruct (keys_of_rows idxs rows Hne Hin) as [ks [E1 E2]]. rewrite E1. cbn [bind]. rewrite E2.
  rewrite combine_map.
  rewrite (py_sort_map (fun r => (key_of idxs r, rowl_pv r)) (on (key_of idxs) tuple_le) (on fst tuple_le) d)
    by reflexivity.
  rewrite map_map. cbn [snd]. reflexivity.
Qed.

(* ---------------------------------------------------------------- groupby(reversed(order_spec), key=itemgetter(1)) *)
Definition item_pv (p : nat * bool) : pv := PTuple [idx_pv (fst p); PBool (snd p)].
Definition run_pv (g : bool * list nat) : pv := PTuple [PBool (fst g); PList (map (fun i => item_pv (i, fst g)) (snd g))].

Lemma keys_of_items : forall l : list (nat * bool),
  mapM (akey (itemgetter_clo (PInt 1))) (map item_pv l) = Ok (map (fun p => PBool (snd p)) l).
Proof.
  induction l as [|[i d] t IH]; [reflexivity|].
  cbn [map mapM]. rewrite IH. reflexivity.
Qed.

Lemma pv_eqb_bool a b : pv_eqb (PBool a) (PBool b) = Bool.eqb a b.
Proof. destruct a, b; vm_compute; reflexivity. Qed.

Lemma group_runs_items : forall l : list (nat * bool),
  group_runs (combine (map (fun p => PBool (snd p)) l) (map item_pv l)) =
  map (fun g : bool * list nat => (PBool (fst g), map (fun i => item_pv (i, fst g)) (snd g))) (runs l).
Proof.
  induction l as [|[i d] t IH]; [reflexivity|].
  cbn [map combine group_runs runs snd]. rewrite IH.
  destruct (runs t) as [|[d' is] rest]; [reflexivity|].
  cbn [map fst snd]. rewrite pv_eqb_bool.
  destruct (Bool.eqb d d') eqn:E; [|reflexivity].
  apply Bool.eqb_prop in E. subst d'. reflexivity.
Qed.

Theorem groupby_src : forall l : list (nat * bool),
  groupby_prim akey (map item_pv l) (itemgetter_clo (PInt 1)) = Ok (PList (map run_pv (runs l))).
Proof.
  intros l. unfold groupby_prim. rewrite keys_of_items. cbn [bind]. rewrite group_runs_items, map_map. reflexivity.
Qed.

Lemma runs_nonempty : forall l g, In g (runs l) -> snd g <> [].
Proof.
  induction l as [|[i d] t IH]; intros g Hg; [destruct Hg|].
  cbn [runs] in Hg. destruct (runs t) as [|[d' is] rest] eqn:E.
  - destruct Hg as [<-|[]]. discriminate.
  - destruct (Bool.eqb d d').
    + destruct Hg as [<-|Hg]; [discriminate|]. apply IH. right. exact Hg.
    + destruct Hg as [<-|Hg]; [discriminate|]. apply IH. exact Hg.
Qed.

Lemma flat_indexes : forall rs g i, In g rs -> In i (snd g) -> In i (map fst (flat rs)).
Proof.
  induction rs as [|g0 rs IH]; intros g i Hg Hi; [destruct Hg|].
  unfold flat. cbn [flat_map]. rewrite map_app. apply in_or_app.
  destruct Hg as [->|Hg].
  - left. rewrite map_map. cbn [fst]. rewrite map_id. exact Hi.
  - right. apply (IH g i Hg Hi).
Qed.

Lemma runs_indexes : forall l g i, In g (runs l) -> In i (snd g) -> In i (map fst l).
Proof. intros l g i Hg Hi. rewrite <- (flat_runs l). apply (flat_indexes _ g i Hg Hi). Qed.
End Sort.

(* ------------------------------------------------------------------ the ORDER BY .. LIMIT tail of execute_select *)
Section Tail.
Variable call_ref : nat -> list pv -> pv.
Notation akey := (apply_key call_ref exec_nig_single exec_nig_multi 1).
Notation prim := (prims_exec call_ref exec_nig_single exec_nig_multi 1).

(* linking: calling nullitemgetter yields a closure that remembers its arguments (applied by Model/PrimsExec.apply_key,
   which interprets the translated inner functions); uniquify IS the translated uniquify *)
Hypothesis Hnig : forall args, call_ref 1 args = partial_clo 1 args.
Hypothesis Huniq : forall l, call_ref 2 [PList l] = res_pv (call_fun call_ref prim exec_uniquify [PList l]).

Lemma prim_reversed l : prim "builtins.reversed" [PList l] = Ok (PList (rev l)).
Proof. reflexivity. Qed.
Lemma prim_tuple l : prim "builtins.tuple" [PList l] = Ok (PTuple l).
Proof. reflexivity. Qed.
Lemma prim_list l : prim "builtins.list" [PList l] = Ok (PList l).
Proof. reflexivity. Qed.
Lemma prim_itemgetter z : prim "operator.itemgetter" [PInt z] = Ok (itemgetter_clo (PInt z)).
Proof. reflexivity. Qed.
Lemma prim_groupby l clo : prim "itertools.groupby:key" [PList l; clo] = groupby_prim akey l clo.
Proof. reflexivity. Qed.
Lemma prim_sort l clo d : prim "method:sort:key,reverse" [PList l; clo; PBool d] = sort_prim akey l clo d.
Proof. reflexivity. Qed.
Lemma prim_min a b : prim "builtins.min" [PInt a; PInt b] = Ok (PInt (Z.min a b)).
Proof. reflexivity. Qed.
Lemma prim_islice l n : prim "itertools.islice" [PList l; PInt n] =
  if n <? 0 then Exc ValueError else Ok (PList (firstn (Z.to_nat n) l)).
Proof. reflexivity. Qed.
Lemma prim_distinct t d n : prim "attr:distinct" [query_obj t d n] = Ok d.
Proof. reflexivity. Qed.
Lemma prim_limit t d n : prim "attr:limit" [query_obj t d n] = Ok n.
Proof. reflexivity. Qed.
Lemma prim_table t d n : prim "attr:table" [query_obj t d n] = Ok t.
Proof. reflexivity. Qed.

Definition sort_body : list stmt :=
  [SAssign (TName "indexes")
     (XPrim "builtins.reversed" [XListComp (XIndex (XName "i") (XConst (PInt 0))) "i" (XName "spec") None]);
   SExpr (XMethod (TName "rows") "sort:key,reverse"
            [XCall (XConst (PRef 1)) [] (Some (XName "indexes")); XName "reverse"])].

Definition untouched (loc loc' : env) : Prop :=
  forall x, x <> "reverse" -> x <> "spec" -> x <> "indexes" -> x <> "rows" -> lookup x loc' = lookup x loc.

Lemma sort_step : forall (g : bool * list nat) (rows : list row) loc flds,
  snd g <> [] -> (forall r, In r rows -> forall i, In i (snd g) -> (i < length r)%nat) ->
  lookup "rows" loc = Some (PList (map rowl_pv rows)) ->
  exists loc',
    bind (unpack_names {| locals := loc; fields := flds |} ["reverse"; "spec"] (run_pv g))
         (fun sv => exec_block call_ref prim sv sort_body) = Ok (Next {| locals := loc'; fields := flds |}) /\
    lookup "rows" loc' = Some (PList (map rowl_pv (pass rows g))) /\ untouched loc loc'.
Proof.
  intros [d is] rows loc flds Hne Hin Hrows. cbn [fst snd] in *.
  unfold run_pv. cbn [fst snd unpack_names write locals fields bind].
  set (items := map (fun i => item_pv (i, d)) is).
  set (loc1 := update "spec" (PList items) (update "reverse" (PBool d) loc)).
  assert (Hsp : lookup "spec" loc1 = Some (PList items)) by apply lookup_update_eq.
  assert (Hrv : lookup "reverse" loc1 = Some (PBool d)).
  { unfold loc1. rewrite lookup_update_neq by reflexivity. apply lookup_update_eq. }
  assert (Hr1 : lookup "rows" loc1 = Some (PList (map rowl_pv rows))).
  { unfold loc1. rewrite !lookup_update_neq by reflexivity. exact Hrows. }
  set (s1 := {| locals := loc1; fields := flds |}).
  (* indexes = reversed([i[0] for i in spec]) *)
  assert (E1 : PyMini.eval call_ref prim s1
                 (XPrim "builtins.reversed" [XListComp (XIndex (XName "i") (XConst (PInt 0))) "i" (XName "spec") None]) =
               Ok (s1, PList (map idx_pv (rev is)))).
  { rewrite (eval_prim1 call_ref prim "builtins.reversed" _ s1 s1 (PList (map idx_pv is))).
    - rewrite prim_reversed, <- map_rev. reflexivity.
    - rewrite (eval_listcomp call_ref prim _ _ _ s1 s1 items (eval_name call_ref prim s1 "spec" _ Hsp)).
      rewrite (map_res_ok _ (fun v => match v with PTuple (a :: _) => a | _ => PNone end)).
      + unfold items. rewrite map_map. reflexivity.
      + intros a Ha. unfold items in Ha. apply in_map_iff in Ha as [i [<- _]].
        unfold s1. cbn [PyMini.eval read write locals fields bind]. rewrite lookup_update_eq. reflexivity. }
  unfold sort_body. rewrite exec_block_cons. fold s1. rewrite (exec_assign call_ref prim _ _ _ _ _ E1).
  cbn [bind]. unfold s1. cbn [write locals fields].
  set (loc2 := update "indexes" (PList (map idx_pv (rev is))) loc1).
  assert (Hi2 : lookup "indexes" loc2 = Some (PList (map idx_pv (rev is)))) by apply lookup_update_eq.
  assert (Hrv2 : lookup "reverse" loc2 = Some (PBool d)) by (unfold loc2; rewrite lookup_update_neq by reflexivity; exact Hrv).
  assert (Hr2 : lookup "rows" loc2 = Some (PList (map rowl_pv rows))) by (unfold loc2; rewrite lookup_update_neq by reflexivity; exact Hr1).
  assert (Hrev : rev is <> []).
  { intros E. apply Hne. rewrite <- (rev_involutive is), E. reflexivity. }
  assert (Hin' : forall r, In r rows -> forall i, In i (rev is) -> (i < length r)%nat).
  { intros r Hr i Hi. apply (Hin r Hr). apply in_rev. exact Hi. }
  exists (update "rows" (PList (map rowl_pv (pass rows (d, is)))) loc2). split; [|split].
  - rewrite exec_block_cons.
    repeat (progress (cbn [PyMini.exec PyMini.eval bind read write locals fields app do_call method_call
                           String.append partial_clo];
                      rewrite ?Hi2, ?Hrv2, ?Hr2, ?Hnig)).
    change (PTuple (PRef 1 :: map idx_pv (rev is))) with (partial_clo 1 (map idx_pv (rev is))).
    rewrite prim_sort, (sort_prim_src call_ref (rev is) d rows Hrev Hin'). reflexivity.
  - apply lookup_update_eq.
  - intros x N1 N2 N3 N4. unfold loc2, loc1. rewrite !lookup_update_other by congruence. reflexivity.
Qed.

Lemma sort_loop : forall (rs : list (bool * list nat)) (rows : list row) loc flds,
  (forall g, In g rs -> snd g <> []) ->
  (forall r, In r rows -> forall g, In g rs -> forall i, In i (snd g) -> (i < length r)%nat) ->
  lookup "rows" loc = Some (PList (map rowl_pv rows)) ->
  exists loc',
    for_unpack_loop call_ref prim sort_body ["reverse"; "spec"] {| locals := loc; fields := flds |} (map run_pv rs) =
      Ok (Next {| locals := loc'; fields := flds |}) /\
    lookup "rows" loc' = Some (PList (map rowl_pv (fold_left pass rs rows))) /\ untouched loc loc'.
Proof.
  induction rs as [|g rs IH]; intros rows loc flds Hne Hin Hrows.
  - exists loc. split; [reflexivity|]. split; [exact Hrows|]. intros x _ _ _ _. reflexivity.
  - cbn [map for_unpack_loop fold_left].
    destruct (sort_step g rows loc flds (Hne g (or_introl eq_refl))
                (fun r Hr i Hi => Hin r Hr g (or_introl eq_refl) i Hi) Hrows) as [loc1 [E1 [R1 U1]]].
    destruct (unpack_names {| locals := loc; fields := flds |} ["reverse"; "spec"] (run_pv g)) as [sv| |];
      cbn [bind] in E1; try discriminate.
    cbn [bind]. rewrite E1. cbn [bind].
    destruct (IH (pass rows g) loc1 flds) as [loc' [E2 [R2 U2]]].
    + intros g' Hg'. apply Hne. right. exact Hg'.
    + intros r Hr g' Hg' i Hi.
      unfold pass, sort_pass in Hr. apply py_sort_in in Hr.
      exact (Hin r Hr g' (or_intror Hg') i Hi).
    + exact R1.
    + exists loc'. split; [exact E2|]. split; [exact R2|].
      intros x N1 N2 N3 N4. rewrite (U2 x N1 N2 N3 N4). apply (U1 x N1 N2 N3 N4).
Qed.

Definition spec_pv (spec : option (list (nat * bool))) : pv :=
  match spec with None => PNone | Some sp => PList (map item_pv sp) end.
Definition lim_pv (lim : option Z) : pv := match lim with None => PNone | Some n => PInt n end.
Definition clip_limit (lim : option Z) : option Z := option_map (fun n => Z.min n sys_maxsize) lim.

Lemma map_res_map_ok {A B C} (h : A -> B) (f : B -> res C) (g : A -> C) l :
  (forall a, In a l -> f (h a) = Ok (g a)) -> map_res f (map h l) = Ok (map g l).
Proof.
  induction l as [|a t IH]; intros H; [reflexivity|].
  cbn [map map_res]. rewrite (H a (or_introl eq_refl)). cbn [bind].
  rewrite IH by (intros b Hb; apply H; right; exact Hb). reflexivity.
Qed.

Definition order_stmt : stmt :=
  SIf (XCompare (XName "order_spec") [(CIsNot, XConst PNone)])
    [SForUnpack ["reverse"; "spec"]
       (XPrim "itertools.groupby:key" [XPrim "builtins.reversed" [XName "order_spec"];
                                       XPrim "operator.itemgetter" [XConst (PInt 1)]]) sort_body] [].

Lemma order_step : forall (spec : option (list (nat * bool))) (rows : list row) loc flds,
  (forall r, In r rows -> forall i, match spec with Some sp => In i (map fst sp) | None => False end ->
                                    (i < length r)%nat) ->
  lookup "order_spec" loc = Some (spec_pv spec) ->
  lookup "rows" loc = Some (PList (map rowl_pv rows)) ->
  exists loc',
    PyMini.exec call_ref prim {| locals := loc; fields := flds |} order_stmt =
      Ok (Next {| locals := loc'; fields := flds |}) /\
    lookup "rows" loc' = Some (PList (map rowl_pv (match spec with None => rows | Some sp => order_rows sp rows end))) /\
    untouched loc loc'.
Proof.
  intros spec rows loc flds Hin Hspec Hrows. set (s := {| locals := loc; fields := flds |}).
  destruct spec as [sp|].
  - unfold order_stmt.
    rewrite (exec_if call_ref prim _ _ _ s s (PBool true) true); [| |reflexivity].
    2:{ cbn [PyMini.eval read]. unfold s at 1. cbn [locals]. rewrite Hspec. reflexivity. }
    rewrite exec_block_cons.
    rewrite (exec_for_unpack call_ref prim _ _ _ s s (map run_pv (runs (rev sp)))).
    2:{ rewrite (eval_prim2 call_ref prim "itertools.groupby:key" _ _ s s s (PList (map item_pv (rev sp)))
                   (itemgetter_clo (PInt 1))).
        - rewrite prim_groupby, groupby_src. reflexivity.
        - rewrite (eval_prim1 call_ref prim "builtins.reversed" _ s s _ (eval_name call_ref prim s "order_spec" _ Hspec)).
          cbn [spec_pv]. rewrite prim_reversed, <- map_rev. reflexivity.
        - rewrite (eval_prim1 call_ref prim "operator.itemgetter" (XConst (PInt 1)) s s (PInt 1) eq_refl).
          rewrite prim_itemgetter. reflexivity. }
    destruct (sort_loop (runs (rev sp)) rows loc flds) as [loc' [E [R U]]].
    + apply runs_nonempty.
    + intros r Hr g Hg i Hi. apply (Hin r Hr). pose proof (runs_indexes _ g i Hg Hi) as Hi'.
      rewrite map_rev in Hi'. apply in_rev in Hi'. exact Hi'.
    + exact Hrows.
    + exists loc'. unfold s. rewrite E. cbn [bind exec_block]. split; [reflexivity|]. split; [exact R|exact U].
  - exists loc. unfold order_stmt.
    rewrite (exec_if call_ref prim _ _ _ s s (PBool false) false); [| |reflexivity].
    2:{ cbn [PyMini.eval read]. unfold s at 1. cbn [locals]. rewrite Hspec. reflexivity. }
    split; [reflexivity|]. split; [exact Hrows|]. intros x _ _ _ _. reflexivity.
Qed.

(* projection to the visible targets, DISTINCT, LIMIT, return *)
Definition rest_stmts : list stmt :=
  [SAssign (TName "rows")
     (XListComp (XPrim "builtins.tuple" [XListComp (XIndex (XName "row") (XName "i")) "i" (XName "result_indexes") None])
        "row" (XName "rows") None);
   SIf (XAttr (XName "query") "distinct") [SAssign (TName "rows") (XCall (XConst (PRef 2)) [XName "rows"] None)] [];
   SIf (XCompare (XAttr (XName "query") "limit") [(CIsNot, XConst PNone)])
     [SAssign (TName "rows")
        (XPrim "itertools.islice" [XName "rows";
           XPrim "builtins.min" [XAttr (XName "query") "limit"; XConst (PInt 9223372036854775807)]])] [];
   SReturn (Some (XTuple [XName "result_types"; XPrim "builtins.list" [XName "rows"]]))].

Lemma project_step : forall (vis : list nat) (rows : list row) loc flds,
  (forall r, In r rows -> forall i, In i vis -> (i < length r)%nat) ->
  lookup "rows" loc = Some (PList (map rowl_pv rows)) ->
  lookup "result_indexes" loc = Some (PList (map idx_pv vis)) ->
  let s := {| locals := loc; fields := flds |} in
  PyMini.eval call_ref prim s
    (XListComp (XPrim "builtins.tuple" [XListComp (XIndex (XName "row") (XName "i")) "i" (XName "result_indexes") None])
       "row" (XName "rows") None) = Ok (s, PList (map row_pv (map (project vis) rows))).
Proof.
  intros vis rows loc flds Hin Hrows Hvis s.
  rewrite (eval_listcomp call_ref prim _ _ _ s s _ (eval_name call_ref prim s "rows" _ Hrows)).
  rewrite (map_res_map_ok rowl_pv _ (fun r => row_pv (project vis r))); [rewrite map_map; reflexivity|].
  intros r Hr. unfold s. cbn [write locals fields].
  set (loc1 := update "row" (rowl_pv r) loc). set (s1 := {| locals := loc1; fields := flds |}).
  assert (Hv1 : lookup "result_indexes" loc1 = Some (PList (map idx_pv vis)))
    by (unfold loc1; rewrite lookup_update_neq by reflexivity; exact Hvis).
  rewrite (eval_prim1 call_ref prim "builtins.tuple" _ s1 s1 (PList (map (fun i => PV (cell i r)) vis))).
  - rewrite prim_tuple. unfold row_pv, project. rewrite map_map. reflexivity.
  - rewrite (eval_listcomp call_ref prim _ _ _ s1 s1 _ (eval_name call_ref prim s1 "result_indexes" _ Hv1)).
    rewrite (map_res_map_ok idx_pv _ (fun i => PV (cell i r))); [reflexivity|].
    intros i Hi. unfold s1. cbn [write locals fields].
    rewrite (eval_index call_ref prim _ _ _ _ _ (map PV r) (Z.of_nat i)
               (eval_name call_ref prim {| locals := update "i" (idx_pv i) loc1; fields := flds |} "row" (rowl_pv r)
                  ltac:(cbn [locals]; unfold loc1; rewrite lookup_update_neq by reflexivity; apply lookup_update_eq))
               (eval_name call_ref prim {| locals := update "i" (idx_pv i) loc1; fields := flds |} "i" (idx_pv i)
                  ltac:(cbn [locals]; apply lookup_update_eq))).
    rewrite (index_row r i (Hin r Hr i Hi)). reflexivity.
Qed.

Lemma prim_set_exec : prim "builtins.set" [] = Ok (PList []).
Proof. reflexivity. Qed.

Lemma rest_steps : forall (vis : list nat) (distinct : bool) (lim : option Z) (rows : list row) tbl rt loc flds,
  (forall r, In r rows -> forall i, In i vis -> (i < length r)%nat) ->
  (forall n, lim = Some n -> 0 <= n) ->
  lookup "rows" loc = Some (PList (map rowl_pv rows)) ->
  lookup "result_indexes" loc = Some (PList (map idx_pv vis)) ->
  lookup "query" loc = Some (query_obj tbl (PBool distinct) (lim_pv lim)) ->
  lookup "result_types" loc = Some rt ->
  exists s',
    exec_block call_ref prim {| locals := loc; fields := flds |} rest_stmts =
    Ok (Ret s' (PTuple [rt; PList (map row_pv (limit (clip_limit lim)
                                     ((if distinct then uniquify else fun l => l) (map (project vis) rows))))])).
Proof.
  intros vis distinct lim rows tbl rt loc flds Hin Hlim Hrows Hvis Hq Hrt.
  unfold rest_stmts. rewrite exec_block_cons.
  rewrite (exec_assign call_ref prim _ _ _ _ _ (project_step vis rows loc flds Hin Hrows Hvis)).
  cbn [bind write locals fields].
  set (P := map (project vis) rows).
  set (loc1 := update "rows" (PList (map row_pv P)) loc).
  assert (Hr1 : lookup "rows" loc1 = Some (PList (map row_pv P))) by apply lookup_update_eq.
  assert (Hq1 : lookup "query" loc1 = Some (query_obj tbl (PBool distinct) (lim_pv lim)))
    by (unfold loc1; rewrite lookup_update_neq by reflexivity; exact Hq).
  assert (Ht1 : lookup "result_types" loc1 = Some rt)
    by (unfold loc1; rewrite lookup_update_neq by reflexivity; exact Hrt).
  (* DISTINCT *)
  set (U := (if distinct then uniquify else fun l => l) P).
  assert (E2 : exists loc2,
    PyMini.exec call_ref prim {| locals := loc1; fields := flds |}
      (SIf (XAttr (XName "query") "distinct") [SAssign (TName "rows") (XCall (XConst (PRef 2)) [XName "rows"] None)] []) =
    Ok (Next {| locals := loc2; fields := flds |}) /\
    lookup "rows" loc2 = Some (PList (map row_pv U)) /\
    lookup "query" loc2 = Some (query_obj tbl (PBool distinct) (lim_pv lim)) /\ lookup "result_types" loc2 = Some rt).
  { set (s1 := {| locals := loc1; fields := flds |}).
    assert (Ec : PyMini.eval call_ref prim s1 (XAttr (XName "query") "distinct") = Ok (s1, PBool distinct)).
    { rewrite (eval_attr call_ref prim _ "distinct" s1 s1 _ (eval_name call_ref prim s1 "query" _ Hq1)) by discriminate.
      cbn [String.append]. rewrite prim_distinct. reflexivity. }
    rewrite (exec_if call_ref prim _ _ _ s1 s1 (PBool distinct) distinct Ec eq_refl).
    unfold U. destruct distinct.
    - exists (update "rows" (PList (map row_pv (uniquify P))) loc1).
      split; [|split; [apply lookup_update_eq|split; rewrite lookup_update_neq by reflexivity; assumption]].
      rewrite exec_block_cons. unfold s1.
      repeat (progress (cbn [PyMini.exec PyMini.eval bind read write locals fields do_call]; rewrite ?Hr1)).
      rewrite Huniq, (uniquify_src call_ref prim prim_set_exec P). reflexivity.
    - exists loc1. split; [reflexivity|]. split; [exact Hr1|]. split; assumption. }
  destruct E2 as [loc2 [E2 [Hr2 [Hq2 Ht2]]]].
  rewrite exec_block_cons. fold loc1. rewrite E2. cbn [bind].
  (* LIMIT *)
  set (L := limit (clip_limit lim) U).
  assert (E3 : exists loc3,
    PyMini.exec call_ref prim {| locals := loc2; fields := flds |}
      (SIf (XCompare (XAttr (XName "query") "limit") [(CIsNot, XConst PNone)])
         [SAssign (TName "rows")
            (XPrim "itertools.islice" [XName "rows";
               XPrim "builtins.min" [XAttr (XName "query") "limit"; XConst (PInt 9223372036854775807)]])] []) =
    Ok (Next {| locals := loc3; fields := flds |}) /\
    lookup "rows" loc3 = Some (PList (map row_pv L)) /\ lookup "result_types" loc3 = Some rt).
  { set (s2 := {| locals := loc2; fields := flds |}).
    assert (Ea : PyMini.eval call_ref prim s2 (XAttr (XName "query") "limit") = Ok (s2, lim_pv lim)).
    { rewrite (eval_attr call_ref prim _ "limit" s2 s2 _ (eval_name call_ref prim s2 "query" _ Hq2)) by discriminate.
      cbn [String.append]. rewrite prim_limit. reflexivity. }
    destruct lim as [n|].
    - assert (Ec : PyMini.eval call_ref prim s2 (XCompare (XAttr (XName "query") "limit") [(CIsNot, XConst PNone)]) =
                   Ok (s2, PBool true)).
      { cbn [PyMini.eval]. cbn [PyMini.eval] in Ea. rewrite Ea. reflexivity. }
      rewrite (exec_if call_ref prim _ _ _ s2 s2 (PBool true) true Ec eq_refl).
      exists (update "rows" (PList (map row_pv L)) loc2).
      split; [|split; [apply lookup_update_eq|rewrite lookup_update_neq by reflexivity; exact Ht2]].
      rewrite exec_block_cons.
      assert (Em : PyMini.eval call_ref prim s2
                     (XPrim "builtins.min" [XAttr (XName "query") "limit"; XConst (PInt 9223372036854775807)]) =
                   Ok (s2, PInt (Z.min n sys_maxsize))).
      { rewrite (eval_prim2 call_ref prim "builtins.min" _ _ s2 s2 s2 (PInt n) (PInt 9223372036854775807) Ea
                   (eq_refl : PyMini.eval call_ref prim s2 (XConst (PInt 9223372036854775807)) = Ok (s2, PInt 9223372036854775807))).
        rewrite prim_min. reflexivity. }
      rewrite (exec_assign call_ref prim _ _ s2 s2 (PList (map row_pv L))).
      + reflexivity.
      + rewrite (eval_prim2 call_ref prim "itertools.islice" _ _ s2 s2 s2 _ _
                   (eval_name call_ref prim s2 "rows" _ Hr2) Em).
        rewrite prim_islice.
        assert (Hn : (Z.min n sys_maxsize <? 0) = false).
        { apply Z.ltb_ge. specialize (Hlim n eq_refl). unfold sys_maxsize. lia. }
        rewrite Hn. cbn [bind]. unfold L, clip_limit, limit. cbn [option_map]. rewrite firstn_map. reflexivity.
    - assert (Ec : PyMini.eval call_ref prim s2 (XCompare (XAttr (XName "query") "limit") [(CIsNot, XConst PNone)]) =
                   Ok (s2, PBool false)).
      { cbn [PyMini.eval]. cbn [PyMini.eval] in Ea. rewrite Ea. reflexivity. }
      rewrite (exec_if call_ref prim _ _ _ s2 s2 (PBool false) false Ec eq_refl).
      exists loc2. split; [reflexivity|]. split; assumption. }
  destruct E3 as [loc3 [E3 [Hr3 Ht3]]].
  rewrite exec_block_cons, E3. cbn [bind].
  (* return result_types, list(rows) *)
  exists {| locals := loc3; fields := flds |}.
  rewrite exec_block_cons.
  repeat (progress (cbn [PyMini.exec PyMini.eval bind read write locals fields]; rewrite ?Hr3, ?Ht3)).
  rewrite prim_list. reflexivity.
Qed.

(* (ii) the translated tail, on any rows / order_spec / result_indexes / distinct / limit, is Order.post *)
Theorem order_tail_src : forall (spec : option (list (nat * bool))) (vis : list nat) (distinct : bool) (lim : option Z)
    (rows : list row) (tbl rt : pv),
  (forall r, In r rows -> forall i,
     In i vis \/ match spec with Some sp => In i (map fst sp) | None => False end -> (i < length r)%nat) ->
  (forall n, lim = Some n -> 0 <= n) ->
  call_fun call_ref prim exec_order_tail
    [spec_pv spec; PList (map rowl_pv rows); PList (map idx_pv vis); query_obj tbl (PBool distinct) (lim_pv lim); rt] =
  Ok (PTuple [rt; PList (map row_pv (post spec vis distinct (clip_limit lim) rows))]).
Proof.
  intros spec vis distinct lim rows tbl rt Hin Hlim.
  unfold call_fun, exec_order_tail. cbn [f_params f_body f_gen bind_params].
  fold sort_body. fold order_stmt. fold rest_stmts.
  set (loc0 := [("order_spec", spec_pv spec); ("rows", PList (map rowl_pv rows)); ("result_indexes", PList (map idx_pv vis));
                ("query", query_obj tbl (PBool distinct) (lim_pv lim)); ("result_types", rt)]).
  rewrite exec_block_cons.
  destruct (order_step spec rows loc0 [] (fun r Hr i Hi => Hin r Hr i (or_intror Hi)) eq_refl eq_refl)
    as [loc1 [E1 [R1 U1]]].
  rewrite E1. cbn [bind].
  set (rows1 := match spec with None => rows | Some sp => order_rows sp rows end) in *.
  assert (Hin1 : forall r, In r rows1 -> forall i, In i vis -> (i < length r)%nat).
  { intros r Hr i Hi. apply (Hin r); [|left; exact Hi].
    unfold rows1 in Hr. destruct spec as [sp|]; [|exact Hr].
    apply (Permutation_in _ (Permutation_sym (order_rows_perm sp rows))). exact Hr. }
  destruct (rest_steps vis distinct lim rows1 tbl rt loc1 [] Hin1 Hlim R1) as [s' E2].
  - rewrite U1 by discriminate. reflexivity.
  - rewrite U1 by discriminate. reflexivity.
  - rewrite U1 by discriminate. reflexivity.
  - rewrite E2. cbn [bind]. unfold post, rows1. destruct spec, distinct; reflexivity.
Qed.
End Tail.

(* ------------------------------------------------------------------ the non-aggregate row loop of execute_select *)
From Verif Require Import Model.Exec.

Definition is_err (v : value) : bool := match v with VErr _ => true | _ => false end.

Section RowLoop.
Variable call_ref : nat -> list pv -> pv.
Variable prim : string -> list pv -> res pv.
Variable ctx_of : row -> pv.           (* the context object the table yields for a row *)
Notation mev := Verif.Model.Eval.eval.

(* reference k behaves as compiled expression a on row r (children and conditions are opaque callables, as in
   Proofs/SrcEval.v); its value is not an exception (C04: well-typed queries) *)
Definition child_on (r : row) (k : nat) (a : enode) : Prop :=
  call_ref k [ctx_of r] = PV (mev r [] a) /\ is_err (mev r [] a) = false.

Definition where_ref (q : query) (table : list row) (cw : pv) : Prop :=
  match q_where q with
  | None => cw = PNone
  | Some w => exists k, cw = PRef k /\ forall r, In r table -> child_on r k w
  end.

Lemma do_call_child r k a : child_on r k a -> do_call call_ref (PRef k) [ctx_of r] = Ok (PV (mev r [] a)).
Proof. intros [H E]. cbn [do_call]. rewrite H. destruct (mev r [] a); try reflexivity; discriminate. Qed.

Definition row_body : list stmt :=
  [SIf (XBoolOp false [XCompare (XName "c_where") [(CIs, XConst PNone)]; XCall (XName "c_where") [XName "context"] None])
     [SAssign (TName "values")
        (XListComp (XCall (XName "c_expr") [XName "context"] None) "c_expr" (XName "c_target_exprs") None);
      SExpr (XMethod (TName "rows") "append" [XName "values"])] []].

Lemma targets_comp : forall r ks (ts : list enode) loc flds,
  Forall2 (child_on r) ks ts -> lookup "context" loc = Some (ctx_of r) ->
  map_res (fun v => bind (PyMini.eval call_ref prim (write {| locals := loc; fields := flds |} (TName "c_expr") v)
                            (XCall (XName "c_expr") [XName "context"] None)) (fun p => Ok (snd p)))
          (map PRef ks) = Ok (map PV (map (mev r []) ts)).
Proof.
  intros r ks ts loc flds Hc Hctx. induction Hc as [|k a ks ts Hk Hcs IH]; [reflexivity|].
  cbn [map map_res].
  assert (E : bind (PyMini.eval call_ref prim (write {| locals := loc; fields := flds |} (TName "c_expr") (PRef k))
                      (XCall (XName "c_expr") [XName "context"] None)) (fun p => Ok (snd p)) = Ok (PV (mev r [] a))).
  { repeat (progress (cbn [PyMini.eval read write locals fields bind];
                      rewrite ?lookup_update_eq, ?(lookup_update_neq "context" "c_expr") by reflexivity;
                      rewrite ?Hctx)).
    rewrite (do_call_child r k a Hk). reflexivity. }
  rewrite E. cbn [bind]. rewrite IH. reflexivity.
Qed.

Lemma row_loop : forall (q : query) (ks : list nat) (cw : pv) (table : list row) (acc : list row) loc flds,
  where_ref q table cw ->
  (forall r, In r table -> Forall2 (child_on r) ks (q_targets q)) ->
  lookup "c_where" loc = Some cw -> lookup "c_target_exprs" loc = Some (PList (map PRef ks)) ->
  lookup "rows" loc = Some (PList (map rowl_pv acc)) ->
  exists loc',
    for_loop call_ref prim row_body "context" {| locals := loc; fields := flds |} (map ctx_of table) =
      Ok (Next {| locals := loc'; fields := flds |}) /\
    lookup "rows" loc' = Some (PList (map rowl_pv (scan_nonagg q acc table))).
Proof.
  intros q ks cw. induction table as [|r t IH]; intros acc loc flds Hw Hts Hcw Hte Hrows.
  - exists loc. split; [reflexivity|exact Hrows].
  - cbn [map for_loop scan_nonagg]. cbn [write locals fields].
    set (loc1 := update "context" (ctx_of r) loc). set (s1 := {| locals := loc1; fields := flds |}).
    assert (Hc1 : lookup "context" loc1 = Some (ctx_of r)) by apply lookup_update_eq.
    assert (Hcw1 : lookup "c_where" loc1 = Some cw) by (unfold loc1; rewrite lookup_update_neq by reflexivity; exact Hcw).
    assert (Hte1 : lookup "c_target_exprs" loc1 = Some (PList (map PRef ks)))
      by (unfold loc1; rewrite lookup_update_neq by reflexivity; exact Hte).
    assert (Hr1 : lookup "rows" loc1 = Some (PList (map rowl_pv acc)))
      by (unfold loc1; rewrite lookup_update_neq by reflexivity; exact Hrows).
    assert (Hw' : where_ref q t cw).
    { unfold where_ref in *. destruct (q_where q); [|exact Hw].
      destruct Hw as [k [E H]]. exists k. split; [exact E|]. intros r' Hr'. apply H. right. exact Hr'. }
    assert (Hts' : forall r', In r' t -> Forall2 (child_on r') ks (q_targets q)) by (intros r' Hr'; apply Hts; right; exact Hr').
    (* the condition: c_where is None or c_where(context) *)
    assert (Econd : exists cv, PyMini.eval call_ref prim s1
              (XBoolOp false [XCompare (XName "c_where") [(CIs, XConst PNone)];
                              XCall (XName "c_where") [XName "context"] None]) = Ok (s1, cv) /\
              pv_truthy cv = Ok (passes q r)).
    { unfold where_ref in Hw. unfold passes. destruct (q_where q) as [w|].
      - destruct Hw as [k [-> H]]. pose proof (H r (or_introl eq_refl)) as Hk.
        exists (PV (mev r [] w)). split.
        + unfold s1. repeat (progress (cbn [PyMini.eval bind read locals fields compare1 pv_is_none PNone pv_truthy PBool
                                            truthy Bool.eqb]; rewrite ?Hcw1, ?Hc1)).
          rewrite (do_call_child r k w Hk). reflexivity.
        + destruct Hk as [_ He]. destruct (mev r [] w); try reflexivity; discriminate.
      - subst cw. exists (PBool true). split; [|reflexivity].
        unfold s1. repeat (progress (cbn [PyMini.eval bind read locals fields compare1 pv_is_none PNone pv_truthy PBool
                                          truthy Bool.eqb]; rewrite ?Hcw1)). reflexivity. }
    destruct Econd as [cv [Ec Et]].
    unfold row_body at 1. rewrite exec_block_cons. fold s1.
    rewrite (exec_if call_ref prim _ _ _ s1 s1 cv (passes q r) Ec Et).
    destruct (passes q r).
    + rewrite exec_block_cons.
      assert (Ev : PyMini.eval call_ref prim s1
                (XListComp (XCall (XName "c_expr") [XName "context"] None) "c_expr" (XName "c_target_exprs") None) =
              Ok (s1, rowl_pv (map (mev r []) (q_targets q)))).
      { rewrite (eval_listcomp call_ref prim _ _ _ s1 s1 _ (eval_name call_ref prim s1 "c_target_exprs" _ Hte1)).
        unfold s1. rewrite (targets_comp r ks (q_targets q) loc1 flds (Hts r (or_introl eq_refl)) Hc1). reflexivity. }
      rewrite (exec_assign call_ref prim _ _ _ _ _ Ev). cbn [bind]. unfold s1. cbn [write locals fields].
      set (vals := map (mev r []) (q_targets q)).
      set (loc2 := update "values" (rowl_pv vals) loc1).
      assert (Hv2 : lookup "values" loc2 = Some (rowl_pv vals)) by apply lookup_update_eq.
      assert (Hr2 : lookup "rows" loc2 = Some (PList (map rowl_pv acc)))
        by (unfold loc2; rewrite lookup_update_neq by reflexivity; exact Hr1).
      rewrite exec_block_cons.
      repeat (progress (cbn [PyMini.exec PyMini.eval bind read write locals fields method_call
                             String.eqb Ascii.eqb Bool.eqb exec_block]; rewrite ?Hv2, ?Hr2)).
      apply (IH (acc ++ [vals])); try assumption.
      * unfold loc2, loc1. rewrite !lookup_update_neq by reflexivity. exact Hcw.
      * unfold loc2, loc1. rewrite !lookup_update_neq by reflexivity. exact Hte.
      * rewrite lookup_update_eq, map_app. reflexivity.
    + cbn [exec_block bind]. apply (IH acc); assumption.
Qed.

(* (iii) the translated non-aggregate loop appends, for every row that passes c_where, the list of target values:
   Exec.scan_nonagg *)
Theorem row_loop_src : forall (q : query) (ks : list nat) (cw qobj : pv) (table acc : list row),
  qobj <> PSelf -> prim "attr:table" [qobj] = Ok (PList (map ctx_of table)) ->
  where_ref q table cw ->
  (forall r, In r table -> Forall2 (child_on r) ks (q_targets q)) ->
  exists s',
    exec_block call_ref prim
      {| locals := [("query", qobj); ("c_where", cw); ("c_target_exprs", PList (map PRef ks));
                    ("rows", PList (map rowl_pv acc))]; fields := [] |} (f_body exec_row_loop) = Ok (Next s') /\
    lookup "rows" (locals s') = Some (PList (map rowl_pv (scan_nonagg q acc table))).
Proof.
  intros q ks cw qobj table acc Hq Htab Hw Hts. unfold exec_row_loop. cbn [f_body]. fold row_body.
  set (s0 := {| locals := [("query", qobj); ("c_where", cw); ("c_target_exprs", PList (map PRef ks));
                           ("rows", PList (map rowl_pv acc))]; fields := [] |}).
  rewrite exec_block_cons.
  rewrite (exec_for call_ref prim "context" _ _ s0 s0 (map ctx_of table)).
  2:{ rewrite (eval_attr call_ref prim (XName "query") "table" s0 s0 qobj
                 (eval_name call_ref prim s0 "query" qobj eq_refl) Hq). cbn [String.append]. rewrite Htab. reflexivity. }
  destruct (row_loop q ks cw table acc (locals s0) [] Hw Hts eq_refl eq_refl eq_refl) as [loc' [E R]].
  unfold s0 in *. cbn [locals] in E. rewrite E. cbn [bind exec_block].
  eexists. split; [reflexivity|exact R].
Qed.
End RowLoop.

(* ------------------------------------------------------------------ corollaries and satisfiability of the hypotheses *)
(* the translated tail computes ONE stable sort by the directed lexicographic key order, then projection, DISTINCT,
   LIMIT (C03_pipeline applied to what the source says) *)
Corollary order_tail_lex_src : forall call_ref,
  (forall args, call_ref 1%nat args = partial_clo 1 args) ->
  (forall l, call_ref 2%nat [PList l] =
             res_pv (call_fun call_ref (prims_exec call_ref exec_nig_single exec_nig_multi 1) exec_uniquify [PList l])) ->
  forall (sp : list (nat * bool)) (vis : list nat) (distinct : bool) (lim : option Z) (rows : list row) (tbl rt : pv),
  (forall r, In r rows -> forall i, In i vis \/ In i (map fst sp) -> (i < length r)%nat) ->
  (forall n, lim = Some n -> 0 <= n) ->
  call_fun call_ref (prims_exec call_ref exec_nig_single exec_nig_multi 1) exec_order_tail
    [spec_pv (Some sp); PList (map rowl_pv rows); PList (map idx_pv vis); query_obj tbl (PBool distinct) (lim_pv lim); rt] =
  Ok (PTuple [rt; PList (map row_pv
        (limit (clip_limit lim) ((if distinct then uniquify else fun l => l)
                                   (map (project vis) (isort (spec_le sp) rows)))))]).
Proof.
  intros call_ref Hnig Huniq sp vis distinct lim rows tbl rt Hin Hlim.
  rewrite (order_tail_src call_ref Hnig Huniq (Some sp) vis distinct lim rows tbl rt Hin Hlim).
  rewrite post_pipeline. reflexivity.
Qed.

(* a concrete linking of the opaque callables that satisfies the hypotheses of order_tail_src *)
Definition demo_ref : nat -> list pv -> pv :=
  fun k args =>
    match k with
    | 1%nat => partial_clo 1 args
    | 2%nat => match args with [PList l] => PList (uniq_pv [] l) | _ => PNone end
    | _ => PNone
    end.

Lemma demo_ref_linked :
  (forall args, demo_ref 1%nat args = partial_clo 1 args) /\
  (forall l, demo_ref 2%nat [PList l] =
             res_pv (call_fun demo_ref (prims_exec demo_ref exec_nig_single exec_nig_multi 1) exec_uniquify [PList l])).
Proof.
  split; [reflexivity|]. intros l.
  rewrite (uniquify_src_pv demo_ref (prims_exec demo_ref exec_nig_single exec_nig_multi 1) eq_refl l). reflexivity.
Qed.

(* the clipped limit is the limit whenever LIMIT does not exceed sys.maxsize *)
Lemma clip_limit_small lim : (forall n, lim = Some n -> n <= sys_maxsize) -> clip_limit lim = lim.
Proof.
  intros H. destruct lim as [n|]; [|reflexivity]. unfold clip_limit. cbn [option_map].
  rewrite Z.min_l by (apply H; reflexivity). reflexivity.
Qed.
