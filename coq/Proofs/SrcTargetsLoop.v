(* Tie by translation, C07 (group `targets`), second part (bld-compiler4): the LOOP of Compiler._compile_targets
   (Gen/SrcTargets.v, regenerated from the live source on every run; the wildcard expansion in front of it is tied in
   Proofs/SrcTargets.v).  For every list of parsed targets:

     compile_targets_src   each target's expression is compiled in order (self.table threaded through self._compile),
                           named by get_target_name, flagged by is_aggregate, appended to c_targets; then the two
                           aggregate checks (mixed aggregates and non-aggregates; aggregates of aggregates) - the first
                           failing target decides the error; the list is returned in the order of the targets;
     p_targets_model       that is Compile.compile_target per target (Model/Compile.v), when get_target_name returns
                           Compile.target_name (tied in Proofs/SrcNaming.v) and the compilation the model's node.

   get_target_name, is_aggregate, get_columns_and_aggregates are opaque callables assumed to return the model's values
   (each tied separately: C07_source_target_name, C05_source_is_aggregate, C05_source_get_columns_and_aggregates);
   [kids a] are the references of the children of node a. *)
From Coq Require Import String Ascii ZArith List Bool Lia.
Import ListNotations.
From Verif Require Import Base.PyValue Model.Eval Model.PyMini Model.PrimsApi Model.PrimsCompiler Model.PrimsSelect
  Proofs.PyMiniLemmas Proofs.PyMiniLemmas2 Proofs.SrcApi.
From Verif Require Model.Compile Proofs.CompileProofs Proofs.SrcCompilerWalk Proofs.SrcTargets.
From Verif Require Import Gen.SrcTargets.
Open Scope string_scope.
Open Scope list_scope.
Open Scope Z_scope.

Notation cerr := Compile.cerr.
Arguments CompErr : simpl never.

Definition kTN : nat := 0.    (* refs: beanquery.compiler.get_target_name *)
Definition kAG : nat := 1.    (* refs: beanquery.compiler.is_aggregate *)
Definition kCA : nat := 2.    (* refs: beanquery.compiler.get_columns_and_aggregates *)
Lemma refs_checked : ref_of refs "beanquery.compiler.get_target_name" = Some kTN
                     /\ ref_of refs "beanquery.compiler.is_aggregate" = Some kAG
                     /\ ref_of refs "beanquery.compiler.get_columns_and_aggregates" = Some kCA.
Proof. repeat split; reflexivity. Qed.

Definition enc_res {A} (f : A -> pv) (r : Compile.result A cerr) : pv :=
  match r with Compile.Ok a => f a | Compile.Err e => PV (VErr (CompErr e)) end.

(* ast.Target(expression, name) *)
Definition TGT (x : pv * pv) : pv := record (zs TARGET) [("expression", fst x); ("name", snd x)].

Definition loop_stmt : stmt := Eval cbv in nth 2 (f_body compile_targets) SPass.
Definition loop_body : list stmt := Eval cbv in match loop_stmt with SFor _ _ b => b | _ => [] end.
Definition outer_body : list stmt :=
  Eval cbv in match nth 5 loop_body SPass with SFor _ _ b => b | _ => [] end.
Definition inner_body : list stmt :=
  Eval cbv in match nth 0 outer_body SPass with SFor _ _ b => b | _ => [] end.

Lemma body_shape :
  f_body compile_targets =
  [nth 0 (f_body compile_targets) SPass; SAssign (TName "c_targets") (XList []);
   SFor "target" (XName "targets") loop_body; SReturn (Some (XName "c_targets"))]
  /\ nth 5 loop_body SPass = SFor "aggregate" (XName "aggregates") outer_body
  /\ outer_body = [SFor "child" (XCallMethod (XName "aggregate") "childnodes" []) inner_body].
Proof. repeat split; reflexivity. Qed.

Lemma as_nref_nref i : as_nref (nref i) = Some i.
Proof.
  unfold as_nref, nref, PStr, PInt. rewrite zeqb_refl. cbn [andb].
  destruct (Z.leb_spec 0 (Z.of_nat i)); [now rewrite Nat2Z.id|lia].
Qed.

Lemma match_tgt {A} x (a b : A) : match TGT x with PSelf => a | _ => b end = b.
Proof. reflexivity. Qed.

Section Tie.
Variable call_ref : nat -> list pv -> pv.
Variable tbl : nat -> Compile.cnode.
Variable kids : nat -> list nat.
Variable mro : string -> list string.
Variable msg : string -> list pv -> pv.
Variable updatable : pv -> bool.
Variable upd : pv -> pv -> pv -> pv -> pv.
Notation prim := (prim_select tbl kids mro msg updatable upd).
Notation eval := (PyMini.eval call_ref prim).
Notation exec := (PyMini.exec call_ref prim).
Notation exec_block := (PyMini.exec_block call_ref prim).
Notation for_loop := (for_loop call_ref prim).

Ltac lk := repeat first [rewrite lookup_update_eq | rewrite lookup_update_neq by reflexivity].
Ltac run := repeat (progress (cbn [PyMini.exec_block PyMini.exec PyMini.eval bind read write locals fields pv_truthy truthy
                                   PBool PNone PInt compare1 pv_is_none negb andb orb is_null rank Pos.eqb Z.eqb
                                   method_call String.eqb Ascii.eqb Bool.eqb binop1 binop_builtin fst snd existsb
                                   ValueError as_bound do_call]; lk)).

Variable kC : nat.
Variable rest : env.
Definition flds (t : pv) : env := ("table", t) :: ("_compile", PRef kC) :: rest.

(* self._compile as a function of the table it finds and the expression: the table it leaves and the node *)
Variable rc : pv -> pv -> Compile.result (pv * nat) cerr.
Hypothesis Hrc : forall t x, call_ref kC [t; x] = enc_res (fun p => PTuple [fst p; nref (snd p)]) (rc t x).
Variable nm : pv -> string.
Hypothesis Hname : forall tg, call_ref kTN [tg] = PStr (nm tg).
Hypothesis Hagg : forall c, call_ref kAG [nref c] = PBool (Compile.has_agg (tbl c)).
Variable colsf aggsf : nat -> list nat.
Hypothesis Hca : forall i, call_ref kCA [nref i] = PTuple [PList (map nref (colsf i)); PList (map nref (aggsf i))].
Hypothesis Hcols : forall i, map tbl (colsf i) = fst (Compile.cols_aggs (tbl i)).
Hypothesis Haggs : forall i, map tbl (aggsf i) = snd (Compile.cols_aggs (tbl i)).
Hypothesis Hkids : forall a, map tbl (kids a) = Compile.children (tbl a).

Lemma prim_raise cls lead m : prim "raise" [PV (VStr cls); PV (VStr lead); m] = Exc (exc_code_select cls lead).
Proof. reflexivity. Qed.

Lemma childnodes_nref i : prim ("call:" ++ "childnodes") [nref i] = Ok (PList (map nref (kids i))).
Proof.
  change (prim ("call:" ++ "childnodes") [nref i])
    with (match as_nref (nref i) with Some j => Ok (A:=pv) (PList (map nref (kids j))) | None => Stuck end).
  now rewrite as_nref_nref.
Qed.

Lemma prim_et i n a :
  prim "beanquery.query_compile.EvalTarget" [nref i; PV (VStr (zs n)); PV (VBool a)] = Ok (enc_target (i, Some n, a)).
Proof. reflexivity. Qed.

(* ---- aggregates of aggregates: the two nested loops (as in compiler.check_aggregates, Proofs/SrcCompilerWalk.v) *)
Lemma chk_inner : forall (ks : list nat) loc fl,
  if existsb (fun c => Compile.has_agg (tbl c)) ks
  then for_loop inner_body "child" {| locals := loc; fields := fl |} (map nref ks) = Exc (CompErr Compile.EAggOfAgg)
  else exists loc', for_loop inner_body "child" {| locals := loc; fields := fl |} (map nref ks) =
                    Ok (Next {| locals := loc'; fields := fl |})
                    /\ forall x, x <> "child" -> lookup x loc' = lookup x loc.
Proof.
  induction ks as [|c t IH]; intros loc fl.
  - exists loc. split; reflexivity.
  - assert (Estep : for_loop inner_body "child" {| locals := loc; fields := fl |} (nref c :: map nref t) =
                    if Compile.has_agg (tbl c) then Exc (CompErr Compile.EAggOfAgg)
                    else for_loop inner_body "child" {| locals := update "child" (nref c) loc; fields := fl |}
                           (map nref t)).
    { cbn [PyMiniLemmas.for_loop]. unfold inner_body at 1. run. change 1%nat with kAG. rewrite Hagg.
      destruct (Compile.has_agg (tbl c)); run; [rewrite prim_raise; reflexivity|reflexivity]. }
    cbn [map existsb]. rewrite Estep.
    specialize (IH (update "child" (nref c) loc) fl).
    destruct (Compile.has_agg (tbl c)); cbn [orb]; [reflexivity|].
    destruct (existsb (fun c0 => Compile.has_agg (tbl c0)) t); [exact IH|].
    destruct IH as (loc' & E & L). exists loc'. split; [exact E|].
    intros x Hx. rewrite L by exact Hx. apply lookup_update_other. exact Hx.
Qed.

Lemma chk_outer : forall (ags : list nat) loc fl,
  if existsb (fun a => existsb (fun c => Compile.has_agg (tbl c)) (kids a)) ags
  then for_loop outer_body "aggregate" {| locals := loc; fields := fl |} (map nref ags) = Exc (CompErr Compile.EAggOfAgg)
  else exists loc', for_loop outer_body "aggregate" {| locals := loc; fields := fl |} (map nref ags) =
                    Ok (Next {| locals := loc'; fields := fl |})
                    /\ forall x, x <> "child" -> x <> "aggregate" -> lookup x loc' = lookup x loc.
Proof.
  induction ags as [|a t IH]; intros loc fl.
  - exists loc. split; reflexivity.
  - pose proof (chk_inner (kids a) (update "aggregate" (nref a) loc) fl) as HI.
    assert (Estep : for_loop outer_body "aggregate" {| locals := loc; fields := fl |} (nref a :: map nref t) =
                    bind (for_loop inner_body "child" {| locals := update "aggregate" (nref a) loc; fields := fl |}
                            (map nref (kids a)))
                      (fun o => match o with
                                | Next s1 => for_loop outer_body "aggregate" s1 (map nref t)
                                | Ret _ _ => Ok o
                                end)).
    { cbn [PyMiniLemmas.for_loop]. unfold outer_body at 1. rewrite exec_block_cons.
      rewrite (exec_for call_ref prim "child" _ inner_body _
                 {| locals := update "aggregate" (nref a) loc; fields := fl |} (map nref (kids a)))
        by (cbn [PyMini.eval bind read write locals fields]; rewrite lookup_update_eq; cbn [bind];
            rewrite childnodes_nref; reflexivity).
      cbn [write locals fields].
      destruct (for_loop inner_body "child" {| locals := update "aggregate" (nref a) loc; fields := fl |}
                  (map nref (kids a))) as [[s1|s1 v]| |]; reflexivity. }
    cbn [map existsb]. rewrite Estep.
    destruct (existsb (fun c => Compile.has_agg (tbl c)) (kids a)); cbn [orb].
    + rewrite HI. reflexivity.
    + destruct HI as (loc1 & -> & L1). cbn [bind]. specialize (IH loc1 fl).
      destruct (existsb (fun a0 => existsb (fun c => Compile.has_agg (tbl c)) (kids a0)) t); [exact IH|].
      destruct IH as (loc' & E & L). exists loc'. split; [exact E|].
      intros x Hx Hx'. rewrite L, L1 by assumption. apply lookup_update_other. exact Hx'.
Qed.

(* the model's check in terms of the walk's two lists *)
Lemma check_by_lists i :
  Compile.check_aggregates (tbl i) =
  if CompileProofs.nonempty (colsf i) && CompileProofs.nonempty (aggsf i) then Some Compile.EMixedAgg
  else if existsb (fun a => existsb (fun c => Compile.has_agg (tbl c)) (kids a)) (aggsf i) then Some Compile.EAggOfAgg
  else None.
Proof.
  unfold Compile.check_aggregates.
  destruct (CompileProofs.predicates_are_the_walk (tbl i)) as [Pc Pa]. rewrite Pc, Pa, <- Hcols, <- Haggs.
  rewrite SrcCompilerWalk.nested_agg_walk, <- Haggs.
  assert (En : existsb SrcCompilerWalk.agg_kids (map tbl (aggsf i)) =
               existsb (fun a => existsb (fun c => Compile.has_agg (tbl c)) (kids a)) (aggsf i)).
  { generalize (aggsf i). intros ags. induction ags as [|a t IH]; [reflexivity|]. cbn [map existsb]. rewrite IH. f_equal.
    unfold SrcCompilerWalk.agg_kids. rewrite <- (Hkids a).
    generalize (kids a). intros l. induction l as [|x r IHl]; [reflexivity|]. cbn. now rewrite IHl. }
  rewrite En.
  assert (Ne : forall l : list nat, CompileProofs.nonempty (map tbl l) = CompileProofs.nonempty l) by (intros [|? ?]; reflexivity).
  now rewrite !Ne.
Qed.

(* ---- the loop over the targets *)
Definition tname (x : pv * pv) : string := nm (TGT x).

Fixpoint p_targets (t : pv) (l : list (pv * pv)) : Compile.result (pv * list ptarget) cerr :=
  match l with
  | [] => Compile.Ok (t, [])
  | x :: r =>
      Compile.bind (rc t (fst x)) (fun p =>
      match Compile.check_aggregates (tbl (snd p)) with
      | Some er => Compile.Err er
      | None => Compile.bind (p_targets (fst p) r) (fun q =>
                Compile.Ok (fst q, (snd p, Some (tname x), Compile.has_agg (tbl (snd p))) :: snd q))
      end)
  end.

Definition inv (loc : env) (acc : list ptarget) : Prop :=
  lookup "self" loc = Some PSelf /\ lookup "c_targets" loc = Some (enc_targets acc).

Definition new_target (x : pv * pv) (i : nat) : ptarget := (i, Some (tname x), Compile.has_agg (tbl i)).

Definition loc5 (loc : env) (x : pv * pv) (i : nat) (acc : list ptarget) : env :=
  update "aggregates" (PList (map nref (aggsf i)))
    (update "columns" (PList (map nref (colsf i)))
       (update "c_targets" (enc_targets (acc ++ [new_target x i]))
          (update "name" (PStr (nm (TGT x))) (update "c_expr" (nref i) (update "target" (TGT x) loc))))).

Ltac run' := repeat (progress (cbn [PyMini.exec_block PyMini.exec PyMini.eval bind read write locals fields pv_truthy truthy
                                   PBool PNone PInt compare1 pv_is_none negb andb orb is_null rank Pos.eqb Z.eqb
                                   method_call String.eqb Ascii.eqb Bool.eqb binop1 binop_builtin fst snd existsb
                                   ValueError as_bound do_call flds lookup update PStr]; lk)).

(* compile the expression, name the target, append it, walk it *)
Lemma body_prefix loc t x acc :
  inv loc acc ->
  exec_block {| locals := update "target" (TGT x) loc; fields := flds t |} loop_body =
  match rc t (fst x) with
  | Compile.Err er => Exc (CompErr er)
  | Compile.Ok (t1, i) => exec_block {| locals := loc5 loc x i acc; fields := flds t1 |} (skipn 4 loop_body)
  end.
Proof.
  intros [Hs Hc]. unfold loop_body. cbn [skipn].
  match goal with |- context [PyMini.exec_block _ _ _ (_ :: _ :: _ :: _ :: ?tl)] => remember tl as TL eqn:ETL end.
  run'. repeat (rewrite Hs; run').
  change (prim ("attr:" ++ "expression") [TGT x]) with (Ok (A:=pv) (fst x)). run'.
  rewrite match_tgt.
  run'. rewrite Hrc. destruct (rc t (fst x)) as [[t1 i]|er]; cbn [enc_res]; [|reflexivity].
  run'. change (call_ref 0%nat) with (call_ref kTN). rewrite Hname. run'.
  change (call_ref 1%nat) with (call_ref kAG). rewrite Hagg. run'.
  rewrite prim_et. fold (tname x). fold (new_target x i). run'. rewrite Hc. unfold enc_targets. run'.
  change (map enc_target acc ++ [enc_target (new_target x i)]) with (map enc_target acc ++ map enc_target [new_target x i]).
  rewrite <- map_app.
  change (call_ref 2%nat) with (call_ref kCA). rewrite Hca. run'.
  reflexivity.
Qed.

(* the two aggregate checks *)
Lemma body_checks loc t1 x i acc :
  match Compile.check_aggregates (tbl i) with
  | Some er => exec_block {| locals := loc5 loc x i acc; fields := flds t1 |} (skipn 4 loop_body) = Exc (CompErr er)
  | None => exists loc6, exec_block {| locals := loc5 loc x i acc; fields := flds t1 |} (skipn 4 loop_body) =
                         Ok (Next {| locals := loc6; fields := flds t1 |})
                         /\ forall y, y <> "child" -> y <> "aggregate" -> lookup y loc6 = lookup y (loc5 loc x i acc)
  end.
Proof.
  rewrite check_by_lists.
  assert (Emix : eval {| locals := loc5 loc x i acc; fields := flds t1 |}
                   (XBoolOp true [XName "columns"; XName "aggregates"]) =
                 Ok ({| locals := loc5 loc x i acc; fields := flds t1 |},
                     match colsf i with [] => PList [] | _ => PList (map nref (aggsf i)) end)).
  { unfold loc5. run'. destruct (colsf i); reflexivity. }
  assert (Etr : pv_truthy (match colsf i with [] => PList [] | _ => PList (map nref (aggsf i)) end) =
                Ok (CompileProofs.nonempty (colsf i) && CompileProofs.nonempty (aggsf i))).
  { destruct (colsf i); [reflexivity|]. destruct (aggsf i); reflexivity. }
  pose proof (chk_outer (aggsf i) (loc5 loc x i acc) (flds t1)) as HO.
  assert (Efor : eval {| locals := loc5 loc x i acc; fields := flds t1 |} (XName "aggregates") =
                 Ok ({| locals := loc5 loc x i acc; fields := flds t1 |}, PList (map nref (aggsf i))))
    by (unfold loc5; run'; reflexivity).
  cbn [skipn loop_body].
  destruct (CompileProofs.nonempty (colsf i) && CompileProofs.nonempty (aggsf i)).
  - rewrite exec_block_cons, (exec_if call_ref prim _ _ _ _ _ _ _ Emix Etr). run'. rewrite prim_raise. reflexivity.
  - destruct (existsb (fun a => existsb (fun c => Compile.has_agg (tbl c)) (kids a)) (aggsf i)).
    + rewrite exec_block_cons, (exec_if call_ref prim _ _ _ _ _ _ _ Emix Etr).
      rewrite exec_block_nil. cbn [bind]. rewrite exec_block_cons.
      rewrite (exec_for call_ref prim "aggregate" _ _ _ _ _ Efor). fold outer_body. rewrite HO. reflexivity.
    + destruct HO as (loc6 & E6 & L6). exists loc6. split; [|exact L6].
      rewrite exec_block_cons, (exec_if call_ref prim _ _ _ _ _ _ _ Emix Etr).
      rewrite exec_block_nil. cbn [bind]. rewrite exec_block_cons.
      rewrite (exec_for call_ref prim "aggregate" _ _ _ _ _ Efor). fold outer_body. rewrite E6. reflexivity.
Qed.

Lemma targets_loop : forall (l : list (pv * pv)) t loc acc, inv loc acc ->
  match p_targets t l with
  | Compile.Err er => for_loop loop_body "target" {| locals := loc; fields := flds t |} (map TGT l) = Exc (CompErr er)
  | Compile.Ok (t', pts) =>
      exists loc', for_loop loop_body "target" {| locals := loc; fields := flds t |} (map TGT l) =
                   Ok (Next {| locals := loc'; fields := flds t' |}) /\ inv loc' (acc ++ pts)
  end.
Proof.
  induction l as [|x r IH]; intros t loc acc Hinv.
  - cbn. exists loc. rewrite app_nil_r. split; [reflexivity|exact Hinv].
  - cbn [p_targets map PyMiniLemmas.for_loop write locals fields].
    rewrite (body_prefix loc t x acc Hinv).
    destruct (rc t (fst x)) as [[t1 i]|er]; cbn [Compile.bind fst snd]; [|reflexivity].
    pose proof (body_checks loc t1 x i acc) as HC.
    destruct (Compile.check_aggregates (tbl i)) as [er|].
    { rewrite HC. reflexivity. }
    destruct HC as (loc6 & E6 & L6).
    assert (Hinv6 : inv loc6 (acc ++ [new_target x i])).
    { destruct Hinv as [Hs Hc]. split; rewrite L6 by discriminate; unfold loc5; lk; [exact Hs|reflexivity]. }
    specialize (IH t1 loc6 _ Hinv6). fold (new_target x i).
    destruct (p_targets t1 r) as [[t2 pts]|er]; cbn [Compile.bind fst snd].
    + destruct IH as (loc' & E & I'). exists loc'. rewrite E6. cbn [bind]. split; [exact E|].
      rewrite <- app_assoc in I'. exact I'.
    + rewrite E6. cbn [bind]. exact IH.
Qed.

Theorem compile_targets_src : forall (l : list (pv * pv)) t0,
  call_method call_ref prim compile_targets (flds t0) [PList (map TGT l)] =
  match p_targets t0 l with
  | Compile.Ok (t', pts) => Ok (flds t', enc_targets pts)
  | Compile.Err e => Exc (CompErr e)
  end.
Proof.
  intros l t0. unfold call_method. destruct body_shape as (-> & _ & _).
  change (f_params compile_targets) with ["self"; "targets"]. change (f_gen compile_targets) with false.
  cbn [bind_params bind].
  rewrite exec_block_cons.
  rewrite (Verif.Proofs.SrcTargets.wildcard_keep_src call_ref tbl kids mro msg updatable upd _ (map TGT l)) by reflexivity.
  cbn [bind]. rewrite exec_block_cons.
  cbn [PyMini.exec PyMini.eval bind write locals fields update String.eqb Ascii.eqb Bool.eqb].
  rewrite exec_block_cons.
  set (loc0 := [("self", PSelf); ("targets", PList (map TGT l)); ("c_targets", PList [])]).
  rewrite (exec_for call_ref prim "target" _ loop_body _ {| locals := loc0; fields := flds t0 |} (map TGT l))
    by reflexivity.
  pose proof (targets_loop l t0 loc0 [] (conj eq_refl eq_refl)) as HL.
  destruct (p_targets t0 l) as [[t' pts]|er].
  - destruct HL as (loc' & -> & _ & Hc). cbn [bind app] in *. run. rewrite Hc. reflexivity.
  - rewrite HL. reflexivity.
Qed.

(* ---- [p_targets] is the model's target compilation (the `go` of Compile.comp's SELECT clause: Compile.compile_target
   per target, the first error wins), when get_target_name returns Compile.target_name and self._compile the model's
   node *)
Definition T (t : ptarget) : Compile.ctarget := match t with (i, n, a) => Compile.mk_target (tbl i) n a end.

Variable node_of : pv -> Compile.rnode.
Hypothesis Hnode : forall t x, match rc t x with
                               | Compile.Ok (_, i) => node_of x = Compile.Ok (tbl i)
                               | Compile.Err e => node_of x = Compile.Err e
                               end.

Fixpoint m_targets (l : list (pv * pv)) (ml : list (Compile.expr * option string * string))
  : Compile.result (list Compile.ctarget) cerr :=
  match l, ml with
  | x :: r, (ex, al, tx) :: mr =>
      Compile.bind (Compile.compile_target ex al tx (node_of (fst x))) (fun c =>
      Compile.bind (m_targets r mr) (fun rs => Compile.Ok (c :: rs)))
  | _, _ => Compile.Ok []
  end.

Lemma p_targets_model : forall l ml,
  Forall2 (fun x m => match m with (ex, al, tx) => tname x = Compile.target_name ex al tx end) l ml ->
  forall t, match p_targets t l with
            | Compile.Ok (_, pts) => m_targets l ml = Compile.Ok (map T pts)
            | Compile.Err e => m_targets l ml = Compile.Err e
            end.
Proof.
  induction 1 as [|x [[ex al] tx] r mr Hx _ IH]; intros t; [reflexivity|].
  cbn [p_targets m_targets]. pose proof (Hnode t (fst x)) as Hn.
  destruct (rc t (fst x)) as [[t1 i]|er]; rewrite Hn; cbn [Compile.bind Compile.compile_target fst snd]; [|reflexivity].
  destruct (Compile.check_aggregates (tbl i)) as [er|]; [reflexivity|]. cbn [Compile.bind].
  specialize (IH t1). destruct (p_targets t1 r) as [[t2 pts]|er]; rewrite IH; cbn [Compile.bind fst snd map T]; [|reflexivity].
  now rewrite Hx.
Qed.

End Tie.
