(* Tie by translation, PIVOT BY: the PyMini term generated on every run from the SOURCE of the EvalPivot branch of
   query_execute.execute_query, statements `pivoted = []` .. `return columns, pivoted` (Gen/SrcExec.v:
   exec_pivot_fill), computes for ALL rows / pivot columns / key lists the rows of Model/Pivot.v's [pivot]: sort by the
   first pivot column (NULL first), group consecutive rows with equal first column, and per group write each row's
   remaining columns into the block of its key by slice assignment ([build_row]).
   The key list, `other` (a lambda) and the header are computed by statements outside the PyMini fragment; they enter
   as parameters: `keys` is ANY list that contains every row's second pivot column, `other` an opaque callable that
   returns the remaining columns of a row. *)
From Coq Require Import String ZArith List Bool Lia Permutation.
Import ListNotations.
From Verif Require Import Base.StableSort Base.PyValue Proofs.PyValueProofs Model.Eval Model.Order Proofs.OrderProofs
  Model.Pivot Model.PyMini Model.PrimsExec Gen.SrcExec Proofs.PyMiniLemmas Proofs.PyMiniLemmas2 Proofs.SrcExec.
Open Scope string_scope.
Open Scope list_scope.
Open Scope Z_scope.

Local Arguments val_le : simpl never.
Local Arguments val_eq : simpl never.

(* ------------------------------------------------------------------ list facts *)
Lemma tuple_le_single x y : tuple_le [x] [y] = val_le x y.
Proof.
  unfold tuple_le. cbn [tuple_lt]. unfold val_lt.
  destruct (val_eq y x) eqn:E; cbn [negb].
  - unfold val_eq, eqv in E. apply andb_prop in E as [_ E]. symmetry. exact E.
  - apply negb_involutive.
Qed.

Lemma concat_repeat_single {A} (x : A) n : concat (repeat [x] n) = repeat x n.
Proof. induction n as [|n IH]; [reflexivity|]. cbn [repeat concat app]. rewrite IH. reflexivity. Qed.

Lemma map_repeat' {A B} (f : A -> B) x n : map f (repeat x n) = repeat (f x) n.
Proof. induction n as [|n IH]; [reflexivity|]. cbn [repeat map]. rewrite IH. reflexivity. Qed.

Lemma firstn_clip {A} (l : list A) (i : nat) :
  firstn (Z.to_nat (clipz (Z.of_nat (length l)) (Z.of_nat i))) l = firstn i l.
Proof.
  unfold clipz. assert (E : (Z.of_nat i <? 0) = false) by (apply Z.ltb_ge; lia). rewrite E.
  destruct (Nat.le_gt_cases i (length l)) as [H|H].
  - rewrite Z.min_l by lia. rewrite Nat2Z.id. reflexivity.
  - rewrite Z.min_r by lia. rewrite Nat2Z.id. rewrite !firstn_all2 by lia. reflexivity.
Qed.

Lemma skipn_clip {A} (l : list A) (i j : nat) : (i <= j)%nat ->
  skipn (Z.to_nat (Z.max (clipz (Z.of_nat (length l)) (Z.of_nat i)) (clipz (Z.of_nat (length l)) (Z.of_nat j)))) l =
  skipn j l.
Proof.
  intros Hij. unfold clipz.
  assert (E1 : (Z.of_nat i <? 0) = false) by (apply Z.ltb_ge; lia).
  assert (E2 : (Z.of_nat j <? 0) = false) by (apply Z.ltb_ge; lia). rewrite E1, E2.
  destruct (Nat.le_gt_cases j (length l)) as [H|H].
  - rewrite Z.max_r by lia. rewrite Z.min_l by lia. rewrite Nat2Z.id. reflexivity.
  - rewrite Z.max_r by lia. rewrite Z.min_r by lia. rewrite Nat2Z.id. rewrite !skipn_all2 by lia. reflexivity.
Qed.

(* ------------------------------------------------------------------ groupby: adjacent runs = runs against the group key *)
Fixpoint runs_rows (c : nat) (rows : list row) : list (value * list row) :=
  match rows with
  | [] => []
  | r :: t =>
      match runs_rows c t with
      | (k', g') :: rest => if val_eq (cell c r) k' then (cell c r, r :: g') :: rest
                            else (cell c r, [r]) :: (k', g') :: rest
      | [] => [(cell c r, [r])]
      end
  end.

Definition absorb (kg : value * list row) (l : list (value * list row)) : list (value * list row) :=
  match l with
  | [] => [kg]
  | (k', g') :: rest => if val_eq k' (fst kg) then (fst kg, snd kg ++ g') :: rest else kg :: (k', g') :: rest
  end.

Lemma groupby_absorb c : forall rows k g,
  groupby c (Some (k, g)) rows = absorb (k, g) (runs_rows c rows).
Proof.
  induction rows as [|r t IH]; intros k g; [reflexivity|].
  cbn [groupby runs_rows]. rewrite !IH.
  destruct (runs_rows c t) as [|[k' g'] rest].
  - cbn [absorb fst snd]. destruct (val_eq (cell c r) k); reflexivity.
  - destruct (val_eq (cell c r) k') eqn:Erk'.
    + assert (Ek'r : val_eq k' (cell c r) = true) by (rewrite val_eq_sym; exact Erk').
      cbn [absorb fst snd]. destruct (val_eq (cell c r) k) eqn:Erk.
      * assert (E : val_eq k' k = true) by (apply (val_eq_trans _ (cell c r)); assumption).
        rewrite E, <- app_assoc. reflexivity.
      * rewrite Ek'r. reflexivity.
    + assert (Ek'r : val_eq k' (cell c r) = false) by (rewrite val_eq_sym; exact Erk').
      cbn [absorb fst snd]. destruct (val_eq (cell c r) k) eqn:Erk.
      * assert (E : val_eq k' k = false).
        { destruct (val_eq k' k) eqn:E; [|reflexivity]. exfalso.
          assert (val_eq (cell c r) k' = true).
          { apply (val_eq_trans _ k); [exact Erk|rewrite val_eq_sym; exact E]. }
          congruence. }
        rewrite E. reflexivity.
      * rewrite Ek'r. reflexivity.
Qed.

Lemma groupby_runs c : forall rows, groupby c None rows = runs_rows c rows.
Proof.
  intros [|r t]; [reflexivity|]. cbn [groupby runs_rows]. rewrite groupby_absorb.
  destruct (runs_rows c t) as [|[k' g'] rest]; cbn [absorb fst snd]; [reflexivity|].
  rewrite (val_eq_sym k'). destruct (val_eq (cell c r) k'); reflexivity.
Qed.

Lemma runs_rows_forall c (P : row -> Prop) : forall rows,
  Forall P rows -> Forall (fun kg => Forall P (snd kg)) (runs_rows c rows).
Proof.
  induction rows as [|r t IH]; intros H; [constructor|].
  inversion H as [|? ? Hr Ht]; subst. specialize (IH Ht). cbn [runs_rows].
  destruct (runs_rows c t) as [|[k' g'] rest].
  - constructor; [cbn [snd]; constructor; [exact Hr|constructor]|constructor].
  - inversion IH as [|? ? Hg Hrest]; subst. cbn [snd] in Hg.
    destruct (val_eq (cell c r) k'); constructor; cbn [snd]; auto.
Qed.

(* ------------------------------------------------------------------ sort and groupby on result rows (tuples) *)
Section PivotPrims.
Variable call_ref : nat -> list pv -> pv.
Notation akey := (apply_key call_ref exec_nig_single exec_nig_multi 1).
Notation prim := (prims_exec call_ref exec_nig_single exec_nig_multi 1).

Lemma nig_single_tuple_src : forall (r : row) (i : nat), (i < length r)%nat ->
  call_fun call_ref prims_base exec_nig_single [idx_pv i; row_pv r] = Ok (key_pv (cell i r)).
Proof.
  intros r i Hi. unfold call_fun, exec_nig_single, idx_pv, row_pv.
  cbn [f_params f_body f_gen bind_params exec_block PyMini.exec PyMini.eval bind read write locals fields lookup
       String.eqb Ascii.eqb Bool.eqb PInt].
  rewrite (index_row r i Hi).
  cbn [bind update lookup String.eqb Ascii.eqb Bool.eqb locals fields].
  unfold key_pv. destruct (cell i r); reflexivity.
Qed.

Lemma keys_of_tuples : forall (c : nat) (rows : list row), Forall (fun r => (c < length r)%nat) rows ->
  exists ks, mapM (akey (partial_clo 1 [idx_pv c])) (map row_pv rows) = Ok ks /\
             map_opt key_values ks = Some (map (fun r => [cell c r]) rows).
Proof.
  intros c rows H. induction H as [|r t Hr Ht IH].
  - exists []. split; reflexivity.
  - destruct IH as [ks [E1 E2]]. exists (key_pv (cell c r) :: ks). split.
    + cbn [map mapM]. cbn [partial_clo akey apply_key Nat.eqb apply_nig].
      rewrite (nig_single_tuple_src r c Hr). cbn [bind]. cbn [partial_clo akey apply_key Nat.eqb apply_nig] in E1.
      rewrite E1. reflexivity.
    + cbn [map map_opt]. rewrite E2. unfold key_values. destruct (cell c r); reflexivity.
Qed.

(* rows.sort(key=nullitemgetter(c)): the stable sort by column c, NULL first *)
Lemma sort_tuples_src : forall (c : nat) (rows : list row), Forall (fun r => (c < length r)%nat) rows ->
  sort_prim akey (map row_pv rows) (partial_clo 1 [idx_pv c]) false =
  Ok (PTuple [PList (map row_pv (isort (on (cell c) val_le) rows)); PNone]).
Proof.
  intros c rows H. unfold sort_prim. destruct (keys_of_tuples c rows H) as [ks [E1 E2]].
  rewrite E1. cbn [bind]. rewrite E2. rewrite combine_map.
  rewrite (py_sort_map (fun r => ([cell c r], row_pv r)) (on (fun r => [cell c r]) tuple_le) (on fst tuple_le) false)
    by reflexivity.
  rewrite map_map. cbn [snd]. unfold py_sort.
  rewrite (isort_ext _ (on (fun r => [cell c r]) tuple_le) (on (cell c) val_le) rows).
  - reflexivity.
  - intros x y. unfold on. apply tuple_le_single.
Qed.

Definition group_pv (kg : value * list row) : pv := PTuple [PV (fst kg); PList (map row_pv (snd kg))].

Lemma keys_of_itemgetter : forall (c : nat) (rows : list row), Forall (fun r => (c < length r)%nat) rows ->
  mapM (akey (itemgetter_clo (PInt (Z.of_nat c)))) (map row_pv rows) = Ok (map (fun r => PV (cell c r)) rows).
Proof.
  intros c rows H. induction H as [|r t Hr Ht IH]; [reflexivity|].
  cbn [map mapM]. rewrite IH.
  cbn [itemgetter_clo PInt PNone akey apply_key row_pv seq_items]. rewrite (index_row r c Hr). reflexivity.
Qed.

Lemma group_runs_rows c : forall rows : list row,
  group_runs (combine (map (fun r => PV (cell c r)) rows) (map row_pv rows)) =
  map (fun kg : value * list row => (PV (fst kg), map row_pv (snd kg))) (runs_rows c rows).
Proof.
  induction rows as [|r t IH]; [reflexivity|].
  cbn [map combine group_runs runs_rows]. rewrite IH.
  destruct (runs_rows c t) as [|[k' g'] rest]; [reflexivity|].
  cbn [map fst snd]. rewrite pv_eqb_value. destruct (val_eq (cell c r) k'); reflexivity.
Qed.

Lemma groupby_rows_src : forall (c : nat) (rows : list row), Forall (fun r => (c < length r)%nat) rows ->
  groupby_prim akey (map row_pv rows) (itemgetter_clo (PInt (Z.of_nat c))) =
  Ok (PList (map group_pv (groupby c None rows))).
Proof.
  intros c rows H. unfold groupby_prim. rewrite (keys_of_itemgetter c rows H). cbn [bind].
  rewrite group_runs_rows, groupby_runs, map_map. reflexivity.
Qed.
End PivotPrims.

(* ------------------------------------------------------------------ the filling loops *)
Lemma find_index_keys v : forall ks : list value,
  existsb (fun k => val_eq k v) ks = true -> find_index (PV v) (map PV ks) = Some (index_of v ks).
Proof.
  induction ks as [|k t IH]; intros H; [discriminate|].
  cbn [map find_index index_of existsb] in *. rewrite pv_eqb_value.
  destruct (val_eq k v); [reflexivity|]. cbn [orb] in H. rewrite (IH H). reflexivity.
Qed.

Section Fill.
Variable call_ref : nat -> list pv -> pv.
Notation akey := (apply_key call_ref exec_nig_single exec_nig_multi 1).
Notation prim := (prims_exec call_ref exec_nig_single exec_nig_multi 1).
Hypothesis Hnig : forall args, call_ref 1 args = partial_clo 1 args.

Variables (ks : list value) (oc : list nat) (c2 : nat) (ko : nat).
(* `other` (a lambda of the untranslated part) returns the remaining columns of a row *)
Hypothesis Hother : forall r : row, call_ref ko [row_pv r] = PTuple (map PV (other oc r)).

Definition row_ok (r : row) : Prop := (c2 < length r)%nat /\ existsb (fun k => val_eq k (cell c2 r)) ks = true.

Lemma prim_setslice out i j vals : (i <= j)%nat ->
  prim "stmt:setslice" [PList (map PV out); PV (VInt (Z.of_nat i)); PV (VInt (Z.of_nat j)); PTuple (map PV vals)] =
  Ok (PList (map PV (firstn i out ++ vals ++ skipn j out))).
Proof.
  intros Hij. cbn. rewrite firstn_clip, (skipn_clip (map PV out) i j Hij).
  rewrite !map_app, firstn_map, skipn_map. reflexivity.
Qed.

Lemma prim_index v : existsb (fun k => val_eq k v) ks = true ->
  prim "call:index" [PList (map PV ks); PV v] = Ok (PV (VInt (Z.of_nat (index_of v ks)))).
Proof. intros H. cbn. rewrite (find_index_keys v ks H). reflexivity. Qed.

Lemma prim_mul_list l n : prim "binop:mul" [PList l; PInt n] = Ok (PList (concat (repeat l (Z.to_nat n)))).
Proof. reflexivity. Qed.

Lemma prim_sort_key l clo : prim "method:sort:key" [PList l; clo] = sort_prim akey l clo false.
Proof. reflexivity. Qed.

Definition inner_body : list stmt :=
  [SAssign (TName "index")
     (XBin OAdd (XBin OMul (XCallMethod (XName "keys") "index" [XIndex (XName "row") (XName "col2")]) (XName "nother"))
        (XConst (PInt 1)));
   SAssign (TName "outrow")
     (XPrim "stmt:setslice" [XName "outrow"; XName "index"; XBin OAdd (XName "index") (XName "nother");
                             XCall (XName "other") [XName "row"] None])].

Definition fixed (loc : env) : Prop :=
  lookup "keys" loc = Some (PList (map PV ks)) /\ lookup "col2" loc = Some (idx_pv c2) /\
  lookup "nother" loc = Some (PInt (Z.of_nat (length oc))) /\ lookup "other" loc = Some (PRef ko).

Definition stable (loc loc' : env) : Prop :=
  forall x, x <> "row" -> x <> "index" -> x <> "outrow" -> lookup x loc' = lookup x loc.

Definition step_row (out : list value) (r : row) : list value :=
  set_block out (index_of (cell c2 r) ks * length oc + 1) (length oc) (other oc r).

Lemma inner_loop : forall (group : list row) (out : list value) loc flds,
  Forall row_ok group -> fixed loc -> lookup "outrow" loc = Some (PList (map PV out)) ->
  exists loc',
    for_loop call_ref prim inner_body "row" {| locals := loc; fields := flds |} (map row_pv group) =
      Ok (Next {| locals := loc'; fields := flds |}) /\
    lookup "outrow" loc' = Some (PList (map PV (fold_left step_row group out))) /\ stable loc loc'.
Proof.
  induction group as [|r t IH]; intros out loc flds Hok Hfix Hout.
  - exists loc. split; [reflexivity|]. split; [exact Hout|]. intros x _ _ _. reflexivity.
  - inversion Hok as [|? ? [Hc2 Hin] Hok']; subst.
    destruct Hfix as [Hk [Hcol [Hn Ho]]].
    cbn [map for_loop fold_left]. cbn [write locals fields].
    set (loc1 := update "row" (row_pv r) loc).
    assert (Hr1 : lookup "row" loc1 = Some (row_pv r)) by apply lookup_update_eq.
    assert (Hk1 : lookup "keys" loc1 = Some (PList (map PV ks))) by (unfold loc1; rewrite lookup_update_neq by reflexivity; exact Hk).
    assert (Hcol1 : lookup "col2" loc1 = Some (idx_pv c2)) by (unfold loc1; rewrite lookup_update_neq by reflexivity; exact Hcol).
    assert (Hn1 : lookup "nother" loc1 = Some (PInt (Z.of_nat (length oc)))) by (unfold loc1; rewrite lookup_update_neq by reflexivity; exact Hn).
    assert (Ho1 : lookup "other" loc1 = Some (PRef ko)) by (unfold loc1; rewrite lookup_update_neq by reflexivity; exact Ho).
    assert (Hout1 : lookup "outrow" loc1 = Some (PList (map PV out))) by (unfold loc1; rewrite lookup_update_neq by reflexivity; exact Hout).
    set (idx := (index_of (cell c2 r) ks * length oc + 1)%nat).
    (* index = keys.index(row[col2]) * nother + 1 *)
    assert (E1 : PyMini.exec call_ref prim {| locals := loc1; fields := flds |}
                   (SAssign (TName "index")
                      (XBin OAdd (XBin OMul (XCallMethod (XName "keys") "index" [XIndex (XName "row") (XName "col2")])
                                    (XName "nother")) (XConst (PInt 1)))) =
                 Ok (Next {| locals := update "index" (idx_pv idx) loc1; fields := flds |})).
    { repeat (progress (cbn [PyMini.exec PyMini.eval bind read write locals fields row_pv idx_pv PInt String.append
                             binop1 binop_builtin];
                        rewrite ?Hr1, ?Hk1, ?Hcol1, ?Hn1, ?(index_row r c2 Hc2), ?(prim_index _ Hin))).
      unfold idx, idx_pv. rewrite !Nat2Z.inj_add, Nat2Z.inj_mul. reflexivity. }
    unfold inner_body at 1. rewrite exec_block_cons. fold loc1. rewrite E1. cbn [bind].
    set (loc2 := update "index" (idx_pv idx) loc1).
    assert (Hi2 : lookup "index" loc2 = Some (idx_pv idx)) by apply lookup_update_eq.
    assert (Hr2 : lookup "row" loc2 = Some (row_pv r)) by (unfold loc2; rewrite lookup_update_neq by reflexivity; exact Hr1).
    assert (Hn2 : lookup "nother" loc2 = Some (PInt (Z.of_nat (length oc)))) by (unfold loc2; rewrite lookup_update_neq by reflexivity; exact Hn1).
    assert (Ho2 : lookup "other" loc2 = Some (PRef ko)) by (unfold loc2; rewrite lookup_update_neq by reflexivity; exact Ho1).
    assert (Hout2 : lookup "outrow" loc2 = Some (PList (map PV out))) by (unfold loc2; rewrite lookup_update_neq by reflexivity; exact Hout1).
    assert (E2 : PyMini.exec call_ref prim {| locals := loc2; fields := flds |}
                   (SAssign (TName "outrow")
                      (XPrim "stmt:setslice" [XName "outrow"; XName "index"; XBin OAdd (XName "index") (XName "nother");
                                              XCall (XName "other") [XName "row"] None])) =
                 Ok (Next {| locals := update "outrow" (PList (map PV (step_row out r))) loc2; fields := flds |})).
    { repeat (progress (cbn [PyMini.exec PyMini.eval bind read write locals fields idx_pv PInt do_call
                             binop1 binop_builtin];
                        rewrite ?Hi2, ?Hr2, ?Hn2, ?Ho2, ?Hout2, ?Hother)).
      rewrite <- Nat2Z.inj_add. unfold idx_pv, PInt.
      rewrite (prim_setslice out idx (idx + length oc) (other oc r)) by lia.
      reflexivity. }
    rewrite exec_block_cons, E2. cbn [bind exec_block].
    destruct (IH (step_row out r) (update "outrow" (PList (map PV (step_row out r))) loc2) flds Hok') as [loc' [EL [HR ST]]].
    + unfold fixed, loc2, loc1. rewrite !lookup_update_neq by reflexivity. repeat split; assumption.
    + apply lookup_update_eq.
    + exists loc'. split; [exact EL|]. split; [exact HR|].
      intros x N1 N2 N3. rewrite (ST x N1 N2 N3). unfold loc2, loc1. rewrite !lookup_update_other by congruence. reflexivity.
Qed.

Definition outer_body : list stmt :=
  [SAssign (TName "outrow")
     (XBin OAdd (XList [XName "field1"])
        (XBin OMul (XList [XConst PNone]) (XBin OSub (XLen (XName "columns")) (XConst (PInt 1)))));
   SFor "row" (XName "group") inner_body;
   SExpr (XMethod (TName "pivoted") "append" [XPrim "builtins.tuple" [XName "outrow"]])].

Variable cols : list pv.            (* the new header (computed by the untranslated part); only its length is used *)

Definition made (kg : value * list row) : row := build_row ks oc c2 (length cols) (fst kg) (snd kg).

Lemma outer_loop : forall (groups : list (value * list row)) (acc : list row) loc flds,
  Forall (fun kg => Forall row_ok (snd kg)) groups -> fixed loc ->
  lookup "columns" loc = Some (PTuple cols) -> lookup "pivoted" loc = Some (PList (map row_pv acc)) ->
  exists loc',
    for_unpack_loop call_ref prim outer_body ["field1"; "group"] {| locals := loc; fields := flds |}
      (map group_pv groups) = Ok (Next {| locals := loc'; fields := flds |}) /\
    lookup "pivoted" loc' = Some (PList (map row_pv (acc ++ map made groups))) /\
    lookup "columns" loc' = Some (PTuple cols).
Proof.
  induction groups as [|[k g] groups IH]; intros acc loc flds Hok Hfix Hcols Hpiv.
  - exists loc. split; [reflexivity|]. cbn [map]. rewrite app_nil_r. split; assumption.
  - inversion Hok as [|? ? Hg Hok']; subst. cbn [snd] in Hg.
    destruct Hfix as [Hk [Hcol [Hn Ho]]].
    cbn [map for_unpack_loop group_pv fst snd unpack_names write locals fields bind].
    set (loc1 := update "group" (PList (map row_pv g)) (update "field1" (PV k) loc)).
    assert (Hf1 : lookup "field1" loc1 = Some (PV k)).
    { unfold loc1. rewrite lookup_update_neq by reflexivity. apply lookup_update_eq. }
    assert (Hg1 : lookup "group" loc1 = Some (PList (map row_pv g))) by apply lookup_update_eq.
    assert (Hc1 : lookup "columns" loc1 = Some (PTuple cols)) by (unfold loc1; rewrite !lookup_update_neq by reflexivity; exact Hcols).
    assert (Hp1 : lookup "pivoted" loc1 = Some (PList (map row_pv acc))) by (unfold loc1; rewrite !lookup_update_neq by reflexivity; exact Hpiv).
    assert (Hfix1 : fixed loc1).
    { unfold fixed, loc1. rewrite !lookup_update_neq by reflexivity. repeat split; assumption. }
    set (out0 := k :: repeat VNull (length cols - 1)).
    assert (E1 : PyMini.exec call_ref prim {| locals := loc1; fields := flds |}
                   (SAssign (TName "outrow")
                      (XBin OAdd (XList [XName "field1"])
                         (XBin OMul (XList [XConst PNone]) (XBin OSub (XLen (XName "columns")) (XConst (PInt 1)))))) =
                 Ok (Next {| locals := update "outrow" (PList (map PV out0)) loc1; fields := flds |})).
    { repeat (progress (cbn [PyMini.exec PyMini.eval bind read write locals fields PInt binop1 binop_builtin bop_name
                             String.append];
                        rewrite ?Hf1, ?Hc1, ?prim_mul_list)).
      unfold out0. cbn [map app]. rewrite concat_repeat_single, map_repeat'.
      replace (Z.to_nat (Z.of_nat (length cols) - 1)) with (length cols - 1)%nat by lia. reflexivity. }
    unfold outer_body at 1. rewrite exec_block_cons. fold loc1. rewrite E1. cbn [bind].
    set (loc2 := update "outrow" (PList (map PV out0)) loc1).
    assert (Hfix2 : fixed loc2).
    { destruct Hfix1 as [A [B [C D]]]. unfold fixed, loc2. rewrite !lookup_update_neq by reflexivity. repeat split; assumption. }
    assert (Hg2 : lookup "group" loc2 = Some (PList (map row_pv g))) by (unfold loc2; rewrite lookup_update_neq by reflexivity; exact Hg1).
    rewrite exec_block_cons.
    rewrite (exec_for call_ref prim "row" _ _ _ {| locals := loc2; fields := flds |} (map row_pv g)
               (eval_name call_ref prim {| locals := loc2; fields := flds |} "group" _ Hg2)).
    fold inner_body.
    destruct (inner_loop g out0 loc2 flds Hg Hfix2 (lookup_update_eq _ _ _)) as [loc3 [E2 [Ho3 St3]]].
    rewrite E2. cbn [bind].
    assert (Hp3 : lookup "pivoted" loc3 = Some (PList (map row_pv acc))).
    { rewrite St3 by discriminate. unfold loc2. rewrite lookup_update_neq by reflexivity. exact Hp1. }
    rewrite exec_block_cons.
    repeat (progress (cbn [PyMini.exec PyMini.eval bind read write locals fields method_call
                           String.eqb Ascii.eqb Bool.eqb exec_block];
                      rewrite ?Ho3, ?Hp3, ?prim_tuple)).
    destruct (IH (acc ++ [made (k, g)])
                (update "pivoted" (PList (map row_pv acc ++ [PTuple (map PV (fold_left step_row g out0))])) loc3) flds Hok')
      as [loc' [EL [HP HC]]].
    + destruct Hfix2 as [A [B [C D]]]. unfold fixed. rewrite !lookup_update_neq by reflexivity.
      rewrite !St3 by discriminate. repeat split; assumption.
    + rewrite lookup_update_neq by reflexivity. rewrite St3 by discriminate.
      unfold loc2. rewrite lookup_update_neq by reflexivity. exact Hc1.
    + rewrite lookup_update_eq, map_app. reflexivity.
    + exists loc'. split; [exact EL|]. split; [|exact HC]. rewrite HP. cbn [map]. rewrite <- app_assoc. reflexivity.
Qed.

(* the translated filling part of the PIVOT BY branch = the rows of Model/Pivot.v's pivot *)
Theorem pivot_fill_src : forall (c1 : nat) (rows : list row),
  Forall (fun r => (c1 < length r)%nat) rows -> Forall row_ok rows ->
  call_fun call_ref prim exec_pivot_fill
    [PList (map row_pv rows); idx_pv c1; PTuple cols; PList (map PV ks); idx_pv c2; PInt (Z.of_nat (length oc)); PRef ko] =
  Ok (PTuple [PTuple cols;
              PList (map row_pv (map made (groupby c1 None (isort (on (cell c1) val_le) rows))))]).
Proof.
  intros c1 rows Hc1 Hok. unfold call_fun, exec_pivot_fill. cbn [f_params f_body f_gen bind_params].
  fold inner_body. fold outer_body.
  set (sorted := isort (on (cell c1) val_le) rows).
  assert (Hperm : Permutation rows sorted) by apply isort_perm.
  assert (Hc1s : Forall (fun r => (c1 < length r)%nat) sorted) by (apply (Permutation_Forall Hperm); exact Hc1).
  assert (Hoks : Forall row_ok sorted) by (apply (Permutation_Forall Hperm); exact Hok).
  rewrite exec_block_cons.
  cbn [PyMini.exec PyMini.eval bind write locals fields update String.eqb Ascii.eqb Bool.eqb].
  rewrite exec_block_cons.
  repeat (progress (cbn [PyMini.exec PyMini.eval bind read write locals fields lookup update do_call method_call app
                         String.eqb Ascii.eqb Bool.eqb String.append partial_clo];
                    rewrite ?Hnig)).
  change (PTuple [PRef 1; idx_pv c1]) with (partial_clo 1 [idx_pv c1]).
  rewrite prim_sort_key, (sort_tuples_src call_ref c1 rows Hc1). fold sorted.
  cbn [bind write locals fields update String.eqb Ascii.eqb Bool.eqb].
  set (loc1 := [("rows", PList (map row_pv sorted)); ("col1", idx_pv c1); ("columns", PTuple cols);
                ("keys", PList (map PV ks)); ("col2", idx_pv c2); ("nother", PInt (Z.of_nat (length oc)));
                ("other", PRef ko); ("pivoted", PList [])]).
  set (s1 := {| locals := loc1; fields := [] |}).
  rewrite exec_block_cons.
  rewrite (exec_for_unpack call_ref prim _ _ _ s1 s1 (map group_pv (groupby c1 None sorted))).
  2:{ rewrite (eval_prim2 call_ref prim "itertools.groupby:key" _ _ s1 s1 s1 (PList (map row_pv sorted))
                 (itemgetter_clo (PInt (Z.of_nat c1))) (eval_name call_ref prim s1 "rows" _ eq_refl)).
      - rewrite prim_groupby, (groupby_rows_src call_ref c1 sorted Hc1s). reflexivity.
      - rewrite (eval_prim1 call_ref prim "operator.itemgetter" _ s1 s1 _ (eval_name call_ref prim s1 "col1" _ eq_refl)).
        unfold idx_pv. rewrite prim_itemgetter. reflexivity. }
  destruct (outer_loop (groupby c1 None sorted) [] loc1 []) as [loc' [EL [HP HC]]].
  - rewrite groupby_runs. apply runs_rows_forall. exact Hoks.
  - repeat split; reflexivity.
  - reflexivity.
  - reflexivity.
  - unfold s1. rewrite EL. cbn [bind]. rewrite exec_block_cons.
    repeat (progress (cbn [PyMini.exec PyMini.eval bind read locals fields]; rewrite ?HP, ?HC)).
    reflexivity.
Qed.
End Fill.

(* with the key list and the remaining columns of Model/Pivot.v: the rows of [pivot] *)
From Verif Require Import Proofs.PivotProofs.

Corollary pivot_src : forall (call_ref : nat -> list pv -> pv) (ncols c1 c2 ko : nat) (rows : list row) (cols : list pv),
  (forall args, call_ref 1%nat args = partial_clo 1 args) ->
  (forall r : row, call_ref ko [row_pv r] = PTuple (map PV (other (other_cols ncols c1 c2) r))) ->
  Forall (fun r => (c1 < length r)%nat /\ (c2 < length r)%nat) rows ->
  length cols = length (pivot_header (pivot_keys c2 rows) (other_cols ncols c1 c2)) ->
  call_fun call_ref (prims_exec call_ref exec_nig_single exec_nig_multi 1) exec_pivot_fill
    [PList (map row_pv rows); idx_pv c1; PTuple cols; PList (map PV (pivot_keys c2 rows)); idx_pv c2;
     PInt (Z.of_nat (length (other_cols ncols c1 c2))); PRef ko] =
  Ok (PTuple [PTuple cols; PList (map row_pv (snd (pivot ncols c1 c2 rows)))]).
Proof.
  intros call_ref ncols c1 c2 ko rows cols Hnig Hother Hw Hlen.
  rewrite (pivot_fill_src call_ref Hnig (pivot_keys c2 rows) (other_cols ncols c1 c2) c2 ko Hother cols c1 rows).
  - unfold pivot. cbn [snd]. unfold made. rewrite Hlen. reflexivity.
  - apply Forall_forall. intros r Hr. rewrite Forall_forall in Hw. apply (Hw r Hr).
  - apply Forall_forall. intros r Hr. rewrite Forall_forall in Hw. split; [apply (Hw r Hr)|].
    apply pivot_keys_complete. exact Hr.
Qed.
