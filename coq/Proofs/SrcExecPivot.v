(* Tie by translation, PIVOT BY: the PyMini term generated on every run from the SOURCE of the EvalPivot branch of
   query_execute.execute_query, statements `pivoted = []` .. `return columns, pivoted` (Gen/SrcExec.v:
   exec_pivot_fill), computes for ALL rows / pivot columns / key lists the rows of Model/Pivot.v's [pivot]: sort by the
   first pivot column (NULL first), group consecutive rows with equal first column, and per group write each row's
   remaining columns into the block of its key by slice assignment ([build_row]).
   The key list, `other` (a lambda) and the header are computed by statements outside the PyMini fragment; they enter
   as parameters: `keys` is ANY list that contains every row's second pivot column, `other` an opaque callable that
   returns the remaining columns of a row. *)
From Coq Require Import String ZArith List Bool Lia Permutation.
Import ListNotations.
From Verif Require Import Base.StableSort Base.PyValue Proofs.PyValueProofs Model.Eval Model.Order Proofs.OrderProofs
  Model.Pivot Model.PyMini Model.PrimsExec Gen.SrcExec Proofs.PyMiniLemmas Proofs.PyMiniLemmas2 Proofs.SrcExec.
Open Scope string_scope.
Open Scope list_scope.
Open Scope Z_scope.

Local Arguments val_le : simpl never.
Local Arguments val_eq : simpl never.

(* ------------------------------------------------------------------ list facts *)
Lemma tuple_le_single x y : tuple_le [x] [y] = val_le x y.
Proof.
  unfold tuple_le. cbn [tuple_lt]. unfold val_lt.
  destruct (val_eq y x) eqn:E; cbn [negb].
  - unfold val_eq, eqv in E. apply andb_prop in E as [_ E]. symmetry. exact E.
  - apply negb_involutive.
Qed.

Lemma concat_repeat_single {A} (x : A) n : concat (repeat [x] n) = repeat x n.
Proof. induction n as [|n IH]; [reflexivity|]. cbn [repeat concat app]. rewrite IH. reflexivity. Qed.

Lemma map_repeat' {A B} (f : A -> B) x n : map f (repeat x n) = repeat (f x) n.
Proof. induction n as [|n IH]; [reflexivity|]. cbn [repeat map]. rewrite IH. reflexivity. Qed.

Lemma firstn_clip {A} (l : list A) (i : nat) :
  firstn (Z.to_nat (clipz (Z.of_nat (length l)) (Z.of_nat i))) l = firstn i l.
Proof.
  unfold clipz. assert (E : (Z.of_nat i <? 0) = false) by (apply Z.ltb_ge; lia). rewrite E.
  destruct (Nat.le_gt_cases i (length l)) as [H|H].
  - rewrite Z.min_l by lia. rewrite Nat2Z.id. reflexivity.
  - rewrite Z.min_r by lia. rewrite Nat2Z.id. rewrite !firstn_all2 by lia. reflexivity.
Qed.

Lemma skipn_clip {A} (l : list A) (i j : nat) : (i <= j)%nat ->
  skipn (Z.to_nat (Z.max (clipz (Z.of_nat (length l)) (Z.of_nat i)) (clipz (Z.of_nat (length l)) (Z.of_nat j)))) l =
  skipn j l.
Proof.
  intros Hij. unfold clipz.
  assert (E1 : (Z.of_nat i <? 0) = false) by (apply Z.ltb_ge; lia).
  assert (E2 : (Z.of_nat j <? 0) = false) by (apply Z.ltb_ge; lia). rewrite E1, E2.
  destruct (Nat.le_gt_cases j (length l)) as [H|H].
  - rewrite Z.max_r by lia. rewrite Z.min_l by lia. rewrite Nat2Z.id. reflexivity.
  - rewrite Z.max_r by lia. rewrite Z.min_r by lia. rewrite Nat2Z.id. rewrite !skipn_all2 by lia. reflexivity.
Qed.

(* ------------------------------------------------------------------ groupby: adjacent runs = runs against the group key *)
Fixpoint runs_rows (c : nat) (rows : list row) : list (value * list row) :=
  match rows with
  | [] => []
  | r :: t =>
      match runs_rows c t with
      | (k', g') :: rest => if val_eq (cell c r) k' then (cell c r, r :: g') :: rest
                            else (cell c r, [r]) :: (k', g') :: rest
      | [] => [(cell c r, [r])]
      end
  end.

Definition absorb (kg : value * list row) (l : list (value * list row)) : list (value * list row) :=
  match l with
  | [] => [kg]
  | (k', g') :: rest => if val_eq k' (fst kg) then (fst kg, snd kg ++ g') :: rest else kg :: (k', g') :: rest
  end.

Lemma groupby_absorb c : forall rows k g,
  groupby c (Some (k, g)) rows = absorb (k, g) (runs_rows c rows).
Proof.
  induction rows as [|r t IH]; intros k g; [reflexivity|].
  cbn [groupby runs_rows]. rewrite !IH.
  destruct (runs_rows c t) as [|[k' g'] rest].
  - cbn [absorb fst snd]. destruct (val_eq (cell c r) k); reflexivity.
  - destruct (val_eq (cell c r) k') eqn:Erk'.
    + assert (Ek'r : val_eq k' (cell c r) = true) by (rewrite val_eq_sym; exact Erk').
      cbn [absorb fst snd]. destruct (val_eq (cell c r) k) eqn:Erk.
      * assert (E : val_eq k' k = true) by (apply (val_eq_trans _ (cell c r)); assumption).
        rewrite E, <- app_assoc. reflexivity.
      * rewrite Ek'r. reflexivity.
    + assert (Ek'r : val_eq k' (cell c r) = false) by (rewrite val_eq_sym; exact Erk').
      cbn [absorb fst snd]. destruct (val_eq (cell c r) k) eqn:Erk.
      * assert (E : val_eq k' k = false).
        { destruct (val_eq k' k) eqn:E; [|reflexivity]. exfalso.
          assert (val_eq (cell c r) k' = true).
          { apply (val_eq_trans _ k); [exact Erk|rewrite val_eq_sym; exact E]. }
          congruence. }
        rewrite E. reflexivity.
      * rewrite Ek'r. reflexivity.
Qed.

Lemma groupby_runs c : forall rows, groupby c None rows = runs_rows c rows.
Proof.
  intros [|r t]; [reflexivity|]. cbn [groupby runs_rows]. rewrite groupby_absorb.
  destruct (runs_rows c t) as [|[k' g'] rest]; cbn [absorb fst snd]; [reflexivity|].
  rewrite (val_eq_sym k'). destruct (val_eq (cell c r) k'); reflexivity.
Qed.

Lemma runs_rows_forall c (P : row -> Prop) : forall rows,
  Forall P rows -> Forall (fun kg => Forall P (snd kg)) (runs_rows c rows).
Proof.
  induction rows as [|r t IH]; intros H; [constructor|].
  inversion H as [|? ? Hr Ht]; subst. specialize (IH Ht). cbn [runs_rows].
  destruct (runs_rows c t) as [|[k' g'] rest].
  - constructor; [cbn [snd]; constructor; [exact Hr|constructor]|constructor].
  - inversion IH as [|? ? Hg Hrest]; subst. cbn [snd] in Hg.
    destruct (val_eq (cell c r) k'); constructor; cbn [snd]; auto.
Qed.

(* ------------------------------------------------------------------ sort and groupby on result rows (tuples) *)
Section PivotPrims.
Variable call_ref : nat -> list pv -> pv.
Notation akey := (apply_key call_ref exec_nig_single exec_nig_multi 1).
Notation prim := (prims_exec call_ref exec_nig_single exec_nig_multi 1).

Lemma nig_single_tuple_src : forall (r : row) (i : nat), (i < length r)%nat ->
  call_fun call_ref prims_base exec_nig_single [idx_pv i; row_pv r] = Ok (key_pv (cell i r)).
Proof.
  intros r i Hi. unfold call_fun, exec_nig_single, idx_pv, row_pv.
  cbn [f_params f_body f_gen bind_params exec_block PyMini.exec PyMini.eval bind read write locals fields lookup
       String.eqb Ascii.eqb Bool.eqb PInt].
  rewrite (index_row r i Hi).
  cbn [bind update lookup String.eqb Ascii.eqb Bool.eqb locals fields].
  unfold key_pv. destruct (cell i r); reflexivity.
Qed.

Lemma keys_of_tuples : forall (c : nat) (rows : list row), Forall (fun r => (c < length r)%nat) rows ->
  exists ks, mapM (akey (partial_clo 1 [idx_pv c])) (map row_pv rows) = Ok ks /\
             map_opt key_values ks = Some (map (fun r => [cell c r]) rows).
Proof.
  intros c rows H. induction H as [|r t Hr Ht IH].
  - exists []. split; reflexivity.
  - destruct IH as [ks [E1 E2]]. exists (key_pv (cell c r) :: ks). split.
    + cbn [map mapM]. cbn [partial_clo akey apply_key Nat.eqb apply_nig].
      rewrite (nig_single_tuple_src r c Hr). cbn [bind]. cbn [partial_clo akey apply_key Nat.eqb apply_nig] in E1.
      rewrite E1. reflexivity.
    + cbn [map map_opt]. rewrite E2. unfold key_values. destruct (cell c r); reflexivity.
Qed.

(* rows.sort(key=nullitemgetter(c)): the stable sort by column c, NULL first *)
Lemma sort_tuples_src : forall (c : nat) (rows : list row), Forall (fun r => (c < length r)%nat) rows ->
  sort_prim akey (map row_pv rows) (partial_clo 1 [idx_pv c]) false =
  Ok (PTuple [PList (map row_pv (isort (on (cell c) val_le) rows)); PNone]).
Proof.
  intros c rows H. unfold sort_prim. destruct (keys_of_tuples c rows H) as [ks [E1 E2]].
  rewrite E1. cbn [bind]. rewrite E2. rewrite combine_map.
  rewrite (py_sort_map (fun r => ([cell c r], row_pv r)) (on (fun r => [cell c r]) tuple_le) (on fst tuple_le) false)
    by reflexivity.
  rewrite map_map. cbn [snd]. unfold py_sort.
  rewrite (isort_ext _ (on (fun r => [cell c r]) tuple_le) (on (cell c) val_le) rows).
  - reflexivity.
  - intros x y. unfold on. apply tuple_le_single.
Qed.

Definition group_pv (kg : value * list row) : pv := PTuple [PV (fst kg); PList (map row_pv (snd kg))].

Lemma keys_of_itemgetter : forall (c : nat) (rows : list row), Forall (fun r => (c < length r)%nat) rows ->
  mapM (akey (itemgetter_clo (PInt (Z.of_nat c)))) (map row_pv rows) = Ok (map (fun r => PV (cell c r)) rows).
Proof.
  intros c rows H. induction H as [|r t Hr Ht IH]; [reflexivity|].
  cbn [map mapM]. rewrite IH.
  cbn [itemgetter_clo PInt PNone akey apply_key row_pv seq_items]. rewrite (index_row r c Hr). reflexivity.
Qed.

Lemma group_runs_rows c : forall rows : list row,
  group_runs (combine (map (fun r => PV (cell c r)) rows) (map row_pv rows)) =
  map (fun kg : value * list row => (PV (fst kg), map row_pv (snd kg))) (runs_rows c rows).
Proof.
  induction rows as [|r t IH]; [reflexivity|].
  cbn [map combine group_runs runs_rows]. rewrite IH.
  destruct (runs_rows c t) as [|[k' g'] rest]; [reflexivity|].
  cbn [map fst snd]. rewrite pv_eqb_value. destruct (val_eq (cell c r) k'); reflexivity.
Qed.

Lemma groupby_rows_src : forall (c : nat) (rows : list row), Forall (fun r => (c < length r)%nat) rows ->
  groupby_prim akey (map row_pv rows) (itemgetter_clo (PInt (Z.of_nat c))) =
  Ok (PList (map group_pv (groupby c None rows))).
Proof.
  intros c rows H. unfold groupby_prim. rewrite (keys_of_itemgetter c rows H). cbn [bind].
  rewrite group_runs_rows, groupby_runs, map_map. reflexivity.
Qed.
End PivotPrims.

(* ------------------------------------------------------------------ the filling loops *)
Lemma find_index_keys v : forall ks : list value,
  existsb (fun k => val_eq k v) ks = true -> find_index (PV v) (map PV ks) = Some (index_of v ks).
Proof.
  induction ks as [|k t IH]; intros H; [discriminate|].
  cbn [map find_index index_of existsb] in *. rewrite pv_eqb_value.
  destruct (val_eq k v); [reflexivity|]. cbn [orb] in H. rewrite (IH H). reflexivity.
Qed.

Section Fill.
Variable call_ref : nat -> list pv -> pv.
Notation akey := (apply_key call_ref exec_nig_single exec_nig_multi 1).
Notation prim := (prims_exec call_ref exec_nig_single exec_nig_multi 1).
Hypothesis Hnig : forall args, call_ref 1 args = partial_clo 1 args.

Variables (ks : list value) (oc : list nat) (c2 : nat).
(* the expression that computes `other(row)`: a call of the lambda held in a variable (exec_pivot_fill) or the
   lambda's body inlined (exec_execute_query); it reads `row` and one more variable [ovar] *)
Variable oe : expr.
Variable ovar : string.
Variable oval : pv.
Variable wide : row -> Prop.
Hypothesis Hov_row : String.eqb ovar "row" = false.
Hypothesis Hov_index : String.eqb ovar "index" = false.
Hypothesis Hov_outrow : String.eqb ovar "outrow" = false.
Hypothesis Hov_field1 : String.eqb ovar "field1" = false.
Hypothesis Hov_group : String.eqb ovar "group" = false.
Hypothesis Hov_pivoted : String.eqb ovar "pivoted" = false.
Hypothesis Hov_rows : String.eqb ovar "rows" = false.
Hypothesis Hoe : forall loc flds (r : row), wide r ->
  lookup "row" loc = Some (row_pv r) -> lookup ovar loc = Some oval ->
  PyMini.eval call_ref prim {| locals := loc; fields := flds |} oe =
  Ok ({| locals := loc; fields := flds |}, PTuple (map PV (other oc r))).

Definition row_ok (r : row) : Prop :=
  ((c2 < length r)%nat /\ existsb (fun k => val_eq k (cell c2 r)) ks = true) /\ wide r.

Lemma prim_setslice out i j vals : (i <= j)%nat ->
  prim "stmt:setslice" [PList (map PV out); PV (VInt (Z.of_nat i)); PV (VInt (Z.of_nat j)); PTuple (map PV vals)] =
  Ok (PList (map PV (firstn i out ++ vals ++ skipn j out))).
Proof.
  intros Hij. cbn. rewrite firstn_clip, (skipn_clip (map PV out) i j Hij).
  rewrite !map_app, firstn_map, skipn_map. reflexivity.
Qed.

Lemma prim_index v : existsb (fun k => val_eq k v) ks = true ->
  prim "call:index" [PList (map PV ks); PV v] = Ok (PV (VInt (Z.of_nat (index_of v ks)))).
Proof. intros H. cbn. rewrite (find_index_keys v ks H). reflexivity. Qed.

Lemma prim_mul_list l n : prim "binop:mul" [PList l; PInt n] = Ok (PList (concat (repeat l (Z.to_nat n)))).
Proof. reflexivity. Qed.

Lemma prim_sort_key l clo : prim "method:sort:key" [PList l; clo] = sort_prim akey l clo false.
Proof. reflexivity. Qed.

Definition inner_body : list stmt :=
  [SAssign (TName "index")
     (XBin OAdd (XBin OMul (XCallMethod (XName "keys") "index" [XIndex (XName "row") (XName "col2")]) (XName "nother"))
        (XConst (PInt 1)));
   SAssign (TName "outrow")
     (XPrim "stmt:setslice" [XName "outrow"; XName "index"; XBin OAdd (XName "index") (XName "nother"); oe])].

Definition fixed (loc : env) : Prop :=
  lookup "keys" loc = Some (PList (map PV ks)) /\ lookup "col2" loc = Some (idx_pv c2) /\
  lookup "nother" loc = Some (PInt (Z.of_nat (length oc))) /\ lookup ovar loc = Some oval.

Ltac frame := rewrite !lookup_update_neq by (reflexivity || assumption).

Definition stable (loc loc' : env) : Prop :=
  forall x, x <> "row" -> x <> "index" -> x <> "outrow" -> lookup x loc' = lookup x loc.

Definition step_row (out : list value) (r : row) : list value :=
  set_block out (index_of (cell c2 r) ks * length oc + 1) (length oc) (other oc r).

Lemma inner_loop : forall (group : list row) (out : list value) loc flds,
  Forall row_ok group -> fixed loc -> lookup "outrow" loc = Some (PList (map PV out)) ->
  exists loc',
    for_loop call_ref prim inner_body "row" {| locals := loc; fields := flds |} (map row_pv group) =
      Ok (Next {| locals := loc'; fields := flds |}) /\
    lookup "outrow" loc' = Some (PList (map PV (fold_left step_row group out))) /\ stable loc loc'.
Proof.
  induction group as [|r t IH]; intros out loc flds Hok Hfix Hout.
  - exists loc. split; [reflexivity|]. split; [exact Hout|]. intros x _ _ _. reflexivity.
  - inversion Hok as [|? ? [[Hc2 Hin] Hw] Hok']; subst.
    destruct Hfix as [Hk [Hcol [Hn Ho]]].
    cbn [map for_loop fold_left]. cbn [write locals fields].
    set (loc1 := update "row" (row_pv r) loc).
    assert (Hr1 : lookup "row" loc1 = Some (row_pv r)) by apply lookup_update_eq.
    assert (Hk1 : lookup "keys" loc1 = Some (PList (map PV ks))) by (unfold loc1; frame; exact Hk).
    assert (Hcol1 : lookup "col2" loc1 = Some (idx_pv c2)) by (unfold loc1; frame; exact Hcol).
    assert (Hn1 : lookup "nother" loc1 = Some (PInt (Z.of_nat (length oc)))) by (unfold loc1; frame; exact Hn).
    assert (Ho1 : lookup ovar loc1 = Some oval) by (unfold loc1; frame; exact Ho).
    assert (Hout1 : lookup "outrow" loc1 = Some (PList (map PV out))) by (unfold loc1; frame; exact Hout).
    set (idx := (index_of (cell c2 r) ks * length oc + 1)%nat).
    (* index = keys.index(row[col2]) * nother + 1 *)
    assert (E1 : PyMini.exec call_ref prim {| locals := loc1; fields := flds |}
                   (SAssign (TName "index")
                      (XBin OAdd (XBin OMul (XCallMethod (XName "keys") "index" [XIndex (XName "row") (XName "col2")])
                                    (XName "nother")) (XConst (PInt 1)))) =
                 Ok (Next {| locals := update "index" (idx_pv idx) loc1; fields := flds |})).
    { repeat (progress (cbn [PyMini.exec PyMini.eval bind read write locals fields row_pv idx_pv PInt String.append
                             binop1 binop_builtin];
                        rewrite ?Hr1, ?Hk1, ?Hcol1, ?Hn1, ?(index_row r c2 Hc2), ?(prim_index _ Hin))).
      unfold idx, idx_pv. rewrite !Nat2Z.inj_add, Nat2Z.inj_mul. reflexivity. }
    unfold inner_body at 1. rewrite exec_block_cons. fold loc1. rewrite E1. cbn [bind].
    set (loc2 := update "index" (idx_pv idx) loc1).
    assert (Hi2 : lookup "index" loc2 = Some (idx_pv idx)) by apply lookup_update_eq.
    assert (Hr2 : lookup "row" loc2 = Some (row_pv r)) by (unfold loc2; frame; exact Hr1).
    assert (Hn2 : lookup "nother" loc2 = Some (PInt (Z.of_nat (length oc)))) by (unfold loc2; frame; exact Hn1).
    assert (Ho2 : lookup ovar loc2 = Some oval) by (unfold loc2; frame; exact Ho1).
    assert (Hout2 : lookup "outrow" loc2 = Some (PList (map PV out))) by (unfold loc2; frame; exact Hout1).
    assert (E2 : PyMini.exec call_ref prim {| locals := loc2; fields := flds |}
                   (SAssign (TName "outrow")
                      (XPrim "stmt:setslice" [XName "outrow"; XName "index"; XBin OAdd (XName "index") (XName "nother"); oe])) =
                 Ok (Next {| locals := update "outrow" (PList (map PV (step_row out r))) loc2; fields := flds |})).
    { repeat (progress (cbn [PyMini.exec PyMini.eval bind read write locals fields idx_pv PInt
                             binop1 binop_builtin];
                        rewrite ?Hi2, ?Hn2, ?Hout2, ?(Hoe loc2 flds r Hw Hr2 Ho2))).
      rewrite <- Nat2Z.inj_add. unfold idx_pv, PInt.
      rewrite (prim_setslice out idx (idx + length oc) (other oc r)) by lia.
      reflexivity. }
    rewrite exec_block_cons, E2. cbn [bind exec_block].
    destruct (IH (step_row out r) (update "outrow" (PList (map PV (step_row out r))) loc2) flds Hok') as [loc' [EL [HR ST]]].
    + unfold fixed, loc2, loc1. frame. repeat split; assumption.
    + apply lookup_update_eq.
    + exists loc'. split; [exact EL|]. split; [exact HR|].
      intros x N1 N2 N3. rewrite (ST x N1 N2 N3). unfold loc2, loc1. rewrite !lookup_update_other by congruence. reflexivity.
Qed.

Definition outer_body : list stmt :=
  [SAssign (TName "outrow")
     (XBin OAdd (XList [XName "field1"])
        (XBin OMul (XList [XConst PNone]) (XBin OSub (XLen (XName "columns")) (XConst (PInt 1)))));
   SFor "row" (XName "group") inner_body;
   SExpr (XMethod (TName "pivoted") "append" [XPrim "builtins.tuple" [XName "outrow"]])].

Variable cols : list pv.            (* the new header; only its length is used here *)

Definition made (kg : value * list row) : row := build_row ks oc c2 (length cols) (fst kg) (snd kg).

Lemma ovar_stable loc loc' : stable loc loc' -> lookup ovar loc' = lookup ovar loc.
Proof.
  intros St. apply St; intros E; subst ovar; discriminate.
Qed.

Lemma outer_loop : forall (groups : list (value * list row)) (acc : list row) loc flds,
  Forall (fun kg => Forall row_ok (snd kg)) groups -> fixed loc ->
  lookup "columns" loc = Some (PTuple cols) -> lookup "pivoted" loc = Some (PList (map row_pv acc)) ->
  exists loc',
    for_unpack_loop call_ref prim outer_body ["field1"; "group"] {| locals := loc; fields := flds |}
      (map group_pv groups) = Ok (Next {| locals := loc'; fields := flds |}) /\
    lookup "pivoted" loc' = Some (PList (map row_pv (acc ++ map made groups))) /\
    lookup "columns" loc' = Some (PTuple cols).
Proof.
  induction groups as [|[k g] groups IH]; intros acc loc flds Hok Hfix Hcols Hpiv.
  - exists loc. split; [reflexivity|]. cbn [map]. rewrite app_nil_r. split; assumption.
  - inversion Hok as [|? ? Hg Hok']; subst. cbn [snd] in Hg.
    destruct Hfix as [Hk [Hcol [Hn Ho]]].
    cbn [map for_unpack_loop group_pv fst snd unpack_names write locals fields bind].
    set (loc1 := update "group" (PList (map row_pv g)) (update "field1" (PV k) loc)).
    assert (Hf1 : lookup "field1" loc1 = Some (PV k)).
    { unfold loc1. rewrite lookup_update_neq by reflexivity. apply lookup_update_eq. }
    assert (Hg1 : lookup "group" loc1 = Some (PList (map row_pv g))) by apply lookup_update_eq.
    assert (Hc1 : lookup "columns" loc1 = Some (PTuple cols)) by (unfold loc1; frame; exact Hcols).
    assert (Hp1 : lookup "pivoted" loc1 = Some (PList (map row_pv acc))) by (unfold loc1; frame; exact Hpiv).
    assert (Hfix1 : fixed loc1).
    { unfold fixed, loc1. frame. repeat split; assumption. }
    set (out0 := k :: repeat VNull (length cols - 1)).
    assert (E1 : PyMini.exec call_ref prim {| locals := loc1; fields := flds |}
                   (SAssign (TName "outrow")
                      (XBin OAdd (XList [XName "field1"])
                         (XBin OMul (XList [XConst PNone]) (XBin OSub (XLen (XName "columns")) (XConst (PInt 1)))))) =
                 Ok (Next {| locals := update "outrow" (PList (map PV out0)) loc1; fields := flds |})).
    { repeat (progress (cbn [PyMini.exec PyMini.eval bind read write locals fields PInt binop1 binop_builtin bop_name
                             String.append];
                        rewrite ?Hf1, ?Hc1, ?prim_mul_list)).
      unfold out0. cbn [map app]. rewrite concat_repeat_single, map_repeat'.
      replace (Z.to_nat (Z.of_nat (length cols) - 1)) with (length cols - 1)%nat by lia. reflexivity. }
    unfold outer_body at 1. rewrite exec_block_cons. fold loc1. rewrite E1. cbn [bind].
    set (loc2 := update "outrow" (PList (map PV out0)) loc1).
    assert (Hfix2 : fixed loc2).
    { destruct Hfix1 as [A [B [C D]]]. unfold fixed, loc2. frame. repeat split; assumption. }
    assert (Hg2 : lookup "group" loc2 = Some (PList (map row_pv g))) by (unfold loc2; frame; exact Hg1).
    rewrite exec_block_cons.
    rewrite (exec_for call_ref prim "row" _ _ _ {| locals := loc2; fields := flds |} (map row_pv g)
               (eval_name call_ref prim {| locals := loc2; fields := flds |} "group" _ Hg2)).
    fold inner_body.
    destruct (inner_loop g out0 loc2 flds Hg Hfix2 (lookup_update_eq _ _ _)) as [loc3 [E2 [Ho3 St3]]].
    rewrite E2. cbn [bind].
    assert (Hp3 : lookup "pivoted" loc3 = Some (PList (map row_pv acc))).
    { rewrite St3 by discriminate. unfold loc2. frame. exact Hp1. }
    rewrite exec_block_cons.
    repeat (progress (cbn [PyMini.exec PyMini.eval bind read write locals fields method_call
                           String.eqb Ascii.eqb Bool.eqb exec_block];
                      rewrite ?Ho3, ?Hp3, ?prim_tuple)).
    destruct (IH (acc ++ [made (k, g)])
                (update "pivoted" (PList (map row_pv acc ++ [PTuple (map PV (fold_left step_row g out0))])) loc3) flds Hok')
      as [loc' [EL [HP HC]]].
    + destruct Hfix2 as [A [B [C D]]]. unfold fixed. frame.
      rewrite (ovar_stable _ _ St3). rewrite !St3 by discriminate. repeat split; assumption.
    + frame. rewrite St3 by discriminate. unfold loc2. frame. exact Hc1.
    + rewrite lookup_update_eq, map_app. reflexivity.
    + exists loc'. split; [exact EL|]. split; [|exact HC]. rewrite HP. cbn [map]. rewrite <- app_assoc. reflexivity.
Qed.

Definition fill_stmts : list stmt :=
  [SAssign (TName "pivoted") (XList []);
   SExpr (XMethod (TName "rows") "sort:key" [XCall (XConst (PRef 1)) [XName "col1"] None]);
   SForUnpack ["field1"; "group"]
     (XPrim "itertools.groupby:key" [XName "rows"; XPrim "operator.itemgetter" [XName "col1"]]) outer_body;
   SReturn (Some (XTuple [XName "columns"; XName "pivoted"]))].

(* the filling statements, from any state in which the variables they read hold the data *)
Lemma fill_block : forall (c1 : nat) (rows : list row) loc flds,
  Forall (fun r => (c1 < length r)%nat) rows -> Forall row_ok rows ->
  lookup "rows" loc = Some (PList (map row_pv rows)) -> lookup "col1" loc = Some (idx_pv c1) ->
  lookup "columns" loc = Some (PTuple cols) -> fixed loc ->
  exists s',
    exec_block call_ref prim {| locals := loc; fields := flds |} fill_stmts =
    Ok (Ret s' (PTuple [PTuple cols;
                        PList (map row_pv (map made (groupby c1 None (isort (on (cell c1) val_le) rows))))])).
Proof.
  intros c1 rows loc flds Hc1 Hok Hrows Hcol1 Hcols [Hk [Hcol [Hn Ho]]].
  set (sorted := isort (on (cell c1) val_le) rows).
  assert (Hperm : Permutation rows sorted) by apply isort_perm.
  assert (Hc1s : Forall (fun r => (c1 < length r)%nat) sorted) by (apply (Permutation_Forall Hperm); exact Hc1).
  assert (Hoks : Forall row_ok sorted) by (apply (Permutation_Forall Hperm); exact Hok).
  unfold fill_stmts. rewrite exec_block_cons.
  cbn [PyMini.exec PyMini.eval bind write locals fields].
  set (loc1 := update "pivoted" (PList []) loc).
  assert (Hrows1 : lookup "rows" loc1 = Some (PList (map row_pv rows))) by (unfold loc1; frame; exact Hrows).
  assert (Hcol11 : lookup "col1" loc1 = Some (idx_pv c1)) by (unfold loc1; frame; exact Hcol1).
  rewrite exec_block_cons.
  repeat (progress (cbn [PyMini.exec PyMini.eval bind read write locals fields do_call method_call app
                         String.eqb Ascii.eqb Bool.eqb String.append partial_clo];
                    rewrite ?Hnig, ?Hcol11, ?Hrows1)).
  change (PTuple [PRef 1; idx_pv c1]) with (partial_clo 1 [idx_pv c1]).
  rewrite prim_sort_key, (sort_tuples_src call_ref c1 rows Hc1). fold sorted.
  cbn [bind write locals fields].
  set (loc2 := update "rows" (PList (map row_pv sorted)) loc1).
  set (s2 := {| locals := loc2; fields := flds |}).
  assert (Hrows2 : lookup "rows" loc2 = Some (PList (map row_pv sorted))) by apply lookup_update_eq.
  assert (Hcol12 : lookup "col1" loc2 = Some (idx_pv c1)) by (unfold loc2; frame; exact Hcol11).
  rewrite exec_block_cons.
  rewrite (exec_for_unpack call_ref prim _ _ _ s2 s2 (map group_pv (groupby c1 None sorted))).
  2:{ rewrite (eval_prim2 call_ref prim "itertools.groupby:key" _ _ s2 s2 s2 (PList (map row_pv sorted))
                 (itemgetter_clo (PInt (Z.of_nat c1))) (eval_name call_ref prim s2 "rows" _ Hrows2)).
      - rewrite prim_groupby, (groupby_rows_src call_ref c1 sorted Hc1s). reflexivity.
      - rewrite (eval_prim1 call_ref prim "operator.itemgetter" _ s2 s2 _ (eval_name call_ref prim s2 "col1" _ Hcol12)).
        unfold idx_pv. rewrite prim_itemgetter. reflexivity. }
  destruct (outer_loop (groupby c1 None sorted) [] loc2 flds) as [loc' [EL [HP HC]]].
  - rewrite groupby_runs. apply runs_rows_forall. exact Hoks.
  - unfold fixed, loc2, loc1. frame. repeat split; assumption.
  - unfold loc2, loc1. frame. exact Hcols.
  - unfold loc2, loc1. frame. apply lookup_update_eq.
  - unfold s2. rewrite EL. cbn [bind]. rewrite exec_block_cons.
    repeat (progress (cbn [PyMini.exec PyMini.eval bind read locals fields]; rewrite ?HP, ?HC)).
    eexists. reflexivity.
Qed.
End Fill.

(* ------------------------------------------------------------------ exec_pivot_fill: `other` held in a variable *)
Section FillFn.
Variable call_ref : nat -> list pv -> pv.
Notation prim := (prims_exec call_ref exec_nig_single exec_nig_multi 1).
Hypothesis Hnig : forall args, call_ref 1 args = partial_clo 1 args.
Variables (ks : list value) (oc : list nat) (c2 ko : nat).
(* `other` (a lambda of the untranslated part) returns the remaining columns of a row *)
Hypothesis Hother : forall r : row, call_ref ko [row_pv r] = PTuple (map PV (other oc r)).
Variable cols : list pv.

Definition row_ok0 (r : row) : Prop := (c2 < length r)%nat /\ existsb (fun k => val_eq k (cell c2 r)) ks = true.

Lemma other_call : forall loc flds (r : row), True ->
  lookup "row" loc = Some (row_pv r) -> lookup "other" loc = Some (PRef ko) ->
  PyMini.eval call_ref prim {| locals := loc; fields := flds |} (XCall (XName "other") [XName "row"] None) =
  Ok ({| locals := loc; fields := flds |}, PTuple (map PV (other oc r))).
Proof.
  intros loc flds r _ Hr Ho.
  repeat (progress (cbn [PyMini.eval bind read locals fields do_call]; rewrite ?Hr, ?Ho, ?Hother)). reflexivity.
Qed.

(* the translated filling part of the PIVOT BY branch = the rows of Model/Pivot.v's pivot *)
Theorem pivot_fill_src : forall (c1 : nat) (rows : list row),
  Forall (fun r => (c1 < length r)%nat) rows -> Forall row_ok0 rows ->
  call_fun call_ref prim exec_pivot_fill
    [PList (map row_pv rows); idx_pv c1; PTuple cols; PList (map PV ks); idx_pv c2; PInt (Z.of_nat (length oc)); PRef ko] =
  Ok (PTuple [PTuple cols;
              PList (map row_pv (map (made ks oc c2 cols) (groupby c1 None (isort (on (cell c1) val_le) rows))))]).
Proof.
  intros c1 rows Hc1 Hok. unfold call_fun, exec_pivot_fill. cbn [f_params f_body f_gen bind_params].
  destruct (fill_block call_ref Hnig ks oc c2 (XCall (XName "other") [XName "row"] None) "other" (PRef ko)
              (fun _ => True) eq_refl eq_refl eq_refl eq_refl eq_refl eq_refl eq_refl other_call cols c1 rows
              [("rows", PList (map row_pv rows)); ("col1", idx_pv c1); ("columns", PTuple cols);
               ("keys", PList (map PV ks)); ("col2", idx_pv c2); ("nother", PInt (Z.of_nat (length oc)));
               ("other", PRef ko)] [] Hc1) as [s' E].
  - apply Forall_forall. intros r Hr. rewrite Forall_forall in Hok. split; [apply (Hok r Hr)|exact I].
  - reflexivity.
  - reflexivity.
  - reflexivity.
  - repeat split; reflexivity.
  - unfold fill_stmts, outer_body, inner_body in E. rewrite E. reflexivity.
Qed.
End FillFn.

(* with the key list and the remaining columns of Model/Pivot.v: the rows of [pivot] *)
From Verif Require Import Proofs.PivotProofs.

Corollary pivot_src : forall (call_ref : nat -> list pv -> pv) (ncols c1 c2 ko : nat) (rows : list row) (cols : list pv),
  (forall args, call_ref 1%nat args = partial_clo 1 args) ->
  (forall r : row, call_ref ko [row_pv r] = PTuple (map PV (other (other_cols ncols c1 c2) r))) ->
  Forall (fun r => (c1 < length r)%nat /\ (c2 < length r)%nat) rows ->
  length cols = length (pivot_header (pivot_keys c2 rows) (other_cols ncols c1 c2)) ->
  call_fun call_ref (prims_exec call_ref exec_nig_single exec_nig_multi 1) exec_pivot_fill
    [PList (map row_pv rows); idx_pv c1; PTuple cols; PList (map PV (pivot_keys c2 rows)); idx_pv c2;
     PInt (Z.of_nat (length (other_cols ncols c1 c2))); PRef ko] =
  Ok (PTuple [PTuple cols; PList (map row_pv (snd (pivot ncols c1 c2 rows)))]).
Proof.
  intros call_ref ncols c1 c2 ko rows cols Hnig Hother Hw Hlen.
  rewrite (pivot_fill_src call_ref Hnig (pivot_keys c2 rows) (other_cols ncols c1 c2) c2 ko Hother cols c1 rows).
  - unfold pivot. cbn [snd]. unfold made. rewrite Hlen. reflexivity.
  - apply Forall_forall. intros r Hr. rewrite Forall_forall in Hw. apply (Hw r Hr).
  - apply Forall_forall. intros r Hr. rewrite Forall_forall in Hw. split; [apply (Hw r Hr)|].
    apply pivot_keys_complete. exact Hr.
Qed.

(* ================================================================== the WHOLE function execute_query
   (Gen/SrcExec.v: exec_execute_query, translated with the rules W1-W7 of harness/vf/src_exec.py) *)
Open Scope Z_scope.
Lemma val_eq_int a b : val_eq (VInt a) (VInt b) = (a =? b).
Proof.
  unfold val_eq, eqv. rewrite !val_le_int.
  destruct (Z.eqb_spec a b) as [->|N]; [rewrite Z.leb_refl; reflexivity|].
  destruct (Z.leb_spec a b), (Z.leb_spec b a); try reflexivity; lia.
Qed.

Lemma pv_eqb_idx i j : pv_eqb (idx_pv i) (idx_pv j) = Nat.eqb i j.
Proof.
  unfold idx_pv, PInt. rewrite pv_eqb_value, val_eq_int.
  destruct (Nat.eqb_spec i j) as [->|N]; [apply Z.eqb_refl|]. apply Z.eqb_neq. lia.
Qed.

Lemma nub_pv_values : forall l seen, nub_pv (map PV seen) (map PV l) = map PV (nub_vals seen l).
Proof.
  induction l as [|v t IH]; intros seen; [reflexivity|].
  cbn [map nub_pv nub_vals].
  assert (E : existsb (pv_eqb (PV v)) (map PV seen) = existsb (val_eq v) seen).
  { clear. induction seen as [|s t IH]; [reflexivity|]. cbn [map existsb]. rewrite pv_eqb_value, IH. reflexivity. }
  rewrite E. destruct (existsb (val_eq v) seen); [apply IH|].
  cbn [map]. f_equal. rewrite <- IH, map_app. reflexivity.
Qed.

Lemma map_opt_key_single vs : map_opt key_values (map key_pv vs) = Some (map (fun v => [v]) vs).
Proof.
  induction vs as [|v t IH]; [reflexivity|]. cbn [map map_opt]. rewrite IH.
  unfold key_values. destruct v; reflexivity.
Qed.

Lemma combine_app' {A B} (l1 l2 : list A) (m1 m2 : list B) : length l1 = length m1 ->
  combine (l1 ++ l2) (m1 ++ m2) = combine l1 m1 ++ combine l2 m2.
Proof.
  revert m1. induction l1 as [|a t IH]; intros [|b m1] H; try discriminate; [reflexivity|].
  cbn [app combine]. rewrite IH by (cbn in H; congruence). reflexivity.
Qed.

Section Whole.
Variable call_ref : nat -> list pv -> pv.
Notation prim := (prims_exec call_ref exec_nig_single exec_nig_multi 1).
Hypothesis Hnig : forall args, call_ref 1 args = partial_clo 1 args.
(* opaque callable 4 is the class Column: calling it builds the object *)
Hypothesis Hcolumn : forall n d, call_ref 4 [n; d] = column_obj n d.

Variable incols : list (pv * pv).                 (* name and datatype of the columns of the un-pivoted result *)
Variables (c1 c2 : nat) (rows : list row).
Notation ncols := (length incols).
Notation colobjs := (map (fun nd : pv * pv => column_obj (fst nd) (snd nd)) incols).
Definition name_of (c : nat) : pv := fst (nth c incols (PNone, PNone)).
Definition dtype_of (c : nat) : pv := snd (nth c incols (PNone, PNone)).
Notation oc := (other_cols ncols c1 c2).
Notation keys := (pivot_keys c2 rows).
Definition slash : pv := PV (VStr [47]).
Definition first_name : pv := fstring_obj [name_of c1; slash; name_of c2].

(* a header entry of Model/Pivot.v as the Column object the code builds *)
Definition hdr_pv (h : option (value * nat)) : pv :=
  match h with
  | None => column_obj first_name (dtype_of c1)
  | Some (k, c) => column_obj (if (1 <? length oc)%nat then fstring_obj [PV k; slash; name_of c] else fstring_obj [PV k])
                              (dtype_of c)
  end.

Definition names_list : list pv :=
  first_name :: (if (1 <? length oc)%nat
                 then flat_map (fun k => map (fun c => fstring_obj [PV k; slash; name_of c]) oc) keys
                 else map (fun k => fstring_obj [PV k]) keys).
Definition dtypes_list : list pv := dtype_of c1 :: concat (repeat (map dtype_of oc) (length keys)).

Lemma header_zip :
  map (fun p : pv * pv => column_obj (fst p) (snd p)) (combine names_list dtypes_list) = map hdr_pv (pivot_header keys oc).
Proof.
  unfold names_list, dtypes_list, pivot_header. generalize keys as ks. intros ks.
  destruct oc as [|c [|c' t]] eqn:Eoc.
  - cbn [length Nat.ltb Nat.leb map]. replace (concat (repeat [] (length ks))) with (@nil pv).
    + destruct (map (fun k : value => fstring_obj [PV k]) ks); reflexivity.
    + induction ks as [|k ks IH]; [reflexivity|]. cbn [length repeat concat app]. exact IH.
  - cbn [length Nat.ltb Nat.leb map combine fst snd hdr_pv]. f_equal.
    induction ks as [|k ks IH]; [reflexivity|].
    cbn [map length repeat concat app combine flat_map fst snd]. rewrite IH.
    cbn [hdr_pv]. rewrite Eoc. reflexivity.
  - assert (Hlt : (1 <? length (c :: c' :: t))%nat = true) by reflexivity.
    rewrite Hlt. set (L := c :: c' :: t) in *. cbn [combine map fst snd hdr_pv]. f_equal.
    induction ks as [|k ks IH]; [reflexivity|].
    cbn [flat_map length repeat concat].
    rewrite combine_app' by (rewrite !map_length; reflexivity).
    rewrite !map_app, IH. f_equal.
    rewrite combine_map, !map_map. apply map_ext. intros x. cbn [fst snd hdr_pv]. rewrite Eoc, Hlt. reflexivity.
Qed.

(* ---- primitives used by the header part *)
Lemma prim_range n : prim "builtins.range" [PInt (Z.of_nat n)] = Ok (PList (map idx_pv (seq 0 n))).
Proof. cbn. rewrite Nat2Z.id. reflexivity. Qed.
Lemma prim_attr_pivots q p : prim "attr:pivots" [pivot_obj q p] = Ok p.
Proof. reflexivity. Qed.
Lemma prim_attr_query q p : prim "attr:query" [pivot_obj q p] = Ok q.
Proof. reflexivity. Qed.
Lemma prim_attr_name n d : prim "attr:name" [column_obj n d] = Ok n.
Proof. reflexivity. Qed.
Lemma prim_attr_datatype n d : prim "attr:datatype" [column_obj n d] = Ok d.
Proof. reflexivity. Qed.
Lemma prim_set_list l : prim "builtins.set" [PList l] = Ok (PList (nub_pv [] l)).
Proof. reflexivity. Qed.
Lemma prim_fstring parts : prim "fstring" parts = Ok (fstring_obj parts).
Proof. reflexivity. Qed.
Lemma prim_product x y : prim "itertools.product" [PList x; PTuple y] =
  Ok (PList (flat_map (fun u => map (fun v => PTuple [u; v]) y) x)).
Proof. reflexivity. Qed.
Lemma prim_zip x y : prim "builtins.zip" [PList x; PList y] = Ok (PList (map (fun p => PTuple [fst p; snd p]) (combine x y))).
Proof. reflexivity. Qed.
Lemma prim_tuple' l : prim "builtins.tuple" [PList l] = Ok (PTuple l).
Proof. reflexivity. Qed.

Variable subq : pv.
Definition qobj : pv := pivot_obj subq (PTuple [idx_pv c1; idx_pv c2]).

Hypothesis Hc1 : (c1 < ncols)%nat.
Hypothesis Hc2 : (c2 < ncols)%nat.
Hypothesis Hwidth : Forall (fun r : row => length r = ncols) rows.

Lemma prim_qobj_query : prim "attr:query" [qobj] = Ok subq.
Proof. reflexivity. Qed.
Lemma prim_qobj_pivots : prim "attr:pivots" [qobj] = Ok (PTuple [idx_pv c1; idx_pv c2]).
Proof. reflexivity. Qed.

Lemma oc_lt i : In i oc -> (i < ncols)%nat.
Proof. unfold other_cols. intros H. apply filter_In in H as [H _]. apply in_seq in H. lia. Qed.

Lemma prim_attr_query_raw q p : prim "attr:query" [PTuple [q; p]] = Ok q.
Proof. reflexivity. Qed.
Lemma prim_attr_pivots_raw q p : prim "attr:pivots" [PTuple [q; p]] = Ok p.
Proof. reflexivity. Qed.
Lemma index2_0 (a b : pv) : index_at [a; b] 0 = Ok a.
Proof. reflexivity. Qed.
Lemma index2_1 (a b : pv) : index_at [a; b] 1 = Ok b.
Proof. reflexivity. Qed.
Lemma prim_attr_name_raw n d : prim "attr:name" [PTuple [n; d]] = Ok n.
Proof. reflexivity. Qed.
Lemma prim_attr_datatype_raw n d : prim "attr:datatype" [PTuple [n; d]] = Ok d.
Proof. reflexivity. Qed.

Section Evals.
Variables (loc flds : env).
Notation s := {| locals := loc; fields := flds |}.

(* othercols = [i for i in range(len(columns)) if i not in query.pivots] *)
Lemma othercols_eval :
  lookup "query" loc = Some qobj -> lookup "columns" loc = Some (PTuple colobjs) ->
  PyMini.eval call_ref prim s
    (XListComp (XName "i") "i" (XPrim "builtins.range" [XLen (XName "columns")])
       (Some (XCompare (XName "i") [(CNotIn, XAttr (XName "query") "pivots")]))) = Ok (s, PList (map idx_pv oc)).
Proof.
  intros Hq Hcols.
  rewrite (eval_listcomp_cond call_ref prim _ _ _ _ s s (map idx_pv (seq 0 ncols))).
  - unfold other_cols.
    rewrite (comp_res_filter idx_pv _ (fun i => negb (Nat.eqb i c1) && negb (Nat.eqb i c2)) idx_pv);
      [reflexivity|].
    intros i _. unfold comp_item.
    repeat (progress (cbn [PyMini.eval bind read write locals fields snd compare1 existsb String.append];
                      rewrite ?lookup_update_eq, ?(lookup_update_neq "query" "i") by reflexivity;
                      rewrite ?Hq)).
    unfold qobj at 1, pivot_obj at 1. cbn [bind].
    change (prim "attr:pivots" [qobj]) with (Ok (PTuple [idx_pv c1; idx_pv c2])).
    cbn [bind existsb snd]. rewrite !pv_eqb_idx.
    destruct (Nat.eqb i c1), (Nat.eqb i c2); reflexivity.
  - rewrite (eval_prim1 call_ref prim "builtins.range" (XLen (XName "columns")) s s (PInt (Z.of_nat ncols))).
    + rewrite prim_range. reflexivity.
    + cbn [PyMini.eval read locals bind]. rewrite Hcols. cbn [bind]. rewrite map_length. reflexivity.
Qed.

(* {row[col2] for row in rows} *)
Definition keyset_expr : expr :=
  XPrim "builtins.set" [XListComp (XIndex (XName "row") (XName "col2")) "row" (XName "rows") None].

Lemma keyset_eval :
  lookup "rows" loc = Some (PList (map row_pv rows)) -> lookup "col2" loc = Some (idx_pv c2) ->
  PyMini.eval call_ref prim s keyset_expr = Ok (s, PList (map PV (nub_vals [] (map (cell c2) rows)))).
Proof.
  intros Hrows Hcol2. unfold keyset_expr.
  rewrite (eval_prim1 call_ref prim "builtins.set" _ s s (PList (map PV (map (cell c2) rows)))).
  - rewrite prim_set_list. rewrite (nub_pv_values _ []). reflexivity.
  - rewrite (eval_listcomp call_ref prim _ _ _ s s _ (eval_name call_ref prim s "rows" _ Hrows)).
    rewrite (map_res_map_ok' row_pv _ (fun r => PV (cell c2 r))); [rewrite map_map; reflexivity|].
    intros r Hr. cbn [write locals fields].
    rewrite (eval_index_tuple call_ref prim _ _ _ _ _ (map PV r) (Z.of_nat c2)
               (eval_name call_ref prim {| locals := update "row" (row_pv r) loc; fields := flds |} "row" (row_pv r)
                  (lookup_update_eq _ _ _))
               (eval_name call_ref prim {| locals := update "row" (row_pv r) loc; fields := flds |} "col2" (idx_pv c2)
                  ltac:(cbn [locals]; rewrite lookup_update_neq by reflexivity; exact Hcol2))).
    rewrite index_row; [reflexivity|]. rewrite Forall_forall in Hwidth. rewrite (Hwidth r Hr). exact Hc2.
Qed.

(* keys = sorted({..}, key=lambda value: value if value is not None else NULL) *)
Lemma keys_eval :
  lookup "rows" loc = Some (PList (map row_pv rows)) -> lookup "col2" loc = Some (idx_pv c2) ->
  PyMini.eval call_ref prim s
    (XPrim "sorted_by" [keyset_expr;
        XListComp (XIfExp (XCompare (XName "value") [(CIsNot, XConst PNone)]) (XName "value") (XConst (PRef 0)))
          "value" keyset_expr None]) = Ok (s, PList (map PV keys)).
Proof.
  intros Hrows Hcol2. set (N := nub_vals [] (map (cell c2) rows)).
  rewrite (eval_prim2 call_ref prim "sorted_by" _ _ s s s (PList (map PV N)) (PList (map key_pv N))
             (keyset_eval Hrows Hcol2)).
  - cbn [prims_exec prims_hi String.eqb Ascii.eqb Bool.eqb prims_base].
    rewrite map_opt_key_single, !map_length, Nat.eqb_refl, combine_map.
    rewrite (py_sort_map (fun v => ([v], PV v)) (on (fun v => [v]) tuple_le) (on fst tuple_le) false) by reflexivity.
    rewrite map_map. cbn [snd bind]. unfold py_sort, pivot_keys. fold N.
    rewrite (isort_ext _ (on (fun v : value => [v]) tuple_le) val_le N); [reflexivity|].
    intros x y. unfold on. apply tuple_le_single.
  - rewrite (eval_listcomp call_ref prim _ _ _ s s _ (keyset_eval Hrows Hcol2)).
    rewrite (map_res_map_ok' PV _ key_pv); [reflexivity|].
    intros v _. unfold key_pv.
    destruct v;
      repeat (progress (cbn [PyMini.eval bind read write locals fields snd compare1 pv_is_none PNone negb pv_truthy
                             PBool truthy is_null]; rewrite ?lookup_update_eq)); reflexivity.
Qed.

(* other(x) = tuple(x[i] for i in othercols), x a variable holding a tuple *)
Lemma other_eval (x : string) (items : list pv) :
  String.eqb x "i" = false ->
  lookup x loc = Some (PTuple items) -> lookup "othercols" loc = Some (PList (map idx_pv oc)) ->
  (forall i, In i oc -> (i < length items)%nat) ->
  PyMini.eval call_ref prim s
    (XPrim "builtins.tuple" [XListComp (XIndex (XName x) (XName "i")) "i" (XName "othercols") None]) =
  Ok (s, PTuple (map (fun i => nth i items PNone) oc)).
Proof.
  intros Hx Hlx Hoc Hlt.
  rewrite (eval_prim1 call_ref prim "builtins.tuple" _ s s (PList (map (fun i => nth i items PNone) oc))).
  - rewrite prim_tuple'. reflexivity.
  - rewrite (eval_listcomp call_ref prim _ _ _ s s _ (eval_name call_ref prim s "othercols" _ Hoc)).
    rewrite (map_res_map_ok' idx_pv _ (fun i => nth i items PNone)); [reflexivity|].
    intros i Hi. cbn [write locals fields].
    rewrite (eval_index_tuple call_ref prim _ _ _ _ _ items (Z.of_nat i)
               (eval_name call_ref prim {| locals := update "i" (idx_pv i) loc; fields := flds |} x (PTuple items)
                  ltac:(cbn [locals]; rewrite lookup_update_neq by exact Hx; exact Hlx))
               (eval_name call_ref prim {| locals := update "i" (idx_pv i) loc; fields := flds |} "i" (idx_pv i)
                  (lookup_update_eq _ _ _))).
    rewrite (index_at_nat items i PNone (Hlt i Hi)). reflexivity.
Qed.

Lemma col_nth_d c : nth c colobjs (column_obj PNone PNone) = column_obj (name_of c) (dtype_of c).
Proof. exact (map_nth (fun nd : pv * pv => column_obj (fst nd) (snd nd)) incols (PNone, PNone) c). Qed.

Lemma col_at c : (c < ncols)%nat -> index_at colobjs (Z.of_nat c) = Ok (column_obj (name_of c) (dtype_of c)).
Proof.
  intros H. rewrite (index_at_nat colobjs c (column_obj PNone PNone)) by (rewrite map_length; exact H).
  rewrite col_nth_d. reflexivity.
Qed.

Lemma col_nth c : (c < ncols)%nat -> nth c colobjs PNone = column_obj (name_of c) (dtype_of c).
Proof.
  intros H. rewrite (nth_indep colobjs PNone (column_obj PNone PNone)) by (rewrite map_length; exact H).
  apply col_nth_d.
Qed.

(* columns[x].a *)
Lemma colattr_eval (x : string) (c : nat) (a : string) :
  lookup "columns" loc = Some (PTuple colobjs) -> lookup x loc = Some (idx_pv c) -> (c < ncols)%nat ->
  PyMini.eval call_ref prim s (XAttr (XIndex (XName "columns") (XName x)) a) =
  bind (prim ("attr:" ++ a) [column_obj (name_of c) (dtype_of c)]) (fun v => Ok (s, v)).
Proof.
  intros Hcols Hx Hc.
  rewrite (eval_attr call_ref prim _ a s s (column_obj (name_of c) (dtype_of c))); [reflexivity| |discriminate].
  rewrite (eval_index_tuple call_ref prim _ _ _ _ _ colobjs (Z.of_nat c)
             (eval_name call_ref prim s "columns" _ Hcols) (eval_name call_ref prim s x _ Hx)).
  rewrite (col_at c Hc). reflexivity.
Qed.

Definition first_expr : expr :=
  XPrim "fstring" [XAttr (XIndex (XName "columns") (XName "col1")) "name"; XConst (PV (VStr [47]));
                   XAttr (XIndex (XName "columns") (XName "col2")) "name"].

Lemma eval_prim3 name a b c va vb vc :
  PyMini.eval call_ref prim s a = Ok (s, va) -> PyMini.eval call_ref prim s b = Ok (s, vb) ->
  PyMini.eval call_ref prim s c = Ok (s, vc) ->
  PyMini.eval call_ref prim s (XPrim name [a; b; c]) = bind (prim name [va; vb; vc]) (fun r => Ok (s, r)).
Proof.
  intros Ha Hb Hc. cbn [PyMini.eval]. rewrite Ha. cbn [bind]. rewrite Hb. cbn [bind]. rewrite Hc. reflexivity.
Qed.

Lemma first_eval :
  lookup "columns" loc = Some (PTuple colobjs) -> lookup "col1" loc = Some (idx_pv c1) ->
  lookup "col2" loc = Some (idx_pv c2) -> PyMini.eval call_ref prim s first_expr = Ok (s, first_name).
Proof.
  intros Hcols H1 H2. unfold first_expr.
  rewrite (eval_prim3 "fstring" _ _ _ (name_of c1) slash (name_of c2)).
  - rewrite prim_fstring. reflexivity.
  - rewrite (colattr_eval "col1" c1 "name" Hcols H1 Hc1). cbn [String.append]. rewrite prim_attr_name. reflexivity.
  - reflexivity.
  - rewrite (colattr_eval "col2" c2 "name" Hcols H2 Hc2). cbn [String.append]. rewrite prim_attr_name. reflexivity.
Qed.

Lemma eval_add_list1 e1 e2 v l :
  PyMini.eval call_ref prim s e1 = Ok (s, v) -> PyMini.eval call_ref prim s e2 = Ok (s, PList l) ->
  PyMini.eval call_ref prim s (XBin OAdd (XList [e1]) e2) = Ok (s, PList (v :: l)).
Proof. intros H1 H2. cbn [PyMini.eval]. rewrite H1. cbn [bind]. rewrite H2. reflexivity. Qed.

Lemma eval_mul_list a b l n :
  PyMini.eval call_ref prim s a = Ok (s, PList l) -> PyMini.eval call_ref prim s b = Ok (s, PInt n) ->
  PyMini.eval call_ref prim s (XBin OMul a b) = Ok (s, PList (concat (repeat l (Z.to_nat n)))).
Proof. intros H1 H2. cbn [PyMini.eval]. rewrite H1. cbn [bind]. rewrite H2. reflexivity. Qed.

Definition other_columns_expr : expr :=
  XPrim "builtins.tuple" [XListComp (XIndex (XName "columns") (XName "i")) "i" (XName "othercols") None].

Lemma other_columns_eval :
  lookup "columns" loc = Some (PTuple colobjs) -> lookup "othercols" loc = Some (PList (map idx_pv oc)) ->
  PyMini.eval call_ref prim s other_columns_expr =
  Ok (s, PTuple (map (fun c => column_obj (name_of c) (dtype_of c)) oc)).
Proof.
  intros Hcols Hoc. unfold other_columns_expr.
  rewrite (other_eval "columns" colobjs eq_refl Hcols Hoc) by (intros i Hi; rewrite map_length; apply oc_lt; exact Hi).
  do 3 f_equal. apply map_ext_in. intros c Hc. apply col_nth. apply oc_lt. exact Hc.
Qed.

Definition KC : list (value * nat) := flat_map (fun k => map (fun c => (k, c)) oc) keys.
Definition itm (kc : value * nat) : pv := PTuple [PV (fst kc); column_obj (name_of (snd kc)) (dtype_of (snd kc))].

Lemma map_flat_pairs {K C B} (f : K * C -> B) (ks : list K) (cs : list C) :
  map f (flat_map (fun k => map (fun c => (k, c)) cs) ks) = flat_map (fun k => map (fun c => f (k, c)) cs) ks.
Proof. induction ks as [|k t IH]; [reflexivity|]. cbn [flat_map]. rewrite map_app, map_map, IH. reflexivity. Qed.

(* it = itertools.product(keys, other(columns)) *)
Lemma it_eval :
  lookup "columns" loc = Some (PTuple colobjs) -> lookup "othercols" loc = Some (PList (map idx_pv oc)) ->
  lookup "keys" loc = Some (PList (map PV keys)) ->
  PyMini.eval call_ref prim s (XPrim "itertools.product" [XName "keys"; other_columns_expr]) = Ok (s, PList (map itm KC)).
Proof.
  intros Hcols Hoc Hkeys.
  rewrite (eval_prim2 call_ref prim "itertools.product" _ _ s s s _ _ (eval_name call_ref prim s "keys" _ Hkeys)
             (other_columns_eval Hcols Hoc)).
  rewrite prim_product. cbn [bind]. unfold KC. rewrite map_flat_pairs. do 3 f_equal.
  generalize keys as ks. induction ks as [|k t IH]; [reflexivity|].
  cbn [map flat_map]. rewrite IH, !map_map. reflexivity.
Qed.

Lemma names_true_eval : (1 <? length oc)%nat = true ->
  lookup "columns" loc = Some (PTuple colobjs) -> lookup "col1" loc = Some (idx_pv c1) ->
  lookup "col2" loc = Some (idx_pv c2) -> lookup "it" loc = Some (PList (map itm KC)) ->
  PyMini.eval call_ref prim s
    (XBin OAdd (XList [first_expr])
       (XListComp (XPrim "fstring" [XIndex (XName "$t") (XConst (PInt 0)); XConst (PV (VStr [47]));
                                    XAttr (XIndex (XName "$t") (XConst (PInt 1))) "name"]) "$t" (XName "it") None)) =
  Ok (s, PList names_list).
Proof.
  intros Hlt Hcols H1 H2 Hit. unfold names_list. rewrite Hlt.
  apply eval_add_list1; [apply first_eval; assumption|].
  rewrite (eval_listcomp call_ref prim _ _ _ s s _ (eval_name call_ref prim s "it" _ Hit)).
  rewrite (map_res_map_ok' itm _ (fun kc => fstring_obj [PV (fst kc); slash; name_of (snd kc)])).
  - unfold KC. rewrite map_flat_pairs. reflexivity.
  - intros [k c] _. unfold itm. cbn [fst snd].
    repeat (progress (cbn [PyMini.eval bind read write locals fields snd column_obj String.append PInt];
                      rewrite ?lookup_update_eq, ?index2_0, ?index2_1, ?prim_attr_name_raw, ?prim_fstring)).
    reflexivity.
Qed.

Lemma names_false_eval : (1 <? length oc)%nat = false ->
  lookup "columns" loc = Some (PTuple colobjs) -> lookup "col1" loc = Some (idx_pv c1) ->
  lookup "col2" loc = Some (idx_pv c2) -> lookup "keys" loc = Some (PList (map PV keys)) ->
  PyMini.eval call_ref prim s
    (XBin OAdd (XList [first_expr]) (XListComp (XPrim "fstring" [XName "key"]) "key" (XName "keys") None)) =
  Ok (s, PList names_list).
Proof.
  intros Hlt Hcols H1 H2 Hkeys. unfold names_list. rewrite Hlt.
  apply eval_add_list1; [apply first_eval; assumption|].
  rewrite (eval_listcomp call_ref prim _ _ _ s s _ (eval_name call_ref prim s "keys" _ Hkeys)).
  rewrite (map_res_map_ok' PV _ (fun k => fstring_obj [PV k])); [reflexivity|].
  intros k _.
  repeat (progress (cbn [PyMini.eval bind read write locals fields snd]; rewrite ?lookup_update_eq)).
  rewrite prim_fstring. reflexivity.
Qed.

Lemma dtypes_eval :
  lookup "columns" loc = Some (PTuple colobjs) -> lookup "col1" loc = Some (idx_pv c1) ->
  lookup "othercols" loc = Some (PList (map idx_pv oc)) -> lookup "keys" loc = Some (PList (map PV keys)) ->
  PyMini.eval call_ref prim s
    (XBin OAdd (XList [XAttr (XIndex (XName "columns") (XName "col1")) "datatype"])
       (XBin OMul (XListComp (XAttr (XName "col") "datatype") "col" other_columns_expr None) (XLen (XName "keys")))) =
  Ok (s, PList dtypes_list).
Proof.
  intros Hcols H1 Hoc Hkeys. unfold dtypes_list.
  apply eval_add_list1.
  - rewrite (colattr_eval "col1" c1 "datatype" Hcols H1 Hc1). cbn [String.append]. rewrite prim_attr_datatype. reflexivity.
  - replace (length keys) with (Z.to_nat (Z.of_nat (length keys))) by apply Nat2Z.id.
    apply eval_mul_list.
    + rewrite (eval_listcomp_tuple call_ref prim _ _ _ s s _ (other_columns_eval Hcols Hoc)).
      rewrite (map_res_map_ok' (fun c => column_obj (name_of c) (dtype_of c)) _ dtype_of); [reflexivity|].
      intros c _.
      repeat (progress (cbn [PyMini.eval bind read write locals fields snd column_obj String.append];
                        rewrite ?lookup_update_eq, ?prim_attr_datatype_raw)).
      reflexivity.
    + cbn [PyMini.eval read locals bind]. rewrite Hkeys. cbn [bind]. rewrite map_length. reflexivity.
Qed.

(* columns = tuple(Column(name, datatype) for name, datatype in zip(names, datatypes)) *)
Lemma columns_eval :
  lookup "names" loc = Some (PList names_list) -> lookup "datatypes" loc = Some (PList dtypes_list) ->
  PyMini.eval call_ref prim s
    (XPrim "builtins.tuple"
       [XListComp (XCall (XConst (PRef 4)) [XIndex (XName "$t") (XConst (PInt 0)); XIndex (XName "$t") (XConst (PInt 1))] None)
          "$t" (XPrim "builtins.zip" [XName "names"; XName "datatypes"]) None]) =
  Ok (s, PTuple (map hdr_pv (pivot_header keys oc))).
Proof.
  intros Hn Hd.
  rewrite (eval_prim1 call_ref prim "builtins.tuple" _ s s
             (PList (map (fun p : pv * pv => column_obj (fst p) (snd p)) (combine names_list dtypes_list)))).
  - rewrite prim_tuple', header_zip. reflexivity.
  - rewrite (eval_listcomp call_ref prim _ _ _ s s
               (map (fun p : pv * pv => PTuple [fst p; snd p]) (combine names_list dtypes_list))).
    + rewrite (map_res_map_ok' (fun p : pv * pv => PTuple [fst p; snd p]) _ (fun p => column_obj (fst p) (snd p)));
        [reflexivity|].
      intros [n d] _. cbn [fst snd].
      repeat (progress (cbn [PyMini.eval bind read write locals fields snd do_call app PInt column_obj];
                        rewrite ?lookup_update_eq, ?index2_0, ?index2_1, ?Hcolumn)).
      reflexivity.
    + rewrite (eval_prim2 call_ref prim "builtins.zip" _ _ s s s _ _ (eval_name call_ref prim s "names" _ Hn)
                 (eval_name call_ref prim s "datatypes" _ Hd)).
      rewrite prim_zip. reflexivity.
Qed.
End Evals.

Lemma nother_cmp_eval loc flds :
  lookup "nother" loc = Some (PInt (Z.of_nat (length oc))) ->
  PyMini.eval call_ref prim {| locals := loc; fields := flds |} (XCompare (XName "nother") [(CGt, XConst (PInt 1))]) =
  Ok ({| locals := loc; fields := flds |}, PBool (1 <? length oc)%nat).
Proof.
  intros Hn. cbn [PyMini.eval read locals bind]. rewrite Hn.
  cbn [bind PyMini.eval compare1 PInt is_null orb rank Z.eqb negb]. rewrite val_le_int.
  destruct (Z.leb_spec (Z.of_nat (length oc)) 1), (Nat.ltb_spec 1 (length oc)); try reflexivity; lia.
Qed.

Definition other_row_expr : expr :=
  XPrim "builtins.tuple" [XListComp (XIndex (XName "row") (XName "i")) "i" (XName "othercols") None].
Definition wide (r : row) : Prop := forall i, In i oc -> (i < length r)%nat.

Lemma other_row_eval : forall loc flds (r : row), wide r ->
  lookup "row" loc = Some (row_pv r) -> lookup "othercols" loc = Some (PList (map idx_pv oc)) ->
  PyMini.eval call_ref prim {| locals := loc; fields := flds |} other_row_expr =
  Ok ({| locals := loc; fields := flds |}, PTuple (map PV (other oc r))).
Proof.
  intros loc flds r Hw Hr Hoc. unfold other_row_expr.
  rewrite (other_eval loc flds "row" (map PV r) eq_refl Hr Hoc) by (intros i Hi; rewrite map_length; apply Hw; exact Hi).
  unfold other. rewrite map_map. do 3 f_equal. apply map_ext. intros i. unfold cell.
  exact (map_nth PV r VNull i).
Qed.

(* opaque callable 3 is execute_select: on the inner query it returns the un-pivoted columns and rows *)
Hypothesis Hsel : call_ref 3 [subq] = PTuple [PTuple colobjs; PList (map row_pv rows)].

Ltac asg lem :=
  rewrite exec_block_cons; erewrite exec_assign by (apply lem; try reflexivity; try assumption);
  cbn [bind write locals fields update String.eqb Ascii.eqb Bool.eqb].

(* PIVOT BY: the whole branch of execute_query = Model/Pivot.v's pivot (header entries as Column objects, rows) *)
Theorem execute_query_pivot_src :
  call_fun call_ref prim exec_execute_query [qobj] =
  Ok (PTuple [PTuple (map hdr_pv (fst (pivot ncols c1 c2 rows))); PList (map row_pv (snd (pivot ncols c1 c2 rows)))]).
Proof.
  unfold call_fun, exec_execute_query. cbn [f_params f_body f_gen bind_params].
  set (s0 := {| locals := [("query", qobj)]; fields := [] |}).
  (* if isinstance(query, EvalQuery): no *)
  assert (Eq1 : PyMini.eval call_ref prim s0 (XPrim "isinstance:beanquery.query_compile.EvalQuery" [XName "query"]) =
                Ok (s0, PBool false)) by reflexivity.
  assert (Eq2 : PyMini.eval call_ref prim s0 (XPrim "isinstance:beanquery.query_compile.EvalPivot" [XName "query"]) =
                Ok (s0, PBool true)) by reflexivity.
  rewrite exec_block_cons.
  rewrite (exec_if call_ref prim _ _ _ s0 s0 (PBool false) false Eq1 eq_refl).
  cbn [exec_block bind].
  (* if isinstance(query, EvalPivot): yes *)
  rewrite (exec_if call_ref prim _ _ _ s0 s0 (PBool true) true Eq2 eq_refl).
  (* columns, rows = execute_select(query.query); col1, col2 = query.pivots *)
  rewrite exec_block_cons. unfold s0.
  repeat (progress (cbn [PyMini.exec PyMini.eval bind read write locals fields lookup update String.eqb Ascii.eqb
                         Bool.eqb do_call app String.append pivot_obj qobj];
                    rewrite ?prim_attr_query_raw, ?prim_attr_pivots_raw, ?prim_qobj_query, ?prim_qobj_pivots, ?Hsel)).
  rewrite exec_block_cons.
  repeat (progress (cbn [PyMini.exec PyMini.eval bind read write locals fields lookup update String.eqb Ascii.eqb
                         Bool.eqb do_call app String.append pivot_obj qobj];
                    rewrite ?prim_attr_query_raw, ?prim_attr_pivots_raw, ?prim_qobj_query, ?prim_qobj_pivots, ?Hsel)).
  asg othercols_eval.
  (* nother = len(othercols); other = lambda (inlined at its calls) *)
  rewrite exec_block_cons.
  cbn [PyMini.exec PyMini.eval bind read write locals fields lookup update String.eqb Ascii.eqb Bool.eqb].
  rewrite map_length.
  rewrite exec_block_cons. cbn [PyMini.exec bind].
  fold keyset_expr. asg keys_eval.
  (* names *)
  rewrite exec_block_cons. fold first_expr. fold other_columns_expr.
  erewrite exec_if by (try apply nother_cmp_eval; reflexivity).
  assert (Hrest : forall loc,
    lookup "columns" loc = Some (PTuple colobjs) -> lookup "rows" loc = Some (PList (map row_pv rows)) ->
    lookup "col1" loc = Some (idx_pv c1) -> lookup "col2" loc = Some (idx_pv c2) ->
    lookup "othercols" loc = Some (PList (map idx_pv oc)) -> lookup "nother" loc = Some (PInt (Z.of_nat (length oc))) ->
    lookup "keys" loc = Some (PList (map PV keys)) -> lookup "names" loc = Some (PList names_list) ->
    exists s', exec_block call_ref prim {| locals := loc; fields := [] |}
      (skipn 7 (match nth 1 (f_body exec_execute_query) SPass with SIf _ a _ => a | _ => [] end)) =
      Ok (Ret s' (PTuple [PTuple (map hdr_pv (fst (pivot ncols c1 c2 rows)));
                          PList (map row_pv (snd (pivot ncols c1 c2 rows)))]))).
  { intros loc Hcols Hrows H1 H2 Hoc Hn Hkeys Hnames.
    cbn [exec_execute_query f_body nth skipn]. fold other_columns_expr.
    asg dtypes_eval.
    rewrite exec_block_cons.
    erewrite exec_assign
      by (apply columns_eval; [rewrite lookup_update_neq by reflexivity; exact Hnames|apply lookup_update_eq]).
    cbn [bind write locals fields].
    set (cols := map hdr_pv (pivot_header keys oc)).
    match goal with |- context [exec_block _ _ {| locals := ?L; fields := ?F |} _] =>
      destruct (fill_block call_ref Hnig keys oc c2 other_row_expr "othercols" (PList (map idx_pv oc)) wide
                  eq_refl eq_refl eq_refl eq_refl eq_refl eq_refl eq_refl other_row_eval cols c1 rows L F) as [s' E]
    end.
    - apply Forall_forall. intros r Hr. rewrite Forall_forall in Hwidth. rewrite (Hwidth r Hr). exact Hc1.
    - apply Forall_forall. intros r Hr. rewrite Forall_forall in Hwidth. split; [split|].
      + rewrite (Hwidth r Hr). exact Hc2.
      + apply pivot_keys_complete. exact Hr.
      + intros i Hi. rewrite (Hwidth r Hr). apply oc_lt. exact Hi.
    - rewrite !lookup_update_neq by reflexivity. exact Hrows.
    - rewrite !lookup_update_neq by reflexivity. exact H1.
    - apply lookup_update_eq.
    - unfold fixed. rewrite !lookup_update_neq by reflexivity. repeat split; assumption.
    - exists s'. unfold fill_stmts, outer_body, inner_body, other_row_expr in E. rewrite E.
      unfold pivot. cbn [fst snd]. unfold made, cols. rewrite map_length. reflexivity. }
  destruct (1 <? length oc)%nat eqn:Hlt.
  - cbn [truthy]. asg it_eval. asg names_true_eval.
    match goal with |- context [exec_block _ _ {| locals := ?L; fields := _ |} _] =>
      destruct (Hrest L) as [s' E]; try reflexivity end.
    cbn [exec_execute_query f_body nth skipn] in E. unfold other_columns_expr, first_expr, keyset_expr in *.
    rewrite exec_block_nil. cbn [bind]. rewrite E. reflexivity.
  - cbn [truthy]. asg names_false_eval.
    match goal with |- context [exec_block _ _ {| locals := ?L; fields := _ |} _] =>
      destruct (Hrest L) as [s' E]; try reflexivity end.
    cbn [exec_execute_query f_body nth skipn] in E. unfold other_columns_expr, first_expr, keyset_expr in *.
    rewrite exec_block_nil. cbn [bind]. rewrite E. reflexivity.
Qed.
End Whole.

(* ------------------------------------------------------------------ the dispatch of execute_query *)
Section Dispatch.
Variable call_ref : nat -> list pv -> pv.
Notation prim := (prims_exec call_ref exec_nig_single exec_nig_multi 1).

(* a compiled SELECT (EvalQuery): execute_select(query), whatever it returns or raises *)
Theorem execute_query_select_src : forall tbl d l,
  call_fun call_ref prim exec_execute_query [query_obj tbl d l] = do_call call_ref (PRef 3) [query_obj tbl d l].
Proof.
  intros tbl d l. unfold call_fun, exec_execute_query. cbn [f_params f_body f_gen bind_params].
  set (s0 := {| locals := [("query", query_obj tbl d l)]; fields := [] |}).
  assert (Eq1 : PyMini.eval call_ref prim s0 (XPrim "isinstance:beanquery.query_compile.EvalQuery" [XName "query"]) =
                Ok (s0, PBool true)) by reflexivity.
  rewrite exec_block_cons.
  rewrite (exec_if call_ref prim _ _ _ s0 s0 (PBool true) true Eq1 eq_refl).
  rewrite exec_block_cons. unfold s0.
  cbn [PyMini.exec PyMini.eval bind read locals fields lookup String.eqb Ascii.eqb Bool.eqb].
  destruct (do_call call_ref (PRef 3) [query_obj tbl d l]); reflexivity.
Qed.

(* anything else (here: any scalar): RuntimeError *)
Theorem execute_query_other_src : forall v : value,
  call_fun call_ref prim exec_execute_query [PV v] = Exc RuntimeError.
Proof. intros v. reflexivity. Qed.
End Dispatch.
