From Coq Require Import ZArith List Bool Lia Permutation.
Import ListNotations.
From Verif Require Import Base.StableSort Base.PyValue Proofs.PyValueProofs Model.Eval Model.Order Model.Exec
     Model.Subquery Proofs.OrderProofs Proofs.EvalProofs.
Open Scope nat_scope.

(* ---- result shape: every result row has exactly one value per visible target ---- *)
Lemma uniquify_acc_subset seen l : forall x, In x (uniquify_acc seen l) -> In x l.
Proof. intros x. apply uniquify_acc_in. Qed.

Lemma in_firstn' {A} k (l : list A) x : In x (firstn k l) -> In x l.
Proof. intros H. rewrite <- (firstn_skipn k l). apply in_or_app. now left. Qed.

Theorem post_width spec vis distinct lim rows :
  Forall (fun r => length r = length vis) (post spec vis distinct lim rows).
Proof.
  unfold post. apply Forall_forall. intros r Hr.
  assert (Hin : In r (map (project vis) (match spec with None => rows | Some s => order_rows s rows end))).
  { destruct lim as [n|]; simpl in Hr.
    - apply in_firstn' in Hr. destruct distinct; [now apply uniquify_acc_in in Hr|exact Hr].
    - destruct distinct; [now apply uniquify_acc_in in Hr|exact Hr]. }
  apply in_map_iff in Hin as (r0 & <- & _). unfold project. now rewrite map_length.
Qed.

Theorem exec_width q t : Forall (fun r => length r = length (q_vis q)) (exec q t).
Proof. apply post_width. Qed.

(* ---- SELECT * FROM (q) returns q's rows unchanged ---- *)
Lemma map_cell_seq (r : row) : map (fun i => cell i r) (seq 0 (length r)) = r.
Proof.
  assert (G : forall pre, map (fun i => cell i (pre ++ r)) (seq (length pre) (length r)) = r).
  { induction r as [|x t IH]; intros pre; [reflexivity|]. simpl. f_equal.
    - unfold cell. rewrite app_nth2 by lia. now rewrite Nat.sub_diag.
    - specialize (IH (pre ++ [x])). rewrite <- app_assoc, app_length in IH. simpl in IH.
      replace (length pre + 1) with (S (length pre)) in IH by lia. exact IH. }
  exact (G []).
Qed.

Lemma eval_cols r n : map (eval r []) (map ECol (seq 0 n)) = map (fun i => cell i r) (seq 0 n).
Proof. rewrite map_map. reflexivity. Qed.

Lemma cell_of_cells r n i : i < n -> cell i (map (fun j => cell j r) (seq 0 n)) = cell i r.
Proof.
  intros H. unfold cell at 1.
  rewrite (nth_indep _ VNull ((fun j => cell j r) 0)) by (rewrite map_length, seq_length; exact H).
  rewrite (map_nth (fun j => cell j r) (seq 0 n) 0 i). rewrite seq_nth by lia. reflexivity.
Qed.

Lemma star_row r : project (seq 0 (length r)) (map (eval r []) (map ECol (seq 0 (length r)))) = r.
Proof.
  unfold project. rewrite eval_cols. etransitivity; [|apply (map_cell_seq r)].
  apply map_ext_in. intros i Hi. apply in_seq in Hi. apply cell_of_cells. lia.
Qed.

Theorem star_identity n rows : Forall (fun r => length r = n) rows -> exec (star n) rows = rows.
Proof.
  intros W. unfold exec, exec_rows, star. cbn [q_group q_order q_vis q_distinct q_limit]. rewrite scan_nonagg_spec.
  unfold post, limit, Exec.passes. cbn [q_where q_targets].
  induction W as [|r t Hr Ht IH]; [reflexivity|]. cbn [filter map]. rewrite IH. f_equal.
  subst n. apply star_row.
Qed.

Corollary star_over_subquery q s : rows_of (SSub (star (length (q_vis q))) (SSub q s)) = rows_of (SSub q s).
Proof. simpl. apply star_identity, exec_width. Qed.

(* ---- nesting: a query over a subquery is the query over the materialised rows, at any depth ---- *)
Theorem from_materialised q s : rows_of (SSub q s) = exec q (rows_of s).
Proof. reflexivity. Qed.

Theorem nested_materialised qs s :
  rows_of (fold_right SSub s qs) = fold_right exec (rows_of s) qs.
Proof. induction qs as [|q t IH]; [reflexivity|]. simpl. now rewrite IH. Qed.

(* ---- IN (subquery) ---- *)
Theorem in_subquery_spec r st n a rows :
  eval r st (EIn n a (items_of rows)) =
  if is_null (eval r st a) then VNull
  else match rows with
       | [] => VNull
       | _ => VBool (xorb n (existsb (val_eq (eval r st a)) (map (cell 0) rows)))
       end.
Proof. simpl. destruct (is_null (eval r st a)); [reflexivity|]. destruct rows; reflexivity. Qed.
