(* Lemmas for the ledger groups of the translator-based tie: the object primitives of Model/PrimsLedger.v computed
   on [obj cls flds] (attribute read = lookup, functional attribute write = update), and the yield statement of a
   generator function in terms of the list collected so far. *)
From Coq Require Import String Ascii ZArith List Bool Lia.
Import ListNotations.
From Verif Require Import Base.PyValue Model.Eval Model.Dates Model.Ledger Model.PyMini Model.PrimsLedger
  Proofs.PyMiniLemmas.
Open Scope string_scope.

(* ------------------------------------------------------------------ names as code points *)
Lemma ascii_code_eqb a b : (Z.of_N (N_of_ascii a) =? Z.of_N (N_of_ascii b))%Z = Ascii.eqb a b.
Proof.
  destruct (Ascii.eqb_spec a b) as [->|N]; [apply Z.eqb_refl|].
  apply Z.eqb_neq. intros H. apply N2Z.inj in H. apply (f_equal ascii_of_N) in H.
  rewrite !ascii_N_embedding in H. contradiction.
Qed.

Lemma str_eqb_s2z : forall a b, str_eqb (s2z a) (s2z b) = String.eqb a b.
Proof.
  induction a as [|x a IH]; destruct b as [|y b]; cbn; try reflexivity.
  rewrite ascii_code_eqb, IH. reflexivity.
Qed.

Lemma str_eqb_refl : forall s, str_eqb s s = true.
Proof. induction s as [|x s IH]; cbn; [reflexivity|]. now rewrite Z.eqb_refl, IH. Qed.

Lemma strip_prefix_app : forall p a, strip_prefix p (p ++ a) = Some a.
Proof. induction p as [|c p IH]; intros a; cbn; [reflexivity|]. now rewrite Ascii.eqb_refl. Qed.

(* ------------------------------------------------------------------ objects *)
Lemma kv_get_enc : forall a flds, kv_get (s2z a) (enc_flds flds) = lookup a flds.
Proof.
  intros a. induction flds as [|[y w] t IH]; cbn; [reflexivity|].
  rewrite str_eqb_s2z, String.eqb_sym. destruct (String.eqb a y); [reflexivity|exact IH].
Qed.

Lemma kv_set_enc : forall a v flds, kv_set (s2z a) v (enc_flds flds) = enc_flds (update a v flds).
Proof.
  intros a v. induction flds as [|[y w] t IH]; cbn; [reflexivity|].
  rewrite str_eqb_s2z, String.eqb_sym. destruct (String.eqb a y); cbn; [reflexivity|].
  unfold enc_flds in IH. now rewrite IH.
Qed.

Section P.
Variable refs : list (nat * string).
Variable ext : string -> list pv -> res pv.
Notation prims := (prims_ledger refs ext).

Lemma prim_attr_obj a cls flds :
  prims ("attr:" ++ a) [obj cls flds] = match lookup a flds with Some v => Ok v | None => Exc AttributeError end.
Proof.
  unfold prims_ledger. rewrite (strip_prefix_app "attr:" a). unfold obj, pstr. rewrite kv_get_enc. reflexivity.
Qed.

Lemma prim_setattr_obj a cls flds v :
  prims ("setattr:" ++ a) [obj cls flds; v] = Ok (obj cls (update a v flds)).
Proof.
  unfold prims_ledger.
  change (strip_prefix "attr:" ("setattr:" ++ a)) with (@None string).
  rewrite (strip_prefix_app "setattr:" a). unfold obj, pstr. rewrite kv_set_enc. reflexivity.
Qed.
End P.

(* ------------------------------------------------------------------ generators *)
(* what a generator function has yielded so far *)
Definition ylist (loc : env) : option (list pv) :=
  match lookup yield_var loc with
  | None => Some []
  | Some (PList a) => Some a
  | Some _ => None
  end.

Section Y.
Variable call_ref : nat -> list pv -> pv.
Variable prim : string -> list pv -> res pv.

Lemma exec_yield e s s1 v acc :
  eval call_ref prim s e = Ok (s1, v) -> ylist (locals s1) = Some acc ->
  exec call_ref prim s (SYield e) = Ok (Next (write s1 (TName yield_var) (PList (acc ++ [v])))).
Proof.
  intros H Y. cbn [exec]. rewrite H. cbn [bind]. unfold ylist in Y.
  destruct (lookup yield_var (locals s1)) as [[ | a| | |]|]; try discriminate; injection Y as <-; reflexivity.
Qed.

(* statement-by-statement symbolic execution: the value of the right-hand side first, then the statement *)
Lemma exec_assign t e s s1 v :
  eval call_ref prim s e = Ok (s1, v) -> exec call_ref prim s (SAssign t e) = Ok (Next (write s1 t v)).
Proof. intros H. cbn [exec]. rewrite H. reflexivity. Qed.

Lemma exec_sexpr e s s1 v :
  eval call_ref prim s e = Ok (s1, v) -> exec call_ref prim s (SExpr e) = Ok (Next s1).
Proof. intros H. cbn [exec]. rewrite H. reflexivity. Qed.

Lemma exec_return e s s1 v :
  eval call_ref prim s e = Ok (s1, v) -> exec call_ref prim s (SReturn (Some e)) = Ok (Ret s1 v).
Proof. intros H. cbn [exec]. rewrite H. reflexivity. Qed.

Lemma exec_block_next c t s s1 :
  exec call_ref prim s c = Ok (Next s1) -> exec_block call_ref prim s (c :: t) = exec_block call_ref prim s1 t.
Proof. intros H. cbn [exec_block]. rewrite H. reflexivity. Qed.

Lemma exec_block_ret c t s s1 v :
  exec call_ref prim s c = Ok (Ret s1 v) -> exec_block call_ref prim s (c :: t) = Ok (Ret s1 v).
Proof. intros H. cbn [exec_block]. rewrite H. reflexivity. Qed.

Lemma exec_block_exc c t s k :
  exec call_ref prim s c = Exc k -> exec_block call_ref prim s (c :: t) = Exc k.
Proof. intros H. cbn [exec_block]. rewrite H. reflexivity. Qed.

Lemma ylist_update_yield loc l : ylist (update yield_var (PList l) loc) = Some l.
Proof. unfold ylist. now rewrite lookup_update_eq. Qed.

Lemma ylist_update_other x v loc : String.eqb yield_var x = false -> ylist (update x v loc) = ylist loc.
Proof. intros N. unfold ylist. now rewrite lookup_update_neq. Qed.
End Y.
