(* Tie by translation (C14):
   - the selection loop of query_execute.execute_print (from `entries = []` to the end of `for row in c_print.table:`,
     selected by structure; the translator also checks that exactly `entries` is handed to printer.print_entries)
     computes Model/Statements.v's [execute_print]: the entries of the rows whose FROM expression is truthy (every row
     without one), in table order; an exception raised by the expression propagates;
   - the `return ast.Select(...)` tails of compiler.transform_balances / transform_journal build, from the statement
     node and the parsed template (cooked_select), the Select the model's transform_balances / transform_journal build:
     which clause goes where, WHERE of JOURNAL = Match(Column account, Constant pattern) for a non-empty account.
   c_print / balances / journal are the receivers: their attributes are the fields.  The compiled FROM expression is
   an opaque callable (hypothesis: applied to a row it returns the model's value, an error value being raised). *)
From Coq Require Import String ZArith List Bool Lia.
Import ListNotations.
From Verif Require Import Base.PyValue Model.Eval Model.PyMini Model.PrimsLedger Gen.SrcLedgerPrint
  Proofs.PyMiniLemmas Proofs.PyMiniLemmasLedger.
From Verif Require Model.Statements.
Open Scope string_scope.
Open Scope list_scope.
Open Scope Z_scope.

Local Arguments prims_ledger : simpl never.

Lemma ast_decls_tie : SrcLedgerPrint.ast_decls = PrimsLedger.ast_decls.
Proof. reflexivity. Qed.

Definition print_body : list stmt :=
  Eval cbv beta iota delta [f_body src_print_selection] in
  match f_body src_print_selection with [_; _; SFor _ _ b; _] => b | _ => [] end.

Ltac env_tac :=
  repeat (rewrite ?lookup_update_eq; rewrite ?lookup_update_neq by reflexivity);
  repeat match goal with H : lookup ?x ?l = Some _ |- context [lookup ?x ?l] => rewrite H end.

Section Print.
Variable call_ref : nat -> list pv -> pv.
Variable ext : string -> list pv -> res pv.
Notation prims := (prims_ledger SrcLedgerPrint.refs ext).
Variable E : Type.
Variable enc : E -> pv.

(* a row of the table: an object whose `entry` attribute is the entry *)
Definition prow (e : E) : pv := obj ROW [("entry", enc e)].

Lemma attr_entry e : prims ("attr:" ++ "entry") [prow e] = Ok (enc e).
Proof. exact (prim_attr_obj _ ext "entry" ROW _). Qed.

(* c_print.where: None, or an opaque callable computing the model's expression value on a row *)
Definition where_ok (w : option (E -> value)) (wv : pv) : Prop :=
  match w with
  | None => wv = PNone
  | Some f => exists k, wv = PRef k /\ forall e, call_ref k [prow e] = PV (f e)
  end.

Lemma truthy_agree v : Eval.truthy v = Statements.truthy v.
Proof. destruct v; reflexivity. Qed.

Definition print_cond : expr :=
  Eval cbv beta iota delta [print_body] in match print_body with [SIf c _ _] => c | _ => XConst PNone end.
Definition print_then : list stmt :=
  Eval cbv beta iota delta [print_body] in match print_body with [SIf _ a _] => a | _ => [] end.

Local Arguments prow : simpl never.

(* `expr is None or expr(row)`: True without an expression, else the value of the expression (raised if an error) *)
Lemma cond_src w wv e loc flds : where_ok w wv -> lookup "expr" loc = Some wv ->
  let s := {| locals := update "row" (prow e) loc; fields := flds |} in
  PyMini.eval call_ref prims s print_cond =
  match w with
  | None => Ok (s, PBool true)
  | Some f => match f e with VErr k => Exc k | v => Ok (s, PV v) end
  end.
Proof.
  intros Hw Hx s. unfold s, print_cond. destruct w as [f|]; cbn [where_ok] in Hw.
  - destruct Hw as [k [-> Hk]].
    repeat (cbn; env_tac). rewrite Hk. destruct (f e); reflexivity.
  - subst wv. repeat (cbn; env_tac). reflexivity.
Qed.

Lemma then_src e loc flds acc : lookup "entries" loc = Some (PList acc) ->
  exec_block call_ref prims {| locals := update "row" (prow e) loc; fields := flds |} print_then =
  Ok (Next {| locals := update "entries" (PList (acc ++ [enc e])) (update "row" (prow e) loc); fields := flds |}).
Proof.
  intros He. unfold print_then. erewrite exec_block_next; [reflexivity|].
  eapply exec_sexpr.
  cbn [PyMini.eval read write bind locals fields]. env_tac.
  unfold prow at 1, obj at 1. cbn [bind].
  rewrite (prim_attr_obj _ ext "entry" ROW [("entry", enc e)]).
  cbn [lookup String.eqb Ascii.eqb Bool.eqb bind read write locals fields]. env_tac.
  cbn [method_call String.eqb Ascii.eqb Bool.eqb bind write locals fields]. reflexivity.
Qed.

(* one row: what the model's [keep] decides *)
Lemma print_step w wv e loc flds acc :
  where_ok w wv -> lookup "expr" loc = Some wv -> lookup "entries" loc = Some (PList acc) ->
  exec_block call_ref prims {| locals := update "row" (prow e) loc; fields := flds |} print_body =
  match (match w with
         | None => inl true
         | Some f => match f e with VErr k => inr k | v => inl (Statements.truthy v) end
         end : bool + Z) with
  | inr k => Exc k
  | inl true => Ok (Next {| locals := update "entries" (PList (acc ++ [enc e])) (update "row" (prow e) loc);
                            fields := flds |})
  | inl false => Ok (Next {| locals := update "row" (prow e) loc; fields := flds |})
  end.
Proof.
  intros Hw Hx He. pose proof (cond_src w wv e loc flds Hw Hx) as Hc. cbn zeta in Hc.
  unfold print_body. fold print_cond. fold print_then.
  assert (Hkeep : forall v, pv_truthy (PV v) = Ok true ->
            PyMini.eval call_ref prims {| locals := update "row" (prow e) loc; fields := flds |} print_cond =
            Ok ({| locals := update "row" (prow e) loc; fields := flds |}, PV v) ->
            exec_block call_ref prims {| locals := update "row" (prow e) loc; fields := flds |}
                       [SIf print_cond print_then []] =
            Ok (Next {| locals := update "entries" (PList (acc ++ [enc e])) (update "row" (prow e) loc);
                        fields := flds |})).
  { intros v Pv Ev. erewrite exec_block_next; [reflexivity|].
    erewrite exec_if by (first [exact Ev | exact Pv]). apply then_src. exact He. }
  assert (Hskip : forall v, pv_truthy (PV v) = Ok false ->
            PyMini.eval call_ref prims {| locals := update "row" (prow e) loc; fields := flds |} print_cond =
            Ok ({| locals := update "row" (prow e) loc; fields := flds |}, PV v) ->
            exec_block call_ref prims {| locals := update "row" (prow e) loc; fields := flds |}
                       [SIf print_cond print_then []] =
            Ok (Next {| locals := update "row" (prow e) loc; fields := flds |})).
  { intros v Pv Ev. erewrite exec_block_next; [reflexivity|].
    erewrite exec_if by (first [exact Ev | exact Pv]). reflexivity. }
  destruct w as [f|].
  - destruct (f e) as [ |b|z|d|s|o|k] eqn:Ef; cbn [Statements.truthy].
    + exact (Hskip VNull eq_refl Hc).
    + destruct b; [exact (Hkeep (VBool true) eq_refl Hc)|exact (Hskip (VBool false) eq_refl Hc)].
    + destruct (z =? 0) eqn:Z0; cbn [negb].
      * apply (Hskip (VInt z)); [cbn; now rewrite Z0|exact Hc].
      * apply (Hkeep (VInt z)); [cbn; now rewrite Z0|exact Hc].
    + destruct (dcoef d =? 0) eqn:Z0; cbn [negb].
      * apply (Hskip (VDec d)); [cbn; now rewrite Z0|exact Hc].
      * apply (Hkeep (VDec d)); [cbn; now rewrite Z0|exact Hc].
    + destruct s as [|c r]; [exact (Hskip (VStr []) eq_refl Hc)|exact (Hkeep (VStr (c :: r)) eq_refl Hc)].
    + exact (Hkeep (VDate o) eq_refl Hc).
    + apply exec_block_exc. cbn [PyMini.exec]. rewrite Hc. reflexivity.
  - exact (Hkeep (VBool true) eq_refl Hc).
Qed.

Lemma print_loop_src : forall w wv, where_ok w wv -> forall es loc flds acc,
  lookup "expr" loc = Some wv -> lookup "entries" loc = Some (PList acc) ->
  match Statements.execute_print w es with
  | Statements.POk l =>
      exists loc',
        for_loop call_ref prims print_body "row" {| locals := loc; fields := flds |} (map prow es) =
        Ok (Next {| locals := loc'; fields := flds |}) /\
        lookup "entries" loc' = Some (PList (acc ++ map enc l))
  | Statements.PRaise k =>
      for_loop call_ref prims print_body "row" {| locals := loc; fields := flds |} (map prow es) = Exc k
  end.
Proof.
  intros w wv Hw. induction es as [|e es IH]; intros loc flds acc Hx He.
  - cbn. exists loc. split; [reflexivity|]. now rewrite app_nil_r.
  - cbn [map for_loop Statements.execute_print write locals fields].
    rewrite (print_step w wv e loc flds acc Hw Hx He).
    pose proof (IH (update "entries" (PList (acc ++ [enc e])) (update "row" (prow e) loc)) flds (acc ++ [enc e])
                   ltac:(env_tac; reflexivity) ltac:(env_tac; reflexivity)) as IHk.
    pose proof (IH (update "row" (prow e) loc) flds acc ltac:(env_tac; reflexivity) ltac:(env_tac; reflexivity)) as IHs.
    clear IH.
    destruct (match w with
              | None => inl true
              | Some f => match f e with VErr k => inr k | v => inl (Statements.truthy v) end
              end : bool + Z) as [[|]|k]; cbn [bind].
    + destruct (Statements.execute_print w es) as [l|k].
      * destruct IHk as [loc' [E1 E2]]. exists loc'. split; [exact E1|]. rewrite E2. cbn [map]. now rewrite <- app_assoc.
      * exact IHk.
    + destruct (Statements.execute_print w es) as [l|k]; exact IHs.
    + reflexivity.
Qed.

Theorem print_selection_src : forall w wv es,
  where_ok w wv ->
  let flds := [("where", wv); ("table", PList (map prow es))] in
  call_method call_ref prims src_print_selection flds [] =
  match Statements.execute_print w es with
  | Statements.POk l => Ok (flds, PList (map enc l))
  | Statements.PRaise k => Exc k
  end.
Proof.
  intros w wv es Hw flds. unfold call_method, src_print_selection. cbn [f_params f_body f_gen bind_params].
  erewrite exec_block_next by (eapply exec_assign; reflexivity).
  erewrite exec_block_next by (eapply exec_assign; reflexivity).
  cbn [PyMini.exec_block].
  erewrite exec_for by reflexivity. fold print_body.
  cbn [write locals fields update String.eqb Ascii.eqb Bool.eqb].
  match goal with |- context [for_loop _ _ _ _ {| locals := ?L; fields := _ |}] =>
    pose proof (print_loop_src w wv Hw es L flds [] eq_refl eq_refl) as H end.
  destruct (Statements.execute_print w es) as [l|k].
  - destruct H as [loc' [E1 E2]]. rewrite E1. cbn [bind PyMini.exec_block PyMini.exec PyMini.eval read locals fields].
    rewrite E2. reflexivity.
  - rewrite H. reflexivity.
Qed.
End Print.

(* ---------------------------------------------------------------- BALANCES / JOURNAL -> SELECT *)
Section Transform.
Import Verif.Model.Statements.
Variable call_ref : nat -> list pv -> pv.
Variable ext : string -> list pv -> res pv.
Notation prims := (prims_ledger SrcLedgerPrint.refs ext).

Theorem transform_balances_src : forall (b : balances) (cooked : select),
  call_method call_ref prims src_transform_balances (Stm.balances_fields b) [Stm.enc_select cooked] =
  Ok (Stm.balances_fields b,
      Stm.enc_select (mkSelect (s_targets cooked) (b_from b) (b_where b) (s_group_by cooked) (s_order_by cooked)
                               None None false)).
Proof. intros b cooked. reflexivity. Qed.

Theorem transform_journal_src : forall (j : journal) (cooked : select),
  call_method call_ref prims src_transform_journal (Stm.journal_fields j) [Stm.enc_select cooked] =
  Ok (Stm.journal_fields j,
      Stm.enc_select (mkSelect (s_targets cooked) (j_from j)
                               (if nonempty (j_account j) then Some (account_match (or_empty (j_account j))) else None)
                               None None None None false)).
Proof. intros [[[|c r]|] sf fr] cooked; reflexivity. Qed.
End Transform.
