(* Tie by translation, C09: the PyMini terms generated on every run from the CURRENT source of
   Compiler.compile (the placeholder validation in front of the compilation proper), Compiler._placeholder,
   compiler.compile and the Connection wrappers (Gen/SrcParams.v) compute what Model/Params.v says:
   [Params.bind false] - which parameter sets are rejected with which error, and which value every placeholder is
   bound to - and the history model's premise that a Connection keeps nothing between two executions. *)
From Coq Require Import String Ascii ZArith List Bool Lia Permutation.
Import ListNotations.
From Verif Require Import Base.StableSort Base.PyValue Model.Eval Model.PyMini Model.PrimsApi Proofs.PyMiniLemmas
  Proofs.SrcApi.
From Verif Require Model.Params.
From Verif Require Import Gen.SrcParams.
Open Scope string_scope.
Open Scope list_scope.
Open Scope Z_scope.

Notation ph := Params.ph.
Notation ph_pos := Params.ph_pos.
Notation ph_name := Params.ph_name.

(* ---------------------------------------------------------------- encodings *)
Definition ph_tag : list Z := zs "beanquery.parser.ast.Placeholder".
Definition info_tag : list Z := zs "tatsu.infos.ParseInfo".
Definition query_tag : list Z := zs "beanquery.parser.ast.Select".

Definition enc_name (n : Params.pname) : pv :=
  match n with
  | Params.PEmpty => PV (VStr [])
  | Params.PNamed s => PV (VStr s)
  | Params.PNum i => PInt (Z.of_nat i)
  end.
(* the code under test never writes a number into a placeholder's name (that was the design before the repair) *)
Definition plain_name (n : Params.pname) : bool := match n with Params.PNum _ => false | _ => true end.

Definition enc_ph (q : ph) : pv :=
  record ph_tag [("name", enc_name (ph_name q)); ("parseinfo", record info_tag [("pos", PInt (ph_pos q))])].

(* the nodes query.walk() yields: placeholders and nodes of other classes *)
Inductive node := NPh (q : ph) | NOther (tag : list Z).
Definition enc_node (n : node) : pv := match n with NPh q => enc_ph q | NOther tag => record tag [] end.
Definition other_ok (n : node) : Prop := match n with NOther tag => zeqb tag ph_tag = false | NPh _ => True end.
Definition phs_of (w : list node) : list ph := flat_map (fun n => match n with NPh q => [q] | NOther _ => [] end) w.
Definition enc_query (w : list node) : pv := record query_tag [("$walk", PList (map enc_node w))].

Definition enc_params (p : Params.params) : pv :=
  match p with
  | Params.PNone => PNone
  | Params.PSeq l => PList (map PV l)
  | Params.PMap m => pdict (rev (map (fun kv => (PV (VStr (fst kv)), PV (snd kv))) m))
  end.

Definition err_code (e : Params.perr) : Z :=
  match e with
  | Params.ETypeError => TypeError
  | Params.EMissing => MissingParameter
  | Params.ECount => ParameterCount
  | Params.EMixed => MixedParameters
  end.

(* the dict Compiler.compile leaves in self.positional: source position (the node's identity) -> number *)
Fixpoint pos_items (i : Z) (l : list ph) : list pv :=
  match l with
  | [] => []
  | q :: t => PTuple [PInt (ph_pos q); PInt i] :: pos_items (i + 1) t
  end.
Definition positional_dict (phs : list ph) : pv :=
  PTuple [PStr dict_tag; PList (pos_items 0 (isort Params.by_pos phs))].

Definition params_lib : strlib :=
  {| sl_strip := fun s => s; sl_lower := fun s => s; sl_parseline := fun _ => None; sl_getattr := fun _ => None;
     sl_ext := no_ext |}.

(* ---------------------------------------------------------------- the comprehensions of Compiler.compile *)
Definition lc_placeholders : expr :=
  XListComp (XName "node") "node" (XCallMethod (XName "query") "walk" [])
    (Some (XPrim "isinstance:beanquery.parser.ast.Placeholder" [XName "node"])).
Definition lc_names : expr :=
  XListComp (XAttr (XName "placeholder") "name") "placeholder" (XName "placeholders") None.
Definition lc_keys : expr :=
  XListComp (XAttr (XAttr (XName "node") "parseinfo") "pos") "node" (XName "placeholders") None.
Definition lc_dict : expr :=
  XListComp (XTuple [XPrim "builtins.id" [XIndex (XName "$t") (XConst (PInt 1))]; XIndex (XName "$t") (XConst (PInt 0))])
    "$t" (XPrim "builtins.enumerate" [XPrim "sorted_by" [XName "placeholders"; lc_keys]]) None.

(* ---------------------------------------------------------------- model-side facts about the encodings *)
Lemma truthy_name n : plain_name n = true -> pv_truthy (enc_name n) = Ok (Params.name_truthy n).
Proof. destruct n as [|[|c s]|i]; cbn; try reflexivity; discriminate. Qed.

Definition names_of (phs : list ph) : list Params.pname := map ph_name phs.
Definition enc_names (phs : list ph) : list pv := map (fun q => enc_name (ph_name q)) phs.
Definition plain (phs : list ph) : Prop := forallb plain_name (names_of phs) = true.
Definition tr (v : pv) : bool := match pv_truthy v with Ok b => b | _ => false end.

Lemma plain_in phs : plain phs -> forall x, In x (enc_names phs) -> pv_truthy x = Ok (tr x).
Proof.
  unfold plain, names_of, enc_names. intros H x Hx. apply in_map_iff in Hx as (q & <- & Hq).
  rewrite forallb_forall in H. specialize (H (ph_name q) (in_map _ _ _ Hq)).
  unfold tr. rewrite (truthy_name _ H). reflexivity.
Qed.

Lemma tr_names phs : plain phs ->
  forallb tr (enc_names phs) = forallb Params.name_truthy (names_of phs) /\
  existsb tr (enc_names phs) = existsb Params.name_truthy (names_of phs).
Proof.
  unfold plain, names_of, enc_names. induction phs as [|q t IH]; cbn; [auto|].
  intros H. apply andb_true_iff in H as [H1 H2]. destruct (IH H2) as [E1 E2].
  unfold tr at 1 3. rewrite (truthy_name _ H1). rewrite E1, E2. auto.
Qed.

Lemma all_names phs : plain phs ->
  all_truthy (dedupe [] (enc_names phs)) = Ok (forallb Params.name_truthy (names_of phs)).
Proof.
  intros H. rewrite (all_truthy_forallb tr).
  - rewrite forallb_dedupe by (intros y []). now rewrite (proj1 (tr_names phs H)).
  - intros x Hx. apply (plain_in phs H). eapply dedupe_incl, Hx.
Qed.

Lemma any_names phs : plain phs ->
  any_truthy (dedupe [] (enc_names phs)) = Ok (existsb Params.name_truthy (names_of phs)).
Proof.
  intros H. rewrite (any_truthy_existsb tr).
  - rewrite existsb_dedupe by (intros y []). now rewrite (proj2 (tr_names phs H)).
  - intros x Hx. apply (plain_in phs H). eapply dedupe_incl, Hx.
Qed.

(* named parameters: the keys of the mapping *)
Definition map_items (m : list (list Z * value)) : list pv :=
  map (fun kv => PTuple [fst kv; snd kv]) (rev (map (fun kv : list Z * value => (PV (VStr (fst kv)), PV (snd kv))) m)).
Definition map_keys (m : list (list Z * value)) : list pv :=
  map (fun kv => match kv with PTuple (k :: _) => k | _ => PNone end) (map_items m).
Definition has_key (m : list (list Z * value)) (n : Params.pname) : bool :=
  match n with Params.PNamed s => match Params.lookup s m with Some _ => true | None => false end | _ => false end.

Lemma str_eqb_zeqb a b : Params.str_eqb a b = zeqb a b.
Proof. revert b; induction a as [|x a IH]; intros [|y b]; cbn; try reflexivity; try (now rewrite IH). Qed.

Lemma map_keys_eq m : map_keys m = rev (map (fun kv : list Z * value => PV (VStr (fst kv))) m).
Proof.
  unfold map_keys, map_items. rewrite !map_rev, !map_map. reflexivity.
Qed.

Lemma existsb_rev' {A} (f : A -> bool) l : existsb f (rev l) = existsb f l.
Proof.
  induction l as [|x t IH]; cbn; [reflexivity|]. rewrite existsb_app, IH. cbn. rewrite orb_false_r. apply orb_comm.
Qed.

Lemma key_in_map s m :
  existsb (key_eqb (PV (VStr s))) (map_keys m) = match Params.lookup s m with Some _ => true | None => false end.
Proof.
  rewrite map_keys_eq. rewrite existsb_rev'.
  induction m as [|[k v] t IH]; cbn; [reflexivity|].
  change (Params.str_eqb s k) with (zeqb s k). destruct (zeqb s k); cbn; [reflexivity|exact IH].
Qed.

(* `names - parameters.keys()` is non-empty iff the model finds a name without a value *)
Lemma missing_names phs m : plain phs -> forallb Params.name_truthy (names_of phs) = true ->
  existsb (fun x => negb (existsb (key_eqb x) (map_keys m))) (enc_names phs) =
  negb (forallb (has_key m) (names_of phs)).
Proof.
  unfold plain, names_of, enc_names. induction phs as [|q t IH]; cbn; [reflexivity|].
  intros Hp Ht. apply andb_true_iff in Hp as [Hp1 Hp2]. apply andb_true_iff in Ht as [Ht1 Ht2].
  rewrite (IH Hp2 Ht2). destruct (ph_name q) as [|s|i]; try discriminate.
  cbn [enc_name has_key]. rewrite key_in_map. destruct (Params.lookup s m); reflexivity.
Qed.

(* sorted(placeholders, key=pos) *)
Lemma insert_map {A B} (f : A -> B) (le : A -> A -> bool) (le' : B -> B -> bool) :
  (forall x y, le' (f x) (f y) = le x y) ->
  forall x l, insert le' (f x) (map f l) = map f (insert le x l).
Proof.
  intros H x l. induction l as [|y t IH]; cbn; [reflexivity|].
  rewrite H. destruct (le x y); cbn; [reflexivity|]. now rewrite IH.
Qed.
Lemma isort_map {A B} (f : A -> B) (le : A -> A -> bool) (le' : B -> B -> bool) :
  (forall x y, le' (f x) (f y) = le x y) ->
  forall l, isort le' (map f l) = map f (isort le l).
Proof.
  intros H l. induction l as [|y t IH]; cbn; [reflexivity|].
  rewrite IH. apply insert_map, H.
Qed.

Lemma int_keys_pos phs : int_keys (map (fun q => PInt (ph_pos q)) phs) = Some (map ph_pos phs).
Proof. induction phs as [|q t IH]; cbn; [reflexivity|]. now rewrite IH. Qed.

Lemma sorted_placeholders phs :
  sorted_by (map enc_ph phs) (map (fun q => PInt (ph_pos q)) phs) =
  Ok (PList (map enc_ph (isort Params.by_pos phs))).
Proof.
  unfold sorted_by. rewrite int_keys_pos, !map_length, Nat.eqb_refl.
  replace (combine (map ph_pos phs) (map enc_ph phs)) with (map (fun q => (ph_pos q, enc_ph q)) phs)
    by (induction phs as [|q t IH]; cbn; [reflexivity|now rewrite IH]).
  rewrite (isort_map (fun q => (ph_pos q, enc_ph q)) Params.by_pos) by reflexivity.
  rewrite map_map. reflexivity.
Qed.

(* ---- looking a placeholder up in self.positional, a value in the parameters *)
Lemma assoc_app k l1 l2 :
  assoc k (l1 ++ l2) = match assoc k l1 with Some v => Some v | None => assoc k l2 end.
Proof.
  induction l1 as [|x t IH]; [reflexivity|]. cbn [app assoc].
  destruct x as [| |[|a [|b [|c r]]]| |]; try exact IH. destruct (key_eqb k a); [reflexivity|exact IH].
Qed.

Lemma assoc_pos_none p l : forall i, ~ In p (map ph_pos l) -> assoc (PInt p) (rev (pos_items i l)) = None.
Proof.
  induction l as [|q t IH]; intros i H; [reflexivity|]. cbn [pos_items rev]. rewrite assoc_app.
  cbn in H. rewrite IH by tauto. cbn. destruct (Z.eqb_spec p (ph_pos q)); [subst; tauto|reflexivity].
Qed.

Lemma lookup_pos_items p l : forall i, NoDup (map ph_pos l) -> In p (map ph_pos l) ->
  assoc (PInt p) (rev (pos_items i l)) = Some (PInt (i + Z.of_nat (Params.index_in p l))).
Proof.
  induction l as [|q t IH]; intros i Hn Hi; [destruct Hi|]. cbn [pos_items rev]. rewrite assoc_app.
  cbn [map] in Hn, Hi. inversion Hn as [|? ? Hq Hn']; subst. cbn [Params.index_in].
  destruct (Z.eqb_spec (ph_pos q) p) as [E|N].
  - rewrite E in *. rewrite assoc_pos_none by assumption. cbn. rewrite Z.eqb_refl. do 2 f_equal. lia.
  - destruct Hi as [Hi|Hi]; [congruence|]. rewrite (IH (i + 1) Hn' Hi). do 2 f_equal. lia.
Qed.

Lemma index_in_lt p l : In p (map ph_pos l) -> (Params.index_in p l < length l)%nat.
Proof.
  induction l as [|q t IH]; cbn; [tauto|]. intros H.
  destruct (Z.eqb_spec (ph_pos q) p); [lia|]. destruct H; [congruence|]. apply IH in H. lia.
Qed.

Lemma index_at_nth (l : list value) n : (n < length l)%nat ->
  index_at (map PV l) (Z.of_nat n) = Ok (PV (nth n l VNull)).
Proof.
  intros H. unfold index_at. rewrite map_length.
  destruct (Z.ltb_spec (Z.of_nat n) 0); [lia|].
  destruct (Z.ltb_spec (Z.of_nat n) 0); [lia|]. destruct (Z.leb_spec (Z.of_nat (length l)) (Z.of_nat n)); [lia|].
  cbn [orb]. rewrite Nat2Z.id. rewrite nth_error_map.
  rewrite (nth_error_nth' l VNull H). reflexivity.
Qed.

Lemma assoc_map_items s m :
  assoc (PV (VStr s)) (rev (map_items m)) =
  match Params.lookup s m with Some v => Some (PV v) | None => None end.
Proof.
  unfold map_items. rewrite <- map_rev, rev_involutive, map_map. cbn [fst snd].
  induction m as [|[k v] t IH]; [reflexivity|]. cbn [map assoc fst snd key_eqb Params.lookup].
  change (Params.str_eqb s k) with (zeqb s k). destruct (zeqb s k); [reflexivity|exact IH].
Qed.

(* the model's [bind], by cases in the order the code tests them *)
Lemma bind_named phs p : phs <> [] -> forallb Params.name_truthy (names_of phs) = true ->
  match p with
  | Params.PMap m =>
      if forallb (has_key m) (names_of phs) then exists vs, snd (Params.bind false phs p) = inl vs
      else snd (Params.bind false phs p) = inr Params.EMissing
  | _ => snd (Params.bind false phs p) = inr Params.ETypeError
  end.
Proof.
  intros Hne HA. destruct phs as [|q t]; [congruence|]. unfold Params.bind. cbv zeta.
  unfold names_of in *. rewrite HA. destruct p as [|l|m]; try reflexivity.
  unfold has_key. clear HA. destruct (forallb _ (map ph_name (q :: t))); cbv iota; [eexists|]; reflexivity.
Qed.

Lemma bind_positional phs p : phs <> [] -> forallb Params.name_truthy (names_of phs) = false ->
  existsb Params.name_truthy (names_of phs) = false ->
  match p with
  | Params.PSeq l =>
      if Nat.eqb (length phs) (length l) then exists vs, snd (Params.bind false phs p) = inl vs
      else snd (Params.bind false phs p) = inr Params.ECount
  | _ => snd (Params.bind false phs p) = inr Params.ETypeError
  end.
Proof.
  intros Hne HA HB. destruct phs as [|q t]; [congruence|]. unfold Params.bind. cbv zeta.
  unfold names_of in *. rewrite HA, HB. cbn [negb]. destruct p as [|l|m]; try reflexivity.
  destruct (Nat.eqb (length (q :: t)) (length l)); cbv iota; [eexists|]; reflexivity.
Qed.

Lemma bind_mixed phs p : phs <> [] -> forallb Params.name_truthy (names_of phs) = false ->
  existsb Params.name_truthy (names_of phs) = true ->
  snd (Params.bind false phs p) = inr Params.EMixed.
Proof.
  intros Hne HA HB. destruct phs as [|q t]; [congruence|]. unfold Params.bind. cbv zeta.
  unfold names_of in *. rewrite HA, HB. reflexivity.
Qed.

Section Tie.
Variable call_ref : nat -> list pv -> pv.
Variable msg : string -> list pv -> pv.
Notation prim := (prim_api params_lib msg).
Notation eval := (PyMini.eval call_ref prim).
Notation comp_go := (comp_go call_ref prim).

Ltac env_step :=
  repeat (cbn [PyMini.eval read write locals fields bind snd fst]; rewrite ?lookup_update_eq).

Lemma comp_placeholders s1 w : Forall other_ok w ->
  comp_go s1 (XName "node") "node" (Some (XPrim "isinstance:beanquery.parser.ast.Placeholder" [XName "node"]))
    (map enc_node w) = Ok (map enc_ph (phs_of w)).
Proof.
  induction 1 as [|n w Hn _ IH]; [reflexivity|].
  cbn [map SrcApi.comp_go]. env_step.
  destruct n as [q|tag].
  - cbn. rewrite ?lookup_update_eq. cbn. fold (enc_ph q). rewrite IH. reflexivity.
  - cbn in Hn. unfold ph_tag in Hn. cbn in Hn.
    cbn. unfold isinstance, is_a. cbn. rewrite Hn. cbn. exact IH.
Qed.

Lemma comp_names s1 phs :
  comp_go s1 (XAttr (XName "placeholder") "name") "placeholder" None (map enc_ph phs) =
  Ok (map (fun q => enc_name (ph_name q)) phs).
Proof.
  induction phs as [|q t IH]; [reflexivity|].
  cbn [map SrcApi.comp_go]. env_step. cbn. rewrite IH. reflexivity.
Qed.

Lemma comp_keys s1 phs :
  comp_go s1 (XAttr (XAttr (XName "node") "parseinfo") "pos") "node" None (map enc_ph phs) =
  Ok (map (fun q => PInt (ph_pos q)) phs).
Proof.
  induction phs as [|q t IH]; [reflexivity|].
  cbn [map SrcApi.comp_go]. env_step. cbn. rewrite IH. reflexivity.
Qed.

Lemma comp_dict s1 phs : forall i,
  comp_go s1 (XTuple [XPrim "builtins.id" [XIndex (XName "$t") (XConst (PInt 1))]; XIndex (XName "$t") (XConst (PInt 0))])
    "$t" None (enum_from i (map enc_ph phs)) = Ok (pos_items i phs).
Proof.
  induction phs as [|q t IH]; intros i; [reflexivity|].
  cbn [map enum_from SrcApi.comp_go]. env_step.
  repeat (progress (cbn; rewrite ?lookup_update_eq; change (Pos.to_nat 1) with 1%nat)). rewrite IH. reflexivity.
Qed.


(* ---------------------------------------------------------------- Compiler.compile *)
(* the attributes of a Compiler object the method touches *)
Definition cflds (P D : pv) (kc : nat) : env := [("parameters", P); ("positional", D); ("_compile", PRef kc)].

Definition positional_case (phs : list ph) : bool :=
  match phs with [] => false | _ => negb (existsb Params.name_truthy (names_of phs)) end.

Lemma positional_case_named phs : phs <> [] -> forallb Params.name_truthy (names_of phs) = true ->
  positional_case phs = false.
Proof.
  destruct phs as [|q t]; [congruence|]. intros _ H. unfold positional_case, names_of in *. cbn in *.
  apply andb_true_iff in H as [-> _]. reflexivity.
Qed.

Lemma positional_case_pos phs : phs <> [] -> existsb Params.name_truthy (names_of phs) = false ->
  positional_case phs = true.
Proof.
  destruct phs as [|q t]; [congruence|]. intros _ H. unfold positional_case. rewrite H. reflexivity.
Qed.

Lemma compare1_ne_nat a b :
  compare1 CNe (PInt (Z.of_nat a)) (PInt (Z.of_nat b)) = Ok (negb (Nat.eqb a b)).
Proof.
  unfold compare1, PInt. cbn [is_null orb rank Z.eqb negb]. cbn. rewrite val_eq_int.
  destruct (Nat.eqb_spec a b) as [->|N]; [now rewrite Z.eqb_refl|].
  destruct (Z.eqb_spec (Z.of_nat a) (Z.of_nat b)); [lia|reflexivity].
Qed.

Lemma match_map {A B} (f : A -> B) l :
  match map f l with [] => false | _ :: _ => true end = match l with [] => false | _ :: _ => true end.
Proof. destruct l; reflexivity. Qed.

Lemma eval_lc_placeholders s w :
  Forall other_ok w -> lookup "query" (locals s) = Some (enc_query w) ->
  eval s lc_placeholders = Ok (s, PList (map enc_ph (phs_of w))).
Proof.
  intros Hw Hq. unfold lc_placeholders.
  erewrite eval_listcomp_gen; [rewrite (comp_placeholders _ _ Hw); reflexivity|].
  cbn. rewrite Hq. reflexivity.
Qed.

Lemma eval_lc_names s phs :
  lookup "placeholders" (locals s) = Some (PList (map enc_ph phs)) ->
  eval s lc_names = Ok (s, PList (enc_names phs)).
Proof.
  intros Hq. unfold lc_names.
  erewrite eval_listcomp_gen; [rewrite comp_names; reflexivity|].
  cbn. rewrite Hq. reflexivity.
Qed.

Lemma eval_lc_keys s phs :
  lookup "placeholders" (locals s) = Some (PList (map enc_ph phs)) ->
  eval s lc_keys = Ok (s, PList (map (fun q => PInt (ph_pos q)) phs)).
Proof.
  intros Hq. unfold lc_keys.
  erewrite eval_listcomp_gen; [rewrite comp_keys; reflexivity|].
  cbn. rewrite Hq. reflexivity.
Qed.

Lemma eval_lc_dict s phs :
  lookup "placeholders" (locals s) = Some (PList (map enc_ph phs)) ->
  eval s lc_dict = Ok (s, PList (pos_items 0 (isort Params.by_pos phs))).
Proof.
  intros Hq. unfold lc_dict.
  erewrite eval_listcomp_gen; [rewrite comp_dict; reflexivity|].
  remember lc_keys as k eqn:Ek. cbn. rewrite Hq. cbn. subst k. rewrite (eval_lc_keys _ _ Hq). cbn.
  rewrite sorted_placeholders. reflexivity.
Qed.

Theorem compile_params_src : forall (kcs kc : nat) (w : list node) (p : Params.params) (P0 D0 : pv),
  ref_of refs "beanquery.compiler.check_subqueries" = Some kcs ->
  Forall other_ok w -> plain (phs_of w) ->
  let phs := phs_of w in
  call_method call_ref prim compiler_compile (cflds P0 D0 kc) [enc_query w; enc_params p] =
  match snd (Params.bind false phs p) with
  | inr e => Exc (err_code e)
  | inl _ =>
      bind (do_call call_ref (PRef kcs) [enc_query w]) (fun _ =>
      bind (do_call call_ref (PRef kc) [enc_query w]) (fun r =>
      Ok (cflds (enc_params p) (if positional_case phs then positional_dict phs else D0) kc, r)))
  end.
Proof.
  intros kcs kc w p P0 D0 Hk Hw Hp phs. cbn in Hk. injection Hk as <-.
  subst phs. remember (phs_of w) as phs eqn:Ephs.
  unfold compiler_compile, call_method.
  change (XListComp (XName "node") "node" (XCallMethod (XName "query") "walk" [])
    (Some (XPrim "isinstance:beanquery.parser.ast.Placeholder" [XName "node"]))) with lc_placeholders.
  change (XListComp (XAttr (XName "placeholder") "name") "placeholder" (XName "placeholders") None) with lc_names.
  change (XListComp (XAttr (XAttr (XName "node") "parseinfo") "pos") "node" (XName "placeholders") None) with lc_keys.
  change (XListComp (XTuple [XPrim "builtins.id" [XIndex (XName "$t") (XConst (PInt 1))]; XIndex (XName "$t") (XConst (PInt 0))])
    "$t" (XPrim "builtins.enumerate" [XPrim "sorted_by" [XName "placeholders"; lc_keys]]) None) with lc_dict.
  remember lc_placeholders as e1 eqn:E1. remember lc_names as e2 eqn:E2. remember lc_dict as e3 eqn:E3.
  cbn -[compare1 do_call enc_query enc_params].
  subst e1. rewrite (eval_lc_placeholders _ w Hw) by reflexivity. rewrite <- Ephs.
  cbn -[compare1 do_call enc_query enc_params].
  rewrite (match_map enc_ph phs).
  destruct phs as [|q0 t] eqn:Eq.
  { (* no placeholder: nothing is checked *)
    cbn -[do_call enc_query enc_params].
    destruct (do_call call_ref (PRef 0) [enc_query w]); cbn -[do_call enc_query enc_params]; try reflexivity.
    destruct (do_call call_ref (PRef kc) [enc_query w]); reflexivity. }
  rewrite <- Eq in *. assert (Hne : phs <> []) by (subst phs; discriminate). clear Eq q0 t.
  cbn -[compare1 do_call enc_query enc_params].
  subst e2. rewrite (eval_lc_names _ phs) by reflexivity.
  cbn -[compare1 do_call enc_query enc_params].
  rewrite (all_names phs Hp).
  cbn -[compare1 do_call enc_query enc_params].
  destruct (forallb Params.name_truthy (names_of phs)) eqn:HA.
  - (* every placeholder is named *)
    cbn -[compare1 do_call enc_query enc_params].
    pose proof (bind_named phs p Hne HA) as HM.
    destruct p as [|l|m]; try (rewrite HM; reflexivity).
    cbn -[compare1 do_call enc_query]. fold (map_items m). fold (map_keys m).
    rewrite filter_nonempty.
    rewrite existsb_dedupe by (intros y []). rewrite (missing_names phs m Hp HA).
    rewrite (positional_case_named phs Hne HA).
    destruct (forallb (has_key m) (names_of phs)).
    + destruct HM as [vs ->]. cbn -[do_call enc_query enc_params].
      destruct (do_call call_ref (PRef 0) [enc_query w]); cbn -[do_call enc_query enc_params]; try reflexivity.
      destruct (do_call call_ref (PRef kc) [enc_query w]); reflexivity.
    + rewrite HM. destruct (msg "call:join" _) as [[]| | | |]; reflexivity.
  - (* some placeholder is positional *)
    cbn -[compare1 do_call enc_query enc_params].
    rewrite (any_names phs Hp).
    cbn -[compare1 do_call enc_query enc_params].
    destruct (existsb Params.name_truthy (names_of phs)) eqn:HB.
    { rewrite (bind_mixed phs p Hne HA HB). reflexivity. }
    cbn -[compare1 do_call enc_query enc_params].
    pose proof (bind_positional phs p Hne HA HB) as HM.
    destruct p as [|l|m]; try (rewrite HM; reflexivity).
    cbn -[compare1 do_call enc_query].
    rewrite !map_length, compare1_ne_nat.
    rewrite (positional_case_pos phs Hne HB).
    destruct (Nat.eqb (length phs) (length l)).
    + destruct HM as [vs ->]. cbn -[do_call enc_query enc_params].
      subst e3. rewrite (eval_lc_dict _ phs) by reflexivity.
      cbn -[do_call enc_query enc_params].
      destruct (do_call call_ref (PRef 0) [enc_query w]); cbn -[do_call enc_query enc_params]; try reflexivity.
      destruct (do_call call_ref (PRef kc) [enc_query w]); reflexivity.
    + rewrite HM. reflexivity.
Qed.



(* ---------------------------------------------------------------- Compiler._placeholder
   on the object Compiler.compile leaves behind: a positional placeholder is bound to the parameter whose index
   is the model's [number_of] (its rank in textual order), a named one to the mapping's value for its name *)
Theorem placeholder_positional_src : forall (kE kc : nat) (phs : list ph) (l : list value) (q : ph),
  ref_of refs "beanquery.query_compile.EvalConstant" = Some kE ->
  NoDup (map ph_pos phs) ->                       (* two placeholders never start at the same source position *)
  In q phs -> plain_name (ph_name q) = true -> Params.name_truthy (ph_name q) = false ->
  length phs = length l ->
  let flds := cflds (enc_params (Params.PSeq l)) (positional_dict phs) kc in
  call_method call_ref prim compiler_placeholder flds [enc_ph q] =
  bind (do_call call_ref (PRef kE) [PV (nth (Params.number_of phs q) l VNull)]) (fun r => Ok (flds, r)).
Proof.
  intros kE kc phs l q Hk Hn Hq Hpl Ht Hlen flds. cbn in Hk. injection Hk as <-.
  assert (Hperm : Permutation phs (isort Params.by_pos phs)) by apply isort_perm.
  assert (Hin : In (ph_pos q) (map ph_pos (isort Params.by_pos phs))).
  { apply in_map. eapply Permutation_in; eauto. }
  assert (Hnd : NoDup (map ph_pos (isort Params.by_pos phs))).
  { eapply Permutation_NoDup; [apply Permutation_map, Hperm|exact Hn]. }
  assert (Hlt : (Params.number_of phs q < length l)%nat).
  { unfold Params.number_of. rewrite <- Hlen, (Permutation_length Hperm). apply index_in_lt, Hin. }
  unfold flds, compiler_placeholder, call_method.
  cbn -[do_call index_at isort]. rewrite (truthy_name _ Hpl), Ht.
  cbn -[do_call index_at isort].
  rewrite (lookup_pos_items _ _ 0 Hnd Hin). cbn -[do_call index_at isort].
  fold (Params.number_of phs q). rewrite (index_at_nth l _ Hlt). cbn -[do_call].
  destruct (do_call call_ref (PRef 1) [PV (nth (Params.number_of phs q) l VNull)]); reflexivity.
Qed.

Theorem placeholder_named_src : forall (kE kc : nat) (m : list (list Z * value)) (D : pv) (q : ph) (s : list Z),
  ref_of refs "beanquery.query_compile.EvalConstant" = Some kE ->
  ph_name q = Params.PNamed s -> s <> [] ->
  let flds := cflds (enc_params (Params.PMap m)) D kc in
  call_method call_ref prim compiler_placeholder flds [enc_ph q] =
  match Params.lookup s m with
  | Some v => bind (do_call call_ref (PRef kE) [PV v]) (fun r => Ok (flds, r))
  | None => Exc KeyError
  end.
Proof.
  intros kE kc m D q s Hk Hs Hne flds. cbn in Hk. injection Hk as <-.
  unfold flds, compiler_placeholder, call_method, enc_ph. rewrite Hs.
  destruct s as [|c s]; [congruence|].
  cbn -[do_call]. fold (map_items m). rewrite assoc_map_items.
  destruct (Params.lookup (c :: s) m); [|reflexivity]. cbn -[do_call].
  destruct (do_call call_ref (PRef 1) [PV v]); reflexivity.
Qed.


(* ---------------------------------------------------------------- nothing is kept between two executions
   Connection.execute makes a new cursor and returns what its execute returns; the attributes of the connection
   are the same afterwards, whatever they are.  [self.cursor] is the bound method Connection.cursor (kcur), whose
   translated body makes a new Cursor(self).  compiler.compile makes a new Compiler for every compilation (the
   object whose attributes parameters / positional Compiler.compile writes). *)
Theorem connection_execute_src : forall (kcur : nat) (flds : env) (q p : pv),
  lookup "cursor" flds = Some (PRef kcur) ->
  call_method call_ref prim connection_execute flds [q; p] =
  bind (do_call call_ref (PRef kcur) []) (fun cur =>
  bind (opaque_method msg "call:execute" [cur; q; p]) (fun r => Ok (flds, r))).
Proof.
  intros kcur flds q p H. unfold connection_execute, call_method. cbn -[do_call opaque_method]. rewrite H.
  cbn -[do_call opaque_method].
  destruct (do_call call_ref (PRef kcur) []); cbn -[do_call opaque_method]; try reflexivity.
  destruct (opaque_method msg "call:execute" [a; q; p]); reflexivity.
Qed.

Theorem connection_cursor_src : forall (kC : nat) (flds : env),
  ref_of refs "beanquery.cursor.Cursor" = Some kC ->
  call_method call_ref prim connection_cursor flds [] =
  bind (do_call call_ref (PRef kC) [PSelf]) (fun c => Ok (flds, c)).
Proof.
  intros kC flds Hk. cbn in Hk. injection Hk as <-. unfold connection_cursor, call_method. cbn -[do_call].
  destruct (do_call call_ref (PRef _) [PSelf]); reflexivity.
Qed.

Theorem connection_parse_src : forall (kP : nat) (flds : env) (q : pv),
  ref_of refs "beanquery.parser.parse" = Some kP ->
  call_method call_ref prim connection_parse flds [q] =
  bind (do_call call_ref (PRef kP) [q]) (fun r => Ok (flds, r)).
Proof.
  intros kP flds q Hk. cbn in Hk. injection Hk as <-. unfold connection_parse, call_method. cbn -[do_call].
  destruct (do_call call_ref (PRef _) [q]); reflexivity.
Qed.

Theorem connection_compile_src : forall (kF : nat) (flds : env) (q : pv),
  ref_of refs "beanquery.compiler.compile" = Some kF ->
  call_method call_ref prim connection_compile flds [q] =
  bind (do_call call_ref (PRef kF) [PSelf; q]) (fun r => Ok (flds, r)).
Proof.
  intros kF flds q Hk. cbn in Hk. injection Hk as <-. unfold connection_compile, call_method. cbn -[do_call].
  destruct (do_call call_ref (PRef _) [PSelf; q]); reflexivity.
Qed.

Theorem compile_fn_src : forall (kK : nat) (ctx st p : pv),
  ref_of refs "beanquery.compiler.Compiler" = Some kK ->
  call_function call_ref prim compiler_compile_fn [ctx; st; p] =
  bind (do_call call_ref (PRef kK) [ctx]) (fun c => opaque_method msg "call:compile" [c; st; p]).
Proof.
  intros kK ctx st p Hk. cbn in Hk. injection Hk as <-. unfold compiler_compile_fn, call_function.
  cbn -[do_call opaque_method].
  destruct (do_call call_ref (PRef 2) [ctx]); cbn -[do_call opaque_method]; try reflexivity.
  destruct (opaque_method msg "call:compile" [a; st; p]); reflexivity.
Qed.


(* ---------------------------------------------------------------- Connection.__init__: the per-connection state
   Every attribute a new Connection starts with is BUILT inside __init__ - a dict display holding a NullTable made
   by a constructor call of its own, an empty dict display, an empty list display - starting from an object without
   attributes: no class-level or module-level container is stored (such a name would be an opaque reference in the
   generated term, and this statement would no longer check).  Two connections therefore share no mutable
   object through these attributes. *)
Theorem connection_init_src : forall (kN : nat) (dsn : pv),
  ref_of refs "beanquery.tables.NullTable" = Some kN ->
  call_method call_ref prim connection_init_state [] [dsn] =
  bind (do_call call_ref (PRef kN) []) (fun nt =>
  Ok ([("tables", pdict [(PV (VStr []), nt)]); ("options", pdict []); ("errors", PList [])], PNone)).
Proof.
  intros kN dsn Hk. cbn in Hk. injection Hk as <-. unfold connection_init_state, call_method. cbn -[do_call].
  destruct (do_call call_ref (PRef _) []); reflexivity.
Qed.

End Tie.
