(* Tie by translation, group `envledger` (C12, C11): the PyMini terms generated on every run from the SOURCE of the
   ledger / inventory / metadata functions of beanquery/query_env.py (Gen/SrcEnvLedger.v, harness/vf/src_envledger.py)
   compute, for ALL arguments, what the models of C12 (Model/Inventory.v: units / cost / value / convert on amounts,
   positions and inventories, getprice) and of C11 (Model/Tables.v: open_date, close_date, open_meta, commodity_meta,
   and meta / entry_meta / any_meta as the compiler rewrites them into getitem) compute.

   The interpreter runs with Model/PrimsEnvLedger.v's [prim_envledger price one upper]: the Beancount reducers are
   the model's, over an ARBITRARY price function [price], fixed-point unit [one] and currency upper-casing [upper]
   (Section variables: every theorem holds for all of them).  What is verified is the composition: which reducer each
   BQL function hands to Inventory.reduce and with which extra arguments in which order, that convert on a position
   goes through convert_position (the detour through the cost currency) and not through convert_amount on its units,
   that only getprice upper-cases its currencies, which table attribute each metadata function reads, which half of
   the (open, close) pair, the None checks and the default of getitem's third operand (evaluated only when the
   dict is there).  `context.tables['<t>'].<a>` reads are parameters (see src_envledger.py). *)
From Coq Require Import String ZArith List Bool Lia.
Import ListNotations.
From Verif Require Import Base.PyValue Model.Eval Model.PyMini Model.Ledger Model.Tables Model.PrimsLedger
  Model.PrimsEnvLedger Gen.SrcEnvLedger Proofs.PyMiniLemmas Proofs.SrcLedgerBalance.
From Verif Require Model.Inventory.
Open Scope string_scope.
Open Scope list_scope.
Open Scope Z_scope.

Local Arguments Inv.dec_position : simpl never.
Local Arguments Inv.dec_inv : simpl never.
Local Arguments Inv.enc_position : simpl never.
Local Arguments Inv.enc_inv : simpl never.
Local Arguments Inventory.reduce : simpl never.
Local Arguments Inventory.get_units : simpl never.
Local Arguments Inventory.get_cost : simpl never.
Local Arguments Inventory.get_value : simpl never.
Local Arguments Inventory.convert_amount : simpl never.
Local Arguments Inventory.convert_position : simpl never.

Lemma dec_enc_odate d : dec_odate (enc_odate d) = Some d.
Proof. destruct d; reflexivity. Qed.

Section Inv.
Variable price : Inventory.currency -> Inventory.currency -> option Z -> option Z.
Variable one : Z.
Variable upper : Inventory.currency -> Inventory.currency.
Variable call_ref : nat -> list pv -> pv.
Notation prims := (prim_envledger price one upper).
Notation run := (call_function call_ref prims).

Theorem position_units_src : forall p,
  run envl_position_units [Inv.enc_position p] = Ok (enc_iamount (Inventory.get_units p)).
Proof. intros. cbn. rewrite dec_enc_position. reflexivity. Qed.

Theorem inventory_units_src : forall i,
  run envl_inventory_units [Inv.enc_inv i] = Ok (Inv.enc_inv (Inventory.inventory_units i)).
Proof. intros. cbn. rewrite dec_enc_inv. reflexivity. Qed.

Theorem position_cost_src : forall p,
  run envl_position_cost [Inv.enc_position p] = Ok (enc_iamount (Inventory.get_cost one p)).
Proof. intros. cbn. rewrite dec_enc_position. reflexivity. Qed.

Theorem inventory_cost_src : forall i,
  run envl_inventory_cost [Inv.enc_inv i] = Ok (Inv.enc_inv (Inventory.inventory_cost one i)).
Proof. intros. cbn. rewrite dec_enc_inv. reflexivity. Qed.

Theorem position_value_src : forall p d,
  run envl_position_value [p_price_map; Inv.enc_position p; enc_odate d] =
  Ok (enc_iamount (Inventory.get_value price one d p)).
Proof. intros. cbn. rewrite dec_enc_position, dec_enc_odate. reflexivity. Qed.

Theorem inventory_value_src : forall i d,
  run envl_inventory_value [p_price_map; Inv.enc_inv i; enc_odate d] =
  Ok (Inv.enc_inv (Inventory.inventory_value price one d i)).
Proof. intros. cbn. rewrite dec_enc_inv, dec_enc_odate. reflexivity. Qed.

Theorem convert_amount_src : forall a c d,
  run envl_convert_amount [p_price_map; enc_iamount a; PInt c; enc_odate d] =
  Ok (enc_iamount (Inventory.convert_amount price one None c d a)).
Proof. intros [n cu] c d. cbn. rewrite dec_enc_odate. reflexivity. Qed.

Theorem convert_position_src : forall p c d,
  run envl_convert_position [p_price_map; Inv.enc_position p; PInt c; enc_odate d] =
  Ok (enc_iamount (Inventory.convert_position price one c d p)).
Proof. intros. cbn. rewrite dec_enc_position, dec_enc_odate. reflexivity. Qed.

Theorem convert_inventory_src : forall i c d,
  run envl_convert_inventory [p_price_map; Inv.enc_inv i; PInt c; enc_odate d] =
  Ok (Inv.enc_inv (Inventory.inventory_convert price one c d i)).
Proof. intros. cbn. rewrite dec_enc_inv, dec_enc_odate. reflexivity. Qed.

Theorem getprice_src : forall b q d,
  run envl_getprice [p_price_map; PInt b; PInt q; enc_odate d] = Ok (enc_orate (price (upper b) (upper q) d)).
Proof. intros. cbn. rewrite dec_enc_odate. reflexivity. Qed.

Theorem number_src : forall a : Inventory.amount, run envl_number [enc_iamount a] = Ok (PInt (fst a)).
Proof. intros [n c]. reflexivity. Qed.
Theorem currency_src : forall a : Inventory.amount, run envl_currency [enc_iamount a] = Ok (PInt (snd a)).
Proof. intros [n c]. reflexivity. Qed.

Theorem filter_currency_position_src : forall p c,
  run envl_filter_currency_position [Inv.enc_position p; PInt c] =
  Ok (if Inventory.pcur p =? c then Inv.enc_position p else PNone).
Proof.
  intros [n cu k] c. unfold Inv.enc_position. cbn. rewrite val_eq_int. destruct (cu =? c); reflexivity.
Qed.
End Inv.

Local Arguments enc_mvalue : simpl never.

(* ---------------------------------------------------------------- dicts *)
Lemma kv_get_meta (m : metadata) k :
  kv_get k (map (fun kv => PTuple [pzstr (fst kv); enc_mvalue (snd kv)]) m) = option_map enc_mvalue (dict_get m k).
Proof.
  induction m as [|[k' v] m IH]; [reflexivity|]. cbn [map fst snd dict_get]. unfold kv_get; fold kv_get. cbn [pzstr].
  destruct (str_eqb k' k); [reflexivity|apply IH].
Qed.

Lemma enc_cell_mvalue v : enc_cell (cell_of_mvalue v) = enc_mvalue v.
Proof. destruct v; reflexivity. Qed.

Lemma get_meta m k : match kv_get k (map (fun kv => PTuple [pzstr (fst kv); enc_mvalue (snd kv)]) m) with
                     | Some v => v | None => PNone end = enc_cell (meta_get m k).
Proof. rewrite kv_get_meta. unfold meta_get. destruct (dict_get m k); cbn; [symmetry; apply enc_cell_mvalue|reflexivity]. Qed.

Lemma kv_get_accounts rows a :
  kv_get a (map enc_arow rows) =
  option_map (fun r => PTuple [popt enc_directive (ar_open r); popt enc_directive (ar_close r)])
             (find (fun r => str_eqb (ar_account r) a) rows).
Proof.
  induction rows as [|r rows IH]; [reflexivity|]. cbn [map find]. unfold enc_arow at 1. unfold kv_get; fold kv_get.
  cbn [pzstr]. destruct (str_eqb (ar_account r) a); [reflexivity|apply IH].
Qed.

Lemma kv_get_commodities (m : list (str * directive)) c :
  kv_get c (map (fun kv => PTuple [pzstr (fst kv); enc_directive (snd kv)]) m) = option_map enc_directive (dict_get m c).
Proof.
  induction m as [|[k' v] m IH]; [reflexivity|]. cbn [map fst snd dict_get]. unfold kv_get; fold kv_get. cbn [pzstr].
  destruct (str_eqb k' c); [reflexivity|apply IH].
Qed.

Lemma enc_directive_not_none d : pv_is_none (enc_directive d) = false.
Proof. reflexivity. Qed.

Section Led.
Variable price : Inventory.currency -> Inventory.currency -> option Z -> option Z.
Variable one : Z.
Variable upper : Inventory.currency -> Inventory.currency.
Variable call_ref : nat -> list pv -> pv.
Notation prims := (prim_envledger price one upper).
Notation run := (call_function call_ref prims).

Lemma attr_date d : prims "attr:date" [enc_directive d] = Ok (pdate (d_date d)).
Proof. destruct d; reflexivity. Qed.
Lemma attr_meta d : prims "attr:meta" [enc_directive d] = Ok (enc_meta (d_meta d)).
Proof. destruct d; reflexivity. Qed.


Ltac acct l a :=
  cbn; unfold enc_accounts; cbn; rewrite kv_get_accounts;
  unfold f_open_date, f_close_date, f_open_meta, f_open_meta1, open_of, close_of, find_account;
  destruct (find (fun r => str_eqb (ar_account r) a) (accounts_iter l)) as [r|]; cbn; [|reflexivity].

Theorem open_date_src : forall l a,
  run envl_open_date [enc_accounts l; pzstr a] = Ok (enc_cell (f_open_date l a)).
Proof.
  intros. acct l a. destruct (ar_open r) as [d|]; cbn; [|reflexivity]. destruct d; reflexivity.
Qed.

Theorem close_date_src : forall l a,
  run envl_close_date [enc_accounts l; pzstr a] = Ok (enc_cell (f_close_date l a)).
Proof.
  intros. acct l a. destruct (ar_close r) as [d|]; cbn; [|reflexivity]. destruct d; reflexivity.
Qed.

Theorem open_meta1_src : forall l a,
  run envl_open_meta [enc_accounts l; pzstr a; PNone] = Ok (enc_cell (f_open_meta1 l a)).
Proof.
  intros. acct l a. destruct (ar_open r) as [d|]; cbn; [|reflexivity]. destruct d; reflexivity.
Qed.

Theorem open_meta_src : forall l a k,
  run envl_open_meta [enc_accounts l; pzstr a; pzstr k] = Ok (enc_cell (f_open_meta l a k)).
Proof.
  intros. acct l a. destruct (ar_open r) as [d|]; cbn; [|reflexivity].
  destruct d; cbn; rewrite get_meta; reflexivity.
Qed.

Ltac comm l c :=
  cbn; unfold enc_commodities; cbn; rewrite kv_get_commodities;
  unfold f_commodity_meta, f_commodity_meta1;
  destruct (dict_get (commodities_dict l) c) as [d|]; cbn; [|reflexivity].

Theorem commodity_meta1_src : forall l c,
  run envl_currency_meta [enc_commodities l; pzstr c; PNone] = Ok (enc_cell (f_commodity_meta1 l c)).
Proof. intros. comm l c. destruct d; reflexivity. Qed.

Theorem commodity_meta_src : forall l c k,
  run envl_currency_meta [enc_commodities l; pzstr c; pzstr k] = Ok (enc_cell (f_commodity_meta l c k)).
Proof. intros. comm l c. destruct d; cbn; rewrite get_meta; reflexivity. Qed.

(* ---------------------------------------------------------------- getitem: what meta(k), entry_meta(k), any_meta(k)
   are compiled into (compiler.py).  The operands are opaque children evaluated on the row. *)
Definition getitem_flds (ks : list nat) : env := [("operands", PList (map PRef ks))].

Theorem getitem2_src : forall (m : option metadata) k ko kk row,
  call_ref ko [row] = popt enc_meta m -> call_ref kk [row] = pzstr k ->
  call_method call_ref prims envl_getitem2 (getitem_flds [ko; kk]) [row] =
  Ok (getitem_flds [ko; kk], enc_cell (match m with None => CNull | Some m => meta_get m k end)).
Proof.
  intros m k ko kk row Ho Hk. cbn. rewrite Ho. destruct m as [m|]; cbn; [|reflexivity].
  rewrite Hk. cbn. rewrite get_meta. reflexivity.
Qed.

Theorem getitem3_src : forall (m : option metadata) k dv ko kk kd row,
  call_ref ko [row] = popt enc_meta m -> call_ref kk [row] = pzstr k ->
  call_ref kd [row] = dv -> (forall e, dv <> PV (VErr e)) ->
  call_method call_ref prims envl_getitem3 (getitem_flds [ko; kk; kd]) [row] =
  Ok (getitem_flds [ko; kk; kd],
      match m with
      | None => PNone
      | Some m => match dict_get m k with Some v => enc_mvalue v | None => dv end
      end).
Proof.
  intros m k dv ko kk kd row Ho Hk Hd Hne. cbn. rewrite Ho. destruct m as [m|]; cbn; [|reflexivity].
  rewrite Hk. cbn. rewrite Hd.
  destruct dv as [[| | | | | |e]| | | |]; try (exfalso; apply (Hne e); reflexivity);
    cbn; rewrite kv_get_meta; destruct (dict_get m k); reflexivity.
Qed.

(* the three metadata functions on a postings row, as compiled *)
Theorem meta_src : forall (r : prow) k ko kk row,
  call_ref ko [row] = popt enc_meta (p_meta (pr_posting r)) -> call_ref kk [row] = pzstr k ->
  call_method call_ref prims envl_getitem2 (getitem_flds [ko; kk]) [row] =
  Ok (getitem_flds [ko; kk], enc_cell (f_meta r k)).
Proof. intros r k ko kk row Ho Hk. rewrite (getitem2_src _ k ko kk row Ho Hk). reflexivity. Qed.

Theorem entry_meta_src : forall (r : prow) k ko kk row,
  call_ref ko [row] = enc_meta (d_meta (pr_entry r)) -> call_ref kk [row] = pzstr k ->
  call_method call_ref prims envl_getitem2 (getitem_flds [ko; kk]) [row] =
  Ok (getitem_flds [ko; kk], enc_cell (f_entry_meta r k)).
Proof. intros r k ko kk row Ho Hk. rewrite (getitem2_src (Some (d_meta (pr_entry r))) k ko kk row Ho Hk). reflexivity. Qed.

Lemma enc_cell_meta_get_not_err m k e : enc_cell (meta_get m k) <> PV (VErr e).
Proof.
  unfold meta_get. destruct (dict_get m k) as [v|]; [|discriminate].
  destruct v as [| | | | | |a|]; cbn; try discriminate.
Qed.

(* any_meta(k) = getitem(meta, k, getitem(entry.meta, k)): the default operand is the compiled entry_meta(k) *)
Theorem any_meta_src : forall (r : prow) k ko kk kd row,
  call_ref ko [row] = popt enc_meta (p_meta (pr_posting r)) -> call_ref kk [row] = pzstr k ->
  call_ref kd [row] = enc_cell (f_entry_meta r k) ->
  call_method call_ref prims envl_getitem3 (getitem_flds [ko; kk; kd]) [row] =
  Ok (getitem_flds [ko; kk; kd], enc_cell (f_any_meta r k)).
Proof.
  intros r k ko kk kd row Ho Hk Hd.
  rewrite (getitem3_src _ k _ ko kk kd row Ho Hk Hd) by (intros e; apply enc_cell_meta_get_not_err).
  unfold f_any_meta, f_entry_meta. destruct (p_meta (pr_posting r)) as [m|]; [|reflexivity].
  destruct (dict_get m k) as [v|]; [rewrite enc_cell_mvalue|]; reflexivity.
Qed.
End Led.
