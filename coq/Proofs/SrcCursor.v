(* Tie by translation: the PyMini terms generated from the SOURCE of beanquery.cursor.Cursor's fetch methods
   (Gen/Src.v, regenerated on every run) compute, for every cursor state and every argument, exactly what the
   hand-written model (Model/Cursor.v) computes.  The C10 theorems are stated over Model/Cursor.v; these lemmas
   re-check on every run that the model is what the code says now. *)
From Coq Require Import String ZArith List Bool Lia.
Import ListNotations.
From Verif Require Import Base.PyValue Model.PyMini Model.Cursor Gen.SrcCursor.
Open Scope string_scope.
Open Scope Z_scope.

Section Tie.
Variable call_ref : nat -> list pv -> pv.
Variable prim : string -> list pv -> PyMini.res pv.

(* the attributes of a Cursor object as the model's record *)
Definition rows_pv (r : option (list pv)) : pv := match r with None => PNone | Some l => PList l end.
Definition flds (c : cur pv) : env :=
  [("_rows", rows_pv (rows pv c)); ("_pos", PInt (pos pv c)); ("_rowcount", PInt (count pv c));
   ("arraysize", PInt (arraysize pv c))].

Definition res_pv (r : res pv) : pv :=
  match r with
  | RNone => PNone
  | RRow x => x
  | RRows l => PList l
  | RInt z => PInt z
  | RStop => PNone
  | RBool b => PBool b
  end.

Lemma clip_clipz len n : 0 <= len -> clip len n = Z.to_nat (clipz len n).
Proof. intros; unfold clip, clipz; reflexivity. Qed.

Lemma slice_take (l : list pv) n : slice_list l None (Some n) = py_take l n.
Proof.
  unfold slice_list, py_take. cbn [skipn Z.to_nat]. rewrite Z.sub_0_r. reflexivity.
Qed.

Lemma slice_drop (l : list pv) n : slice_list l (Some n) None = py_drop l n.
Proof.
  unfold slice_list, py_drop.
  assert (Hc : clip (Z.of_nat (length l)) n = Z.to_nat (clipz (Z.of_nat (length l)) n)) by reflexivity.
  rewrite Hc. apply firstn_all2. rewrite skipn_length.
  assert (0 <= clipz (Z.of_nat (length l)) n <= Z.of_nat (length l)).
  { unfold clipz. destruct (n <? 0) eqn:E; lia. }
  lia.
Qed.

Theorem fetchone_src : forall c : cur pv,
  call_method call_ref prim cursor_fetchone (flds c) [] =
  Ok (flds (fst (fetchone pv c)), res_pv (snd (fetchone pv c))).
Proof.
  intros [r p n a it]. destruct r as [[|x t]|]; reflexivity.
Qed.

Theorem fetchmany_src : forall (c : cur pv) (size : option Z),
  call_method call_ref prim cursor_fetchmany (flds c) [match size with None => PNone | Some n => PInt n end] =
  Ok (flds (fst (fetchmany pv c size)), res_pv (snd (fetchmany pv c size))).
Proof.
  intros [r p n a it] size. destruct r as [l|]; [|destruct size; reflexivity].
  destruct size as [k|]; cbn -[slice_list py_take py_drop];
    rewrite slice_take, slice_drop; reflexivity.
Qed.

Theorem fetchall_src : forall c : cur pv,
  call_method call_ref prim cursor_fetchall (flds c) [] =
  Ok (flds (fst (fetchall pv c)), res_pv (snd (fetchall pv c))).
Proof.
  intros [r p n a it]. destruct r as [l|]; reflexivity.
Qed.

Theorem rowcount_src : forall c : cur pv,
  call_method call_ref prim cursor_rowcount (flds c) [] = Ok (flds c, PInt (count pv c)).
Proof. intros [r p n a it]; reflexivity. Qed.

Theorem rownumber_src : forall c : cur pv,
  call_method call_ref prim cursor_rownumber (flds c) [] = Ok (flds c, PInt (pos pv c)).
Proof. intros [r p n a it]; reflexivity. Qed.

End Tie.
