(* Tie by translation: the PyMini terms generated from the SOURCE of beanquery.cursor.Cursor's fetch methods
   (Gen/Src.v, regenerated on every run) compute, for every cursor state and every argument, exactly what the
   hand-written model (Model/Cursor.v) computes.  The C10 theorems are stated over Model/Cursor.v; these lemmas
   re-check on every run that the model is what the code says now. *)
From Coq Require Import String ZArith List Bool Lia.
Import ListNotations.
From Verif Require Import Base.PyValue Model.PyMini Model.Cursor Model.PrimsApi Gen.SrcCursor.
Open Scope string_scope.
Open Scope Z_scope.

Section Tie.
Variable call_ref : nat -> list pv -> pv.
Variable prim : string -> list pv -> PyMini.res pv.

(* the attributes of a Cursor object as the model's record *)
Definition rows_pv (r : option (list pv)) : pv := match r with None => PNone | Some l => PList l end.
Definition flds (c : cur pv) : env :=
  [("_rows", rows_pv (rows pv c)); ("_pos", PInt (pos pv c)); ("_rowcount", PInt (count pv c));
   ("arraysize", PInt (arraysize pv c))].

Definition res_pv (r : res pv) : pv :=
  match r with
  | RNone => PNone
  | RRow x => x
  | RRows l => PList l
  | RInt z => PInt z
  | RStop => PNone
  | RBool b => PBool b
  end.

Lemma clip_clipz len n : 0 <= len -> clip len n = Z.to_nat (clipz len n).
Proof. intros; unfold clip, clipz; reflexivity. Qed.

Lemma slice_take (l : list pv) n : slice_list l None (Some n) = py_take l n.
Proof.
  unfold slice_list, py_take. cbn [skipn Z.to_nat]. rewrite Z.sub_0_r. reflexivity.
Qed.

Lemma slice_drop (l : list pv) n : slice_list l (Some n) None = py_drop l n.
Proof.
  unfold slice_list, py_drop.
  assert (Hc : clip (Z.of_nat (length l)) n = Z.to_nat (clipz (Z.of_nat (length l)) n)) by reflexivity.
  rewrite Hc. apply firstn_all2. rewrite skipn_length.
  assert (0 <= clipz (Z.of_nat (length l)) n <= Z.of_nat (length l)).
  { unfold clipz. destruct (n <? 0) eqn:E; lia. }
  lia.
Qed.

Theorem fetchone_src : forall c : cur pv,
  call_method call_ref prim cursor_fetchone (flds c) [] =
  Ok (flds (fst (fetchone pv c)), res_pv (snd (fetchone pv c))).
Proof.
  intros [r p n a it]. destruct r as [[|x t]|]; reflexivity.
Qed.

Theorem fetchmany_src : forall (c : cur pv) (size : option Z),
  call_method call_ref prim cursor_fetchmany (flds c) [match size with None => PNone | Some n => PInt n end] =
  Ok (flds (fst (fetchmany pv c size)), res_pv (snd (fetchmany pv c size))).
Proof.
  intros [r p n a it] size. destruct r as [l|]; [|destruct size; reflexivity].
  destruct size as [k|]; cbn -[slice_list py_take py_drop];
    rewrite slice_take, slice_drop; reflexivity.
Qed.

Theorem fetchall_src : forall c : cur pv,
  call_method call_ref prim cursor_fetchall (flds c) [] =
  Ok (flds (fst (fetchall pv c)), res_pv (snd (fetchall pv c))).
Proof.
  intros [r p n a it]. destruct r as [l|]; reflexivity.
Qed.

Theorem rowcount_src : forall c : cur pv,
  call_method call_ref prim cursor_rowcount (flds c) [] = Ok (flds c, PInt (count pv c)).
Proof. intros [r p n a it]; reflexivity. Qed.

Theorem rownumber_src : forall c : cur pv,
  call_method call_ref prim cursor_rownumber (flds c) [] = Ok (flds c, PInt (pos pv c)).
Proof. intros [r p n a it]; reflexivity. Qed.

(* ------------------------------------------------------------------------------------------------------------
   The state-changing half: Cursor.__init__, Cursor.execute, Cursor.connection; Column's sequence protocol.

   [obj ctx d c] is the attribute dictionary of a Cursor object in the order __init__ creates it: the connection,
   the description of the last result, and the four attributes of the model state c. *)
Definition obj (ctx d : pv) (c : cur pv) : env :=
  [("_context", ctx); ("_description", d); ("_rows", rows_pv (rows pv c)); ("_rowcount", PInt (count pv c));
   ("_pos", PInt (pos pv c)); ("arraysize", PInt (arraysize pv c))].

(* a new object has no attributes; __init__ creates the model's initial state *)
Theorem init_src : forall conn : pv,
  call_method call_ref prim cursor_init [] [conn] = Ok (obj conn PNone (@init pv), PNone).
Proof. reflexivity. Qed.

Theorem connection_src : forall ctx d c,
  call_method call_ref prim cursor_connection (obj ctx d c) [] = Ok (obj ctx d c, ctx).
Proof. intros ctx d [r p n a it]; reflexivity. Qed.

Theorem description_src : forall ctx d c,
  call_method call_ref prim cursor_description (obj ctx d c) [] = Ok (obj ctx d c, d).
Proof. intros ctx d [r p n a it]; reflexivity. Qed.

(* the fetch methods on the full object: the two extra attributes are not touched *)
Theorem fetchone_obj : forall ctx d (c : cur pv),
  call_method call_ref prim cursor_fetchone (obj ctx d c) [] =
  Ok (obj ctx d (fst (fetchone pv c)), res_pv (snd (fetchone pv c))).
Proof. intros ctx d [r p n a it]. destruct r as [[|x t]|]; reflexivity. Qed.

Theorem fetchmany_obj : forall ctx d (c : cur pv) (size : option Z),
  call_method call_ref prim cursor_fetchmany (obj ctx d c) [match size with None => PNone | Some n => PInt n end] =
  Ok (obj ctx d (fst (fetchmany pv c size)), res_pv (snd (fetchmany pv c size))).
Proof.
  intros ctx d [r p n a it] size. destruct r as [l|]; [|destruct size; reflexivity].
  destruct size as [k|]; cbn -[slice_list py_take py_drop];
    rewrite slice_take, slice_drop; reflexivity.
Qed.

Theorem fetchall_obj : forall ctx d (c : cur pv),
  call_method call_ref prim cursor_fetchall (obj ctx d c) [] =
  Ok (obj ctx d (fst (fetchall pv c)), res_pv (snd (fetchall pv c))).
Proof. intros ctx d [r p n a it]. destruct r as [l|]; reflexivity. Qed.

(* ---- execute.  The parser, the compiler and the executor are opaque callables, found in the generated [refs]
   table by their qualified names.  [pipeline ctx q p] is what the three calls in the source amount to: parse the
   query unless it is already an AST node, compile it against the connection with the parameters, execute it; an
   exception of any stage propagates. *)
Record exec_refs := { kNode : nat; kIsinstance : nat; kParse : nat; kCompile : nat; kExec : nat }.
(* the numbers are those of the generated table *)
Definition exec_refs_ok (K : exec_refs) : Prop :=
  ref_of refs "beanquery.parser.ast.Node" = Some (kNode K) /\
  ref_of refs "builtins.isinstance" = Some (kIsinstance K) /\
  ref_of refs "beanquery.parser.parse" = Some (kParse K) /\
  ref_of refs "beanquery.compiler.compile" = Some (kCompile K) /\
  ref_of refs "beanquery.query_execute.execute_query" = Some (kExec K).

Definition pipeline (K : exec_refs) (ctx q p : pv) : PyMini.res pv :=
  bind (do_call call_ref (PRef (kIsinstance K)) [q; PRef (kNode K)]) (fun isnode =>
  bind (pv_truthy isnode) (fun b =>
  bind (if b then Ok q else do_call call_ref (PRef (kParse K)) [q]) (fun ast =>
  bind (do_call call_ref (PRef (kCompile K)) [ctx; ast; p]) (fun compiled =>
  do_call call_ref (PRef (kExec K)) [compiled])))).

Ltac refs_known HK :=
  match type of HK with exec_refs_ok ?K =>
    destruct K as [k0 k1 k2 k3 k4]; destruct HK as (H0 & H1 & H2 & H3 & H4);
    cbn in H0, H1, H2, H3, H4;
    injection H0 as <-; injection H1 as <-; injection H2 as <-; injection H3 as <-; injection H4 as <-
  end.

(* for EVERY prior state of the cursor: if the pipeline returns (description, R) then the object after
   execute(q, p) is the one of the model's step [Execute R] - rows R, rowcount len R, position 0, arraysize and
   connection untouched - with the new description, and the call returns the cursor itself *)
Theorem execute_src : forall K ctx d0 (c : cur pv) (q p d : pv) (R : list pv),
  exec_refs_ok K ->
  pipeline K ctx q p = Ok (PTuple [d; PList R]) ->
  call_method call_ref prim cursor_execute (obj ctx d0 c) [q; p] =
  Ok (obj ctx d (fst (step pv c (Execute R))), PSelf).
Proof.
  intros K ctx d0 [r ps n a it] q p d R HK H. refs_known HK. unfold pipeline in H.
  cbn -[do_call]. cbn -[do_call] in H.
  destruct (do_call call_ref (PRef 1) [q; PRef 0]) as [isn| |]; cbn -[do_call] in *; try discriminate.
  destruct (pv_truthy isn) as [[|]| |]; cbn -[do_call] in *; try discriminate.
  - destruct (do_call call_ref (PRef 3) [ctx; q; p]) as [cq| |]; cbn -[do_call] in *; try discriminate.
    rewrite H. reflexivity.
  - destruct (do_call call_ref (PRef 2) [q]) as [ast| |]; cbn -[do_call] in *; try discriminate.
    destruct (do_call call_ref (PRef 3) [ctx; ast; p]) as [cq| |]; cbn -[do_call] in *; try discriminate.
    rewrite H. reflexivity.
Qed.

(* an exception raised by any stage of the pipeline is the exception of execute (every attribute write comes
   after the last call of the pipeline in the translated body) *)
Theorem execute_raises_src : forall K ctx d0 (c : cur pv) (q p : pv) (k : Z),
  exec_refs_ok K ->
  pipeline K ctx q p = Exc k ->
  call_method call_ref prim cursor_execute (obj ctx d0 c) [q; p] = Exc k.
Proof.
  intros K ctx d0 [r ps n a it] q p k HK H. refs_known HK. unfold pipeline in H.
  cbn -[do_call]. cbn -[do_call] in H.
  destruct (do_call call_ref (PRef 1) [q; PRef 0]) as [isn| |]; cbn -[do_call] in *; try discriminate; try (injection H as ->; reflexivity).
  destruct (pv_truthy isn) as [[|]| |]; cbn -[do_call] in *; try discriminate; try (injection H as ->; reflexivity).
  - destruct (do_call call_ref (PRef 3) [ctx; q; p]) as [cq| |]; cbn -[do_call] in *; try discriminate; try (injection H as ->; reflexivity).
    rewrite H. reflexivity.
  - destruct (do_call call_ref (PRef 2) [q]) as [ast| |]; cbn -[do_call] in *; try discriminate; try (injection H as ->; reflexivity).
    destruct (do_call call_ref (PRef 3) [ctx; ast; p]) as [cq| |]; cbn -[do_call] in *; try discriminate; try (injection H as ->; reflexivity).
    rewrite H. reflexivity.
Qed.


(* ---- __iter__: iter(self.fetchone, None) - a NEW callable-iterator over the bound method fetchone with sentinel
   None (what the model's NewIter / Next ops are: every Next is a fetchone, None exhausts the handle for good);
   the cursor itself is not touched *)
Theorem iter_src : forall kIter kf ctx d (c : cur pv),
  ref_of refs "builtins.iter" = Some kIter ->
  call_method call_ref prim cursor_iter (("fetchone", PRef kf) :: obj ctx d c) [] =
  bind (do_call call_ref (PRef kIter) [PRef kf; PNone]) (fun it => Ok (("fetchone", PRef kf) :: obj ctx d c, it)).
Proof.
  intros kIter kf ctx d [r p n a it] Hk. cbn in Hk. injection Hk as <-. cbn -[do_call].
  destruct (do_call call_ref (PRef 5) [PRef kf; PNone]); reflexivity.
Qed.

(* ---- executemany.  `self.execute(query, p)` is a state-changing call on the receiver, which a PyMini term cannot
   make; so: (1) the source of executemany IS the loop "query = parse(query); for p in params: self.execute(query, p)"
   (a syntactic fact about the generated term), and (2) running the translated execute as that loop prescribes
   ([run_many]) is the model's fold of Execute steps. *)
Theorem executemany_shape : forall kParse,
  ref_of refs "beanquery.parser.parse" = Some kParse ->
  cursor_executemany =
  {| f_params := ["self"; "query"; "params"];
     f_body := [SAssign (TName "query") (XCall (XConst (PRef kParse)) [XName "query"] None);
                SFor "p" (XName "params")
                  [SExpr (XCall (XAttr (XName "self") "execute") [XName "query"; XName "p"] None)]];
     f_gen := false |}.
Proof. intros kParse Hk. cbn in Hk. injection Hk as <-. reflexivity. Qed.

Fixpoint run_many (flds : env) (q : pv) (ps : list pv) : PyMini.res env :=
  match ps with
  | [] => Ok flds
  | p :: t => bind (call_method call_ref prim cursor_execute flds [q; p]) (fun fr => run_many (fst fr) q t)
  end.

Definition many_step (s : pv * cur pv) (r : pv * list pv) : pv * cur pv :=
  (fst r, fst (step pv (snd s) (Execute (snd r)))).

Theorem executemany_run : forall K ctx q (ps : list pv) (rs : list (pv * list pv)) d0 (c : cur pv),
  exec_refs_ok K ->
  Forall2 (fun p r => pipeline K ctx q p = Ok (PTuple [fst r; PList (snd r)])) ps rs ->
  run_many (obj ctx d0 c) q ps =
  Ok (obj ctx (fst (fold_left many_step rs (d0, c))) (snd (fold_left many_step rs (d0, c)))).
Proof.
  intros K ctx q ps rs d0 c HK H. revert d0 c.
  induction H as [|p r ps rs Hp _ IH]; intros d0 c; [reflexivity|].
  cbn [run_many fold_left]. rewrite (execute_src K ctx d0 c q p (fst r) (snd r) HK Hp).
  cbn [bind fst]. apply IH.
Qed.

(* ---- Column: a 7-item sequence.  The class attribute _vars is a tuple of operator.attrgetter objects (opaque
   callables ks); Gen.SrcCursor.column_vars lists, from the live class, the attribute each of them reads together
   with the translated body of that property.  [getters_ok]: calling the j-th getter on the object is calling the
   j-th property (what operator.attrgetter means). *)
Definition cflds (n t : pv) (ks : list nat) : env :=
  [("_vars", PTuple (map PRef ks)); ("_name", n); ("_type", t)].

Theorem column_init_src : forall n t ks,
  call_method call_ref prim column_init [("_vars", PTuple (map PRef ks))] [n; t] = Ok (cflds n t ks, PNone).
Proof. reflexivity. Qed.

Theorem column_len_src : forall flds,
  call_method call_ref prim column_len flds [] = Ok (flds, PInt (Z.of_nat (length col_items))).
Proof. reflexivity. Qed.

Definition getter_is (flds : env) (k : nat) (nf : string * fdef) : Prop :=
  call_method call_ref prim (snd nf) flds [] = bind (do_call call_ref (PRef k) [PSelf]) (fun v => Ok (flds, v)).
Definition getters_ok (flds : env) (ks : list nat) : Prop := Forall2 (getter_is flds) ks column_vars.

Lemma index_at_oob (l : list pv) i :
  i < - Z.of_nat (length l) \/ Z.of_nat (length l) <= i -> index_at l i = Exc IndexError.
Proof.
  intros H. unfold index_at.
  destruct (Z.ltb_spec i 0);
    match goal with |- context [(?a <? 0) || (?b <=? ?c)] =>
      destruct (Z.ltb_spec a 0), (Z.leb_spec b c) end; cbn; try reflexivity; lia.
Qed.

Lemma py_index_oob {A} (l : list A) i :
  i < - Z.of_nat (length l) \/ Z.of_nat (length l) <= i -> py_index l i = None.
Proof.
  intros H. unfold py_index.
  destruct (Z.ltb_spec i (- Z.of_nat (length l))), (Z.leb_spec (Z.of_nat (length l)) i); cbn; try reflexivity; lia.
Qed.

(* column[i] for an integer i: IndexError outside -7..6, else the name, hash(type) or None exactly as the model's
   py_index over col_items says *)
Theorem column_getitem_src : forall kI kS kH n t ks i,
  ref_of refs "builtins.isinstance" = Some kI -> ref_of refs "builtins.slice" = Some kS ->
  ref_of refs "builtins.hash" = Some kH ->
  call_ref kI [PInt i; PRef kS] = PBool false ->            (* an int is not a slice *)
  getters_ok (cflds n t ks) ks ->
  call_method call_ref prim column_getitem (cflds n t ks) [PInt i] =
  match py_index col_items i with
  | None => Exc IndexError
  | Some IName => Ok (cflds n t ks, n)
  | Some ICode => bind (do_call call_ref (PRef kH) [t]) (fun h => Ok (cflds n t ks, h))
  | Some INull => Ok (cflds n t ks, PNone)
  end.
Proof.
  intros kI kS kH n t ks i HI HS HH Hint Hg.
  cbn in HI, HS, HH. injection HI as <-. injection HS as <-. injection HH as <-.
  unfold getters_ok, column_vars in Hg.
  repeat match goal with H : Forall2 _ _ (_ :: _) |- _ => inversion H; clear H; subst end.
  match goal with H : Forall2 _ _ [] |- _ => inversion H; clear H; subst end.
  unfold getter_is in *. cbn -[do_call] in *|-.
  remember (do_call call_ref (PRef 8) [t]) as rh eqn:Eh in *.
  repeat match goal with H : _ = bind (do_call call_ref (PRef ?k) [PSelf]) _ |- _ =>
    let r := fresh "r" in let E := fresh "E" in
    remember (do_call call_ref (PRef k) [PSelf]) as r eqn:E in *
  end.
  cbn -[index_at do_call]. unfold do_call at 1. rewrite Hint. cbn -[index_at do_call].
  assert (Hc : i < -7 \/ 7 <= i \/ i = -7 \/ i = -6 \/ i = -5 \/ i = -4 \/ i = -3 \/ i = -2 \/ i = -1 \/
               i = 0 \/ i = 1 \/ i = 2 \/ i = 3 \/ i = 4 \/ i = 5 \/ i = 6) by lia.
  destruct Hc as [Hc|[Hc|Hc]].
  - rewrite index_at_oob, py_index_oob by (cbn; rewrite ?map_length; cbn; lia). reflexivity.
  - rewrite index_at_oob, py_index_oob by (cbn; rewrite ?map_length; cbn; lia). reflexivity.
  - repeat (destruct Hc as [->|Hc]); try subst i; cbn -[do_call Pos.to_nat];
      repeat match goal with |- context [Pos.to_nat ?p] =>
        let v := eval compute in (Pos.to_nat p) in change (Pos.to_nat p) with v end;
      cbn -[do_call];
      repeat match goal with E : ?r = do_call call_ref (PRef ?k) ?a |- context [do_call call_ref (PRef ?k) ?a] =>
        rewrite <- E end;
      repeat match goal with |- context [bind ?r _] => is_var r; destruct r; cbn in * end;
      congruence.
Qed.

End Tie.
