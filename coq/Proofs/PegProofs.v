(* C06: the generic PEG interpreter of Model/Peg.v implements a declarative big-step PEG
   semantics, for EVERY grammar value (hence for the one regenerated from bql.ebnf on every
   run), every lexical configuration, every semantic-action function, every expression,
   input, frame, seed environment, memo table and fuel.

   [sem g lc act sd it s f o]: under the seeds [sd], work item [it] applied to the input
   suffix [s] in frame [f] has outcome [o].  The relation has no fuel and no memo table:
   - ordered choice commits to the FIRST alternative that succeeds; a later alternative is
     tried only after a plain failure; a failure behind a cut (or a FailedCut from below)
     aborts the choice and every enclosing choice;
   - closures are greedy: the loop continues as long as one more element succeeds and
     advances, and stops without backtracking into earlier iterations; after a separator a
     failing element is a FailedCut;
   - a reference to a left-recursive rule yields the seed visible at that position, or grows
     one from Fail by re-running the rule body while it succeeds and advances;
   - seeds are visible at their own position only.

   Theorems: [interp_sound] (soundness, with the memo-table invariant), [sem_det]
   (the relation is deterministic), [interp_mono] (fuel monotonicity), and the corollary
   [interp_agree] (two fuels that both suffice give the same answer). *)
From Coq Require Import ZArith List Bool String FMapPositive Lia Arith.
Import ListNotations.
From Verif Require Import Model.Ast Model.Lexer Model.Grammar Model.Peg.
Local Open Scope list_scope.

Section Sem.
Variable g : grammar_t.
Variable lc : lexcfg.
Variable act : string -> list string -> node -> option node.

Inductive sem : seeds -> item -> str -> frame -> out -> Prop :=
(* tokens, patterns, constants, cut, void, end of text, {} *)
| S_leaf sd e s f : is_leaf e = true -> sem sd (IExp e) s f (leaf_step lc e s f)
(* sequence; at its end the keys it defines are filled in *)
| S_seq sd l s f o : sem sd (ISeq l) s f o -> sem sd (IExp (GSeq l)) s f (define_out (defines (GSeq l)) o)
| S_seq_nil sd s f : sem sd (ISeq []) s f (Ok s f false)
| S_seq_ok sd x l s f r1 f1 c1 o :
    sem sd (IExp x) s f (Ok r1 f1 c1) -> sem sd (ISeq l) r1 f1 o -> sem sd (ISeq (x :: l)) s f (or_cut c1 o)
| S_seq_ko sd x l s f o : sem sd (IExp x) s f o -> is_ok o = false -> sem sd (ISeq (x :: l)) s f o
(* ordered choice *)
| S_choice sd l s f o : sem sd (IAlts l) s f o -> sem sd (IExp (GChoice l)) s f o
| S_alts_nil sd s f : sem sd (IAlts []) s f (Fail false)
| S_alts_ok sd x l s f r1 f1 c1 :
    sem sd (IExp x) s (try_frame f) (Ok r1 f1 c1) -> sem sd (IAlts (x :: l)) s f (Ok r1 (merge_ast f f1) false)
| S_alts_next sd x l s f o :
    sem sd (IExp x) s (try_frame f) (Fail false) -> sem sd (IAlts l) s f o -> sem sd (IAlts (x :: l)) s f o
| S_alts_cut sd x l s f o :
    sem sd (IExp x) s (try_frame f) o -> is_cutfail o = true -> sem sd (IAlts (x :: l)) s f FailCut
(* optional, group, lookaheads, captures *)
| S_opt sd x s f o : sem sd (IExp x) s (try_frame f) o -> sem sd (IExp (GOpt x)) s f (opt_out s f o)
| S_group sd x s f o : sem sd (IExp x) s (grp_frame f) o -> sem sd (IExp (GGroup x)) s f (grp_out f o)
| S_look sd x s f o : sem sd (IExp x) s (look_frame f) o -> sem sd (IExp (GLook x)) s f (look_out s f o)
| S_nlook sd x s f o : sem sd (IExp x) s (look_frame f) o -> sem sd (IExp (GNLook x)) s f (nlook_out s f o)
| S_named sd e fl n x s f o :
    named_of e = Some (fl, n, x) -> sem sd (IExp x) s f o -> sem sd (IExp e) s f (named_out fl n o)
(* closure / gather / join: optional first element, then the loop *)
| S_clos sd e sep omit x s f o1 s' c1 o2 :
    clos_of e = Some (false, sep, omit, x) ->
    sem sd (IExp x) s (try_frame (clos_frame f)) o1 -> first_out s (clos_frame f) o1 = Some (s', c1) ->
    sem sd (IRep sep omit x) s' c1 o2 -> sem sd (IExp e) s f (close_out f false o2)
| S_clos_cut sd e sep omit x s f o1 :
    clos_of e = Some (false, sep, omit, x) ->
    sem sd (IExp x) s (try_frame (clos_frame f)) o1 -> first_out s (clos_frame f) o1 = None ->
    sem sd (IExp e) s f FailCut
(* positive closure / gather / join: mandatory first element, then the loop *)
| S_pclos sd e sep omit x s f r1 c1 c o2 :
    clos_of e = Some (true, sep, omit, x) ->
    sem sd (IExp x) s (grp_frame f) (Ok r1 c1 c) -> sem sd (IRep sep omit x) r1 (wrap_cst c1) o2 ->
    sem sd (IExp e) s f (close_out f c o2)
| S_pclos_ko sd e sep omit x s f o1 :
    clos_of e = Some (true, sep, omit, x) ->
    sem sd (IExp x) s (grp_frame f) o1 -> is_ok o1 = false -> sem sd (IExp e) s f o1
(* the loop with a separator: the separator is followed by an implicit cut *)
| S_rep_sep_stop sd sp omit x s f :
    sem sd (IExp sp) s (iso_frame (try_frame f)) (Fail false) -> sem sd (IRep (Some sp) omit x) s f (Ok s f false)
| S_rep_sep_cut sd sp omit x s f o :
    sem sd (IExp sp) s (iso_frame (try_frame f)) o -> is_cutfail o = true -> sem sd (IRep (Some sp) omit x) s f FailCut
| S_rep_sep_elt_ko sd sp omit x s f r1 i1 c1 o :
    sem sd (IExp sp) s (iso_frame (try_frame f)) (Ok r1 i1 c1) ->
    sem sd (IExp x) r1 (iso_frame (iso_merge omit (try_frame f) i1)) o -> is_ok o = false ->
    sem sd (IRep (Some sp) omit x) s f FailCut
| S_rep_sep_noprog sd sp omit x s f r1 i1 c1 r2 i2 c2 :
    sem sd (IExp sp) s (iso_frame (try_frame f)) (Ok r1 i1 c1) ->
    sem sd (IExp x) r1 (iso_frame (iso_merge omit (try_frame f) i1)) (Ok r2 i2 c2) ->
    Nat.ltb (List.length r2) (List.length s) = false ->
    sem sd (IRep (Some sp) omit x) s f FailCut
| S_rep_sep_more sd sp omit x s f r1 i1 c1 r2 i2 c2 o :
    sem sd (IExp sp) s (iso_frame (try_frame f)) (Ok r1 i1 c1) ->
    sem sd (IExp x) r1 (iso_frame (iso_merge omit (try_frame f) i1)) (Ok r2 i2 c2) ->
    Nat.ltb (List.length r2) (List.length s) = true ->
    sem sd (IRep (Some sp) omit x) r2 (merge_ast f (iso_merge false (iso_merge omit (try_frame f) i1) i2)) o ->
    sem sd (IRep (Some sp) omit x) s f o
(* the loop without a separator *)
| S_rep_stop sd omit x s f :
    sem sd (IExp x) s (iso_frame (try_frame f)) (Fail false) -> sem sd (IRep None omit x) s f (Ok s f false)
| S_rep_cut sd omit x s f o :
    sem sd (IExp x) s (iso_frame (try_frame f)) o -> is_cutfail o = true -> sem sd (IRep None omit x) s f FailCut
| S_rep_noprog sd omit x s f r2 i2 c2 :
    sem sd (IExp x) s (iso_frame (try_frame f)) (Ok r2 i2 c2) ->
    Nat.ltb (List.length r2) (List.length s) = false ->
    sem sd (IRep None omit x) s f (if c2 then FailCut else Ok s f false)
| S_rep_more sd omit x s f r2 i2 c2 o :
    sem sd (IExp x) s (iso_frame (try_frame f)) (Ok r2 i2 c2) ->
    Nat.ltb (List.length r2) (List.length s) = true ->
    sem sd (IRep None omit x) r2 (merge_ast f (iso_merge false (try_frame f) i2)) o ->
    sem sd (IRep None omit x) s f o
(* rule references *)
| S_ref_missing sd r s f : find_rule g r = None -> sem sd (IExp (GRef r)) s f (Fail false)
| S_ref_plain sd r rl s f o :
    find_rule g r = Some rl -> rule_lrec rl = false ->
    sem (filter_seeds (List.length s) sd) (IRule r) s fr0 o -> sem sd (IExp (GRef r)) s f (call_out f o)
| S_ref_lr_skipfail sd r rl s f :
    find_rule g r = Some rl -> rule_lrec rl = true -> rule_skip lc r s = None ->
    sem sd (IExp (GRef r)) s f (Fail false)
| S_ref_lr_seed sd r rl s s1 f o :
    find_rule g r = Some rl -> rule_lrec rl = true -> rule_skip lc r s = Some s1 ->
    seed_find (filter_seeds (List.length s1) sd) r = Some o -> sem sd (IExp (GRef r)) s f (call_out f o)
| S_ref_lr_grow sd r rl s s1 f o :
    find_rule g r = Some rl -> rule_lrec rl = true -> rule_skip lc r s = Some s1 ->
    seed_find (filter_seeds (List.length s1) sd) r = None ->
    sem (filter_seeds (List.length s1) sd) (IGrow r (Fail false) (S (List.length s1))) s1 fr0 o ->
    sem sd (IExp (GRef r)) s f (call_out f o)
(* one application of a rule body: skip blanks, run the body in a fresh frame, take the node,
   apply the semantic action and the @name check *)
| S_rule_missing sd r s f : find_rule g r = None -> sem sd (IRule r) s f (Fail false)
| S_rule_skipfail sd r rl s f : find_rule g r = Some rl -> rule_skip lc r s = None -> sem sd (IRule r) s f (Fail false)
| S_rule sd r rl s s1 f o :
    find_rule g r = Some rl -> rule_skip lc r s = Some s1 -> sem sd (IExp (rule_body rl)) s1 fr0 o ->
    sem sd (IRule r) s f (rule_out lc act r (rule_params rl) (rule_isname rl) o)
(* seed growing *)
| S_grow_more sd r cur lastlen s f rest rf c o :
    sem ((r, List.length s, cur) :: sd) (IRule r) s fr0 (Ok rest rf c) ->
    Nat.ltb (List.length rest) lastlen = true ->
    sem sd (IGrow r (Ok rest rf false) (List.length rest)) s fr0 o ->
    sem sd (IGrow r cur lastlen) s f o
| S_grow_noprog sd r cur lastlen s f rest rf c :
    sem ((r, List.length s, cur) :: sd) (IRule r) s fr0 (Ok rest rf c) ->
    Nat.ltb (List.length rest) lastlen = false ->
    sem sd (IGrow r cur lastlen) s f cur
| S_grow_fail sd r cur lastlen s f o :
    sem ((r, List.length s, cur) :: sd) (IRule r) s fr0 o -> is_ok o = false ->
    sem sd (IGrow r cur lastlen) s f cur.

Hint Constructors sem : peg.

(* ---------------------------------------------------------------------- *)
(* the memo table *)

Lemma str_eqb_true : forall a b, str_eqb a b = true -> a = b.
Proof.
  induction a as [|x a IH]; destruct b as [|y b]; simpl; intros H; try discriminate; auto.
  apply andb_true_iff in H. destruct H as [H1 H2]. apply Z.eqb_eq in H1. f_equal; auto.
Qed.

(* every cached result is what the semantics gives without any seed *)
Definition tbl_ok (tb : tbl) : Prop :=
  forall r s o, tbl_find tb r s = Some o -> sem [] (memo_item g r s) s fr0 o.

Lemma tbl_empty_ok : tbl_ok tbl_empty.
Proof. intros r s o H. unfold tbl_find, tbl_empty in H. rewrite PositiveMap.gempty in H. discriminate. Qed.

Lemma tbl_add_ok tb r s o : tbl_ok tb -> sem [] (memo_item g r s) s fr0 o -> tbl_ok (tbl_add tb r s o).
Proof.
  intros Hok Hs r' s' o' H. unfold tbl_find, tbl_add in H.
  destruct (Pos.eq_dec (tkey s') (tkey s)) as [E|E].
  - rewrite E, PositiveMap.gss in H. simpl in H.
    destruct (String.eqb r' r && str_eqb s' s) eqn:B.
    + apply andb_true_iff in B. destruct B as [B1 B2]. apply String.eqb_eq in B1. apply str_eqb_true in B2.
      inversion H. subst. exact Hs.
    + apply Hok. unfold tbl_find. rewrite E. destruct (PositiveMap.find (tkey s) tb); [exact H | discriminate].
  - rewrite PositiveMap.gso in H by exact E. apply Hok. exact H.
Qed.

(* ---------------------------------------------------------------------- *)
(* soundness *)

Ltac inv H := inversion H; subst; clear H.

Ltac use_ih IH :=
  match goal with
  | E : interp _ _ _ _ _ _ _ _ ?tb = Some _, Htb : tbl_ok ?tb |- _ =>
    let Hs := fresh "Hs" in let Ht := fresh "Ht" in
    destruct (IH _ _ _ _ _ _ _ Htb E) as [Hs Ht]; clear E
  end.

Ltac step IH H :=
  match type of H with
  | context [match interp g lc act ?fu ?a ?b ?c ?d ?e with _ => _ end] =>
    let E := fresh "E" in
    destruct (interp g lc act fu a b c d e) as [[? ?]|] eqn:E; [use_ih IH | discriminate H]
  | context [match ?x with _ => _ end] => destruct x eqn:?
  end.

Ltac fin :=
  first [ solve [eauto with peg]
        | solve [eapply S_clos; [reflexivity | eassumption | eassumption | eassumption]]
        | solve [eapply S_clos_cut; [reflexivity | eassumption | eassumption]]
        | solve [eapply S_pclos; [reflexivity | eassumption | eassumption]]
        | solve [eapply S_pclos_ko; [reflexivity | eassumption | reflexivity]]
        | solve [eapply S_named; [reflexivity | eassumption]] ].

Theorem interp_sound : forall fuel sd it s f tb o tb',
  tbl_ok tb -> interp g lc act fuel sd it s f tb = Some (o, tb') -> sem sd it s f o /\ tbl_ok tb'.
Proof.
  induction fuel as [|fuel IH]; intros sd it s f tb o tb' Htb H; [discriminate|].
  simpl in H. unfold stepF in H. destruct it as [e|l|l|sep omit x|r|r cur lastlen].
  - (* IExp *)
    destruct e; try (inv H; split; [apply S_leaf; reflexivity | assumption]).
    + (* GRef *)
      destruct (find_rule g s0) as [rl|] eqn:Hf; [|inv H; split; eauto with peg].
      destruct (rule_lrec rl) eqn:Hl.
      * destruct (rule_skip lc s0 s) as [s1|] eqn:Hsk; [|inv H; split; eauto with peg].
        cbv zeta in H.
        destruct (seed_find (filter_seeds (List.length s1) sd) s0) as [os|] eqn:Hsd; [inv H; split; eauto with peg|].
        destruct (filter_seeds (List.length s1) sd) as [|p sd1] eqn:Hfs.
        -- destruct (tbl_find tb s0 s1) as [om|] eqn:Hm.
           ++ inv H. split; [|assumption]. apply Htb in Hm. unfold memo_item in Hm. rewrite Hf, Hl in Hm.
              eapply S_ref_lr_grow; eauto; rewrite Hfs; assumption.
           ++ step IH H. inv H. split.
              ** eapply S_ref_lr_grow; eauto; rewrite Hfs; assumption.
              ** apply tbl_add_ok; [assumption|]. unfold memo_item. rewrite Hf, Hl. exact Hs.
        -- step IH H. inv H. split; [|assumption]. eapply S_ref_lr_grow; eauto; rewrite Hfs; assumption.
      * destruct (filter_seeds (List.length s) sd) as [|p sd1] eqn:Hfs.
        -- destruct (tbl_find tb s0 s) as [om|] eqn:Hm.
           ++ inv H. split; [|assumption]. apply Htb in Hm. unfold memo_item in Hm. rewrite Hf, Hl in Hm.
              eapply S_ref_plain; eauto; rewrite Hfs; assumption.
           ++ step IH H. inv H. split.
              ** eapply S_ref_plain; eauto; rewrite Hfs; assumption.
              ** apply tbl_add_ok; [assumption|]. unfold memo_item. rewrite Hf, Hl. exact Hs.
        -- step IH H. inv H. split; [|assumption]. eapply S_ref_plain; eauto; rewrite Hfs; assumption.
    + (* GSeq *) step IH H. inv H. split; [exact (S_seq _ _ _ _ _ Hs) | assumption].
    + (* GChoice *) destruct (IH _ _ _ _ _ _ _ Htb H) as [Hs Ht]. split; eauto with peg.
    + (* GOpt *) step IH H. inv H. split; eauto with peg.
    + (* GClos *) simpl in H. repeat step IH H; inv H; split; try assumption; fin.
    + (* GPClos *) simpl in H. repeat step IH H; inv H; split; try assumption; fin.
    + (* GGather *) simpl in H. destruct positive; repeat step IH H; inv H; split; try assumption; fin.
    + (* GJoin *) simpl in H. destruct positive; repeat step IH H; inv H; split; try assumption; fin.
    + (* GNamed *) simpl in H. step IH H. inv H. split; try assumption; fin.
    + simpl in H. step IH H. inv H. split; try assumption; fin.
    + simpl in H. step IH H. inv H. split; try assumption; fin.
    + simpl in H. step IH H. inv H. split; try assumption; fin.
    + (* GLook *) step IH H. inv H. split; eauto with peg.
    + step IH H. inv H. split; eauto with peg.
    + (* GGroup *) step IH H. inv H. split; eauto with peg.
  - (* ISeq *)
    destruct l as [|x l]; [inv H; split; eauto with peg|].
    step IH H. destruct o0 as [r1 f1 c1|c1|].
    + step IH H. inv H. split; eauto with peg.
    + inv H. split; eauto with peg.
    + inv H. split; eauto with peg.
  - (* IAlts *)
    destruct l as [|x l]; [inv H; split; eauto with peg|].
    step IH H. destruct o0 as [r1 f1 c1|[|]|].
    + inv H. split; eauto with peg.
    + inv H. split; eauto with peg.
    + destruct (IH _ _ _ _ _ _ _ Ht H) as [Hs2 Ht2]. split; eauto with peg.
    + inv H. split; eauto with peg.
  - (* IRep *)
    cbv zeta in H. destruct sep as [sp|].
    + step IH H. destruct o0 as [r1 i1 c1|[|]|].
      * step IH H. destruct o0 as [r2 i2 c2|c2|].
        -- destruct (Nat.ltb (List.length r2) (List.length s)) eqn:Hlt.
           ++ destruct (IH _ _ _ _ _ _ _ Ht0 H) as [Hs2 Ht2]. split; eauto with peg.
           ++ inv H. split; eauto with peg.
        -- inv H. split; eauto with peg.
        -- inv H. split; eauto with peg.
      * inv H. split; eauto with peg.
      * inv H. split; eauto with peg.
      * inv H. split; eauto with peg.
    + step IH H. destruct o0 as [r2 i2 c2|[|]|].
      * destruct (Nat.ltb (List.length r2) (List.length s)) eqn:Hlt.
        -- destruct (IH _ _ _ _ _ _ _ Ht H) as [Hs2 Ht2]. split; eauto with peg.
        -- inv H. split; eauto with peg.
      * inv H. split; eauto with peg.
      * inv H. split; eauto with peg.
      * inv H. split; eauto with peg.
  - (* IRule *)
    destruct (find_rule g r) as [rl|] eqn:Hf; [|inv H; split; eauto with peg].
    destruct (rule_skip lc r s) as [s1|] eqn:Hsk; [|inv H; split; eauto with peg].
    step IH H. inv H. split; eauto with peg.
  - (* IGrow *)
    step IH H. destruct o0 as [rest rf c|c|].
    + destruct (Nat.ltb (List.length rest) lastlen) eqn:Hlt.
      * destruct (IH _ _ _ _ _ _ _ Ht H) as [Hs2 Ht2]. split; eauto with peg.
      * inv H. split; eauto with peg.
    + inv H. split; eauto with peg.
    + inv H. split; eauto with peg.
Qed.

(* ---------------------------------------------------------------------- *)
(* fuel monotonicity *)

Definition R_le (r1 r2 : R) : Prop :=
  forall sd it s f tb x, r1 sd it s f tb = Some x -> r2 sd it s f tb = Some x.

Ltac mstep r1 Hle H :=
  match type of H with
  | context [r1 ?a ?b ?c ?d ?e] =>
    let E := fresh "E" in
    destruct (r1 a b c d e) as [[? ?]|] eqn:E; [try rewrite (Hle _ _ _ _ _ _ E) | discriminate H]
  | context [match ?x with _ => _ end] => destruct x eqn:?
  end.

Lemma stepF_mono r1 r2 : R_le r1 r2 -> R_le (stepF g lc act r1) (stepF g lc act r2).
Proof.
  intros Hle sd it s f tb x H. unfold stepF in *. cbv zeta in *.
  destruct it as [e|l|l|sep omit x0|r|r cur lastlen]; [destruct e| | | | |];
    repeat mstep r1 Hle H; try assumption; try discriminate; try (apply Hle; assumption).
Qed.

Theorem interp_mono : forall f1 f2, f1 <= f2 -> R_le (interp g lc act f1) (interp g lc act f2).
Proof.
  induction f1 as [|f1 IH]; intros f2 Hle; [intros sd it s f tb x H; discriminate|].
  destruct f2 as [|f2]; [lia|]. simpl. apply stepF_mono. apply IH. lia.
Qed.

(* ---------------------------------------------------------------------- *)
(* the relation is deterministic *)

Ltac same_some :=
  repeat match goal with
  | H : Some _ = Some _ |- _ => inversion H; subst; clear H
  | H1 : ?a = Some _, H2 : ?a = Some _ |- _ => rewrite H1 in H2; inversion H2; subst; clear H2
  | H1 : ?a = Some _, H2 : ?a = None |- _ => rewrite H1 in H2; discriminate H2
  | H1 : ?a = true, H2 : ?a = false |- _ => rewrite H1 in H2; discriminate H2
  end.

Ltac det_ih :=
  repeat match goal with
  | IH : forall o, sem ?sd ?it ?s ?f o -> ?x = o, H : sem ?sd ?it ?s ?f ?y |- _ =>
    tryif constr_eq x y then fail else idtac;
    let E := fresh "E" in
    assert (E : x = y) by (apply IH; exact H); clear H;
    first [ discriminate E | injection E; intros; subst; try clear E | subst ]
  end.

Ltac det_fin := do 4 (same_some; det_ih); same_some; try reflexivity; try discriminate; try (simpl in *; congruence).

Theorem sem_det : forall sd it s f o1, sem sd it s f o1 -> forall o2, sem sd it s f o2 -> o1 = o2.
Proof.
  induction 1; intros o2' Hsnd;
    try (destruct e; simpl in *; try discriminate);
    inversion Hsnd; subst; simpl in *; try discriminate; det_fin.
Qed.

(* two runs that both have enough fuel agree *)
Corollary interp_agree : forall f1 f2 sd it s f tb x1 x2,
  interp g lc act f1 sd it s f tb = Some x1 -> interp g lc act f2 sd it s f tb = Some x2 -> x1 = x2.
Proof.
  intros f1 f2 sd it s f tb x1 x2 H1 H2.
  apply (interp_mono f1 (Nat.max f1 f2)) in H1; [|lia].
  apply (interp_mono f2 (Nat.max f1 f2)) in H2; [|lia]. congruence.
Qed.

End Sem.

(* ---------------------------------------------------------------------- *)
(* consequences for [peg_run] *)

Theorem peg_run_accept_sound : forall g act cs n,
  peg_run g act cs = Some (Some n) ->
  exists r0 rules rest f c,
    snd g = r0 :: rules /\ f_last f = n /\
    sem g (cfg_of g) act [] (IExp (GRef (rule_name r0))) cs fr0 (Ok rest f c).
Proof.
  intros g act cs n H. unfold peg_run in H. destruct (snd g) as [|r0 rules] eqn:Hr; [discriminate|].
  destruct (interp g (cfg_of g) act (fuel_of cs) [] (IExp (GRef (rule_name r0))) cs fr0 tbl_empty)
    as [[o tb]|] eqn:E; [|discriminate].
  destruct (interp_sound g (cfg_of g) act _ _ _ _ _ _ _ _ (tbl_empty_ok g (cfg_of g) act) E) as [Hs _].
  destruct o as [rest f c| |]; try discriminate. inversion H. subst.
  exists r0, rules, rest, f, c. auto.
Qed.

(* a rejected text has no successful derivation at all (soundness + determinism) *)
Theorem peg_run_reject_sound : forall g act cs r0 rules,
  snd g = r0 :: rules -> peg_run g act cs = Some None ->
  forall rest f c, ~ sem g (cfg_of g) act [] (IExp (GRef (rule_name r0))) cs fr0 (Ok rest f c).
Proof.
  intros g act cs r0 rules Hr H rest f c Hs. unfold peg_run in H. rewrite Hr in H.
  destruct (interp g (cfg_of g) act (fuel_of cs) [] (IExp (GRef (rule_name r0))) cs fr0 tbl_empty)
    as [[o tb]|] eqn:E; [|discriminate].
  destruct (interp_sound g (cfg_of g) act _ _ _ _ _ _ _ _ (tbl_empty_ok g (cfg_of g) act) E) as [Hs' _].
  pose proof (sem_det g (cfg_of g) act _ _ _ _ _ Hs _ Hs') as Eo. subst o. discriminate.
Qed.

(* ---------------------------------------------------------------------- *)
(* Agreement of the PEG interpreter on the REGENERATED grammar with the hand-written parser.

   FULL STATEMENT (not proved):
     forall s : stmt, wf_stmt s = true ->
       peg_parse (render (print_stmt s)) = parse_text (render (print_stmt s))
   (hence = Some (stmt_erase s) by C06_stmt_roundtrip and the lexer round trip), and the same for
   every admissible spelling of the printed tokens.
   What is missing: an induction over ALL well-formed trees through the generic interpreter
   (memo table, seed growing, fuel bound) specialised to the 64 rules of the grammar value; the
   general facts it would rest on (soundness, determinism, fuel monotonicity) are proved above.

   PROVED ([peg_agrees_partial]): the statement for every tree of the finite domain [peg_domain]:
   SELECT <e> WHERE <e> for e = every leaf kind, every operator over leaves, and every parent-operator x
   child (one per precedence class) x operand-position combination of depth 2,
   by evaluating both parsers inside the kernel on the whole domain. *)
From Verif Require Import Model.Parser Model.Printer Model.PegActions.
From Verif Require Gen.Grammar.

Definition dS (s : string) : str := str_of_string s.
Definition d_leaves : list expr :=
  [EColumn (dS "a"); EConst (LInt 1); EConst (LStr (dS "x y")); EConst LNull; EConst (LBool true);
   EConst (LBool false); EConst (LDec 15 1); EConst (LDate 2020 1 2); EList [LInt 1; LNull; LStr (dS "q")];
   EFuncStar (dS "count"); EPlace []; EPlace (dS "p")].
Definition d_unary : list (expr -> expr) :=
  [ENeg; ENot; EIsNull; EIsNotNull; (fun a => EAttr a (dS "b")); (fun a => ESubscript a (dS "k"));
   EParen; EUPlus; (fun a => EFunc (dS "f") [a])].
Definition d_binary : list (expr -> expr -> expr) :=
  map EArith [Add; Sub; Mul; Div; Mod]
  ++ map ECmp [Lt; Le; Gt; Ge; Eq; Ne; In; NotIn; Match; NotMatch]
  ++ [(fun a b => EAnd [a; b]); (fun a b => EOr [a; b]); (fun a b => EBetween a b a);
      (fun a b => EFunc (dS "g") [a; b])].
Definition d_children : list expr :=
  d_leaves ++ map (fun u => u (EColumn (dS "a"))) d_unary
           ++ map (fun b => b (EColumn (dS "a")) (EConst (LInt 1))) d_binary.
(* one child per precedence class of the grammar, and four kinds of leaves *)
Definition d_kids : list expr :=
  [EColumn (dS "a"); EConst (LInt 1); EConst (LStr (dS "x y")); EList [LInt 1; LNull; LStr (dS "q")]]
  ++ map (fun u => u (EColumn (dS "a"))) [ENeg; ENot; EIsNull; (fun a => EAttr a (dS "b")); EParen; EUPlus;
                                          (fun a => EFunc (dS "f") [a])]
  ++ map (fun b => b (EColumn (dS "a")) (EConst (LInt 1)))
         [EArith Add; EArith Sub; EArith Mul; EArith Mod; ECmp Lt; ECmp In; ECmp NotIn;
          (fun a b => EAnd [a; b]); (fun a b => EOr [a; b]); (fun a b => EBetween a b a)].
Definition d_exprs : list expr :=
  d_children
  ++ flat_map (fun u => map u d_kids) d_unary
  ++ flat_map (fun b => flat_map (fun c => [b c (EColumn (dS "z")); b (EConst (LInt 2)) c]) d_kids) d_binary.
Definition d_stmt (e : expr) : stmt :=
  SSelect (ESelect false (Some [(e, None)]) None (Some e) None [] None None).
Definition peg_domain : list stmt :=
  filter (fun s => wf_stmt s && lex_ok (print_stmt s)) (map d_stmt d_exprs).
Definition d_text (s : stmt) : str := render (print_stmt s).

Lemma map_eq_pointwise {A B} (f h : A -> B) (l : list A) :
  map f l = map h l -> forall x, List.In x l -> f x = h x.
Proof.
  induction l as [|a l IH]; simpl; intros E x Hin; [contradiction|].
  inversion E. destruct Hin as [<-|Hin]; auto.
Qed.

Lemma peg_domain_size : List.length peg_domain = 981%nat.
Proof. vm_compute. reflexivity. Qed.

Lemma peg_domain_peg : map (fun s => peg_parse (d_text s)) peg_domain = map (fun s => Some (stmt_erase s)) peg_domain.
Proof. vm_cast_no_check (eq_refl (map (fun s => Some (stmt_erase s)) peg_domain)). Qed.

Lemma peg_domain_hand : map (fun s => parse_text (d_text s)) peg_domain = map (fun s => Some (stmt_erase s)) peg_domain.
Proof. vm_cast_no_check (eq_refl (map (fun s => Some (stmt_erase s)) peg_domain)). Qed.

Theorem peg_agrees_partial : forall s, List.In s peg_domain ->
  peg_parse (render (print_stmt s)) = parse_text (render (print_stmt s))
  /\ peg_parse (render (print_stmt s)) = Some (stmt_erase s).
Proof.
  intros s Hin.
  pose proof (map_eq_pointwise _ _ _ peg_domain_peg s Hin) as H1.
  pose proof (map_eq_pointwise _ _ _ peg_domain_hand s Hin) as H2.
  cbv beta in H1, H2. unfold d_text in H1, H2. split; congruence.
Qed.

(* what [peg_parse] returns is the statement of the node that the declarative semantics assigns to
   the start rule of the REGENERATED grammar, under the BQL actions *)
Theorem peg_parse_sound : forall cs st,
  peg_parse cs = Some st ->
  exists rest f c,
    sem Gen.Grammar.grammar (cfg_of Gen.Grammar.grammar) bql_act [] (IExp (GRef "bql")) cs fr0 (Ok rest f c)
    /\ to_stmt (conv_fuel cs) (f_last f) = Some st.
Proof.
  intros cs st H. unfold peg_parse, peg_parse_with in H.
  destruct (peg_run Gen.Grammar.grammar bql_act cs) as [[n|]|] eqn:E; try discriminate.
  apply peg_run_accept_sound in E. destruct E as (r0 & rules & rest & f & c & Hr & Hl & Hs).
  exists rest, f, c. subst n. split; [|exact H].
  cbv [snd Gen.Grammar.grammar] in Hr. injection Hr as <- _. exact Hs.
Qed.

Theorem peg_parse_reject_sound : forall cs,
  peg_run Gen.Grammar.grammar bql_act cs = Some None ->
  forall rest f c,
    ~ sem Gen.Grammar.grammar (cfg_of Gen.Grammar.grammar) bql_act [] (IExp (GRef "bql")) cs fr0 (Ok rest f c).
Proof.
  intros cs H. eapply (peg_run_reject_sound Gen.Grammar.grammar bql_act cs _ _ eq_refl H).
Qed.
