(* Tie by translation (C16): query_render.render_csv (Gen/SrcRender.v render_csv_fn).  The translated function builds
   the RenderContext (spaced=False, listsep=','), one renderer per column, feeds every non-NULL cell to its column's
   renderer in row order, calls prepare, and writes the header record and one csv record per line of render_rows. *)
From Coq Require Import String ZArith List Bool Lia Arith.
Import ListNotations.
From Verif Require Import Base.PyValue Model.Eval Model.PyMini Model.Render Model.PrimsRender Gen.SrcRender
  Proofs.PyMiniLemmas Proofs.PyMiniLemmas2 Proofs.SrcRenderTop.
Open Scope string_scope.
Open Scope Z_scope.
Open Scope list_scope.

Ltac step_env := repeat (rewrite ?lookup_update_eq; rewrite ?lookup_update_neq by reflexivity).

(* what the priming loop does to the renderers' histories for one row (zip: the shorter of row / renderers) *)
Definition upd1 (tv : dtype * list cellv) (c : cellv) : dtype * list cellv :=
  (fst tv, match c with CNull => snd tv | _ => snd tv ++ [c] end).
Fixpoint updz (tvs : list (dtype * list cellv)) (r : list cellv) : list (dtype * list cellv) :=
  match tvs, r with
  | tv :: t, c :: r' => upd1 tv c :: updz t r'
  | _, _ => []
  end.
Definition upd (tvs : list (dtype * list cellv)) (r : list cellv) : list (dtype * list cellv) :=
  updz tvs r ++ skipn (length (updz tvs r)) tvs.

Lemma updz_length tvs : forall r, (length (updz tvs r) <= length tvs)%nat.
Proof. induction tvs as [|tv t IH]; intros [|c r]; cbn; try lia. specialize (IH r). lia. Qed.

Lemma slice_from {A} (l : list A) (k : nat) : (k <= length l)%nat -> slice_list l (Some (Z.of_nat k)) None = skipn k l.
Proof.
  intros H. unfold slice_list, clipz.
  assert (E : (Z.of_nat k <? 0) = false) by (apply Z.ltb_ge; lia). rewrite E.
  rewrite Z.min_l by lia. rewrite Nat2Z.id. apply firstn_all2. rewrite skipn_length. lia.
Qed.

Section Csv.
Variable call_ref : nat -> list pv -> pv.
Variable quant : dec -> str -> dec.
Variable numfmt : list (dec * str) -> dec -> str -> str.
Notation PT := (prims_top quant numfmt).
Variables (dc : pv) (ex : bool) (nl : str).
Definition oc : opts := mkopts false false false ex true nl [44].
Notation ctx := (enc_ctx dc oc).
Notation rnd := (rend dc oc).

Definition res_val (r : res pv) : pv := match r with Ok v => v | Exc k => PV (VErr k) | Stuck => PV (VErr 0) end.
Hypothesis Hget : forall t c, call_ref 0 [enc_rdtype t; c] = robj t c [].
Hypothesis Hrr : forall a b c, call_ref 1 [a; b; c] = res_val (call_function call_ref PT render_rows_fn [a; b; c]).

Definition csv_loop : list stmt := Eval cbv in match nth 3 (f_body render_csv_fn) SPass with SFor _ _ b => b | _ => [] end.
Definition csv_inner : list stmt := Eval cbv in match nth 1 csv_loop SPass with SForUnpack _ _ b => b | _ => [] end.

Lemma csv_loop_shape : csv_loop =
  [SAssign (TName "$new") (XList []);
   SForUnpack ["value"; "renderer"] (XPrim "builtins.zip" [XName "row"; XName "renderers"]) csv_inner;
   SAssign (TName "renderers") (XBin OAdd (XName "$new") (XSlice (XName "renderers") (Some (XLen (XName "$new"))) None))].
Proof. reflexivity. Qed.

Local Arguments enc_rcell : simpl never.
Local Arguments pv_is_none : simpl never.
Local Arguments rend : simpl never.
Local Arguments for_unpack_loop : simpl never.

Lemma fu_cons body xs s v t :
  for_unpack_loop call_ref PT body xs s (v :: t) =
  bind (unpack_names s xs v) (fun sv => bind (PyMini.exec_block call_ref PT sv body)
    (fun o => match o with Next s1 => for_unpack_loop call_ref PT body xs s1 t | Ret _ _ => Ok o end)).
Proof. reflexivity. Qed.

Lemma update_prim tv c : c <> CNull ->
  PT "method:update" [rnd tv; enc_rcell c] = Ok (PTuple [rnd (upd1 tv c); PNone]).
Proof.
  intros Hc. unfold rend, robj, upd1. destruct c; try congruence; cbn -[enc_rcell]; rewrite map_app; reflexivity.
Qed.

Lemma update_call tv c : c <> CNull ->
  method_call PT "update" (rnd tv) [enc_rcell c] = Ok (rnd (upd1 tv c), PNone).
Proof.
  intros Hc. pose proof (update_prim tv c Hc) as E. unfold rend in *. unfold robj at 1. unfold robj at 1 in E.
  cbn -[prims_top enc_rcell robj]. rewrite E. reflexivity.
Qed.

Lemma prime_inner : forall tvs r loc acc, lookup "$new" loc = Some (PList acc) ->
  exists loc',
  for_unpack_loop call_ref PT csv_inner ["value"; "renderer"] {| locals := loc; fields := [] |}
    (zip2 (map enc_rcell r) (map rnd tvs)) = Ok (Next {| locals := loc'; fields := [] |}) /\
  lookup "$new" loc' = Some (PList (acc ++ map rnd (updz tvs r))) /\
  (forall x, String.eqb x "$new" = false -> String.eqb x "value" = false -> String.eqb x "renderer" = false ->
             lookup x loc' = lookup x loc).
Proof.
  induction tvs as [|tv tvs IH]; intros r loc acc Hn.
  - exists loc. destruct r; cbn [map zip2 updz]; rewrite app_nil_r; repeat split; auto.
  - destruct r as [|c r].
    + exists loc. cbn [map zip2 updz]. rewrite app_nil_r. repeat split; auto.
    + cbn [map zip2 updz]. rewrite fu_cons. unfold csv_inner at 1.
      repeat (progress (cbn -[for_unpack_loop]; step_env; rewrite ?is_none_enc; change (pv_is_none (PV VNull)) with true)).
      destruct (match c with CNull => true | _ => false end) eqn:Ec.
      * destruct c; try discriminate.
        repeat (progress (cbn -[for_unpack_loop]; step_env; rewrite ?Hn)).
        match goal with |- context [for_unpack_loop _ _ _ _ {| locals := ?L; fields := _ |} _] =>
          destruct (IH r L (acc ++ [rnd (upd1 tv CNull)])) as [loc' [E [Hn' Hf]]] end.
        { unfold upd1. destruct tv. apply lookup_update_eq. }
        exists loc'. split; [exact E|]. split; [rewrite Hn', <- app_assoc; reflexivity|].
        intros x H1 H2 H3. rewrite (Hf x H1 H2 H3). rewrite lookup_update_neq by exact H1.
        rewrite lookup_update_neq by exact H3. apply lookup_update_neq. exact H2.
      * assert (Hc : c <> CNull) by (intros ->; discriminate).
        repeat (progress (cbn -[for_unpack_loop prims_top]; step_env; rewrite ?Hn, ?(update_call tv c Hc))).
        match goal with |- context [for_unpack_loop _ _ _ _ {| locals := ?L; fields := _ |} _] =>
          destruct (IH r L (acc ++ [rnd (upd1 tv c)])) as [loc' [E [Hn' Hf]]] end.
        { apply lookup_update_eq. }
        exists loc'. split; [exact E|]. split; [rewrite Hn', <- app_assoc; reflexivity|].
        intros x H1 H2 H3. rewrite (Hf x H1 H2 H3). rewrite lookup_update_neq by exact H1.
        rewrite lookup_update_neq by exact H3. rewrite lookup_update_neq by exact H3. apply lookup_update_neq. exact H2.
Qed.

(* the priming loop body for one row: every renderer zipped with a non-NULL cell has seen that cell, the others are
   untouched, the list keeps its order and length *)
Lemma prime_row tvs r loc : lookup "renderers" loc = Some (PList (map rnd tvs)) ->
  exists loc',
  PyMini.exec_block call_ref PT (write {| locals := loc; fields := [] |} (TName "row") (enc_rrow r)) csv_loop =
  Ok (Next {| locals := loc'; fields := [] |}) /\
  lookup "renderers" loc' = Some (PList (map rnd (upd tvs r))) /\
  (forall x, String.eqb x "$new" = false -> String.eqb x "value" = false -> String.eqb x "renderer" = false ->
             String.eqb x "renderers" = false -> String.eqb x "row" = false -> lookup x loc' = lookup x loc).
Proof.
  intros Hr. rewrite csv_loop_shape. cbn [write locals fields]. rewrite exec_block_cons.
  cbn [PyMini.exec PyMini.eval bind write locals fields]. rewrite exec_block_cons.
  erewrite (exec_for_unpack call_ref PT _ _ csv_inner _ _ (zip2 (map enc_rcell r) (map rnd tvs))).
  2:{ repeat (progress (cbn; step_env; rewrite ?Hr)). reflexivity. }
  match goal with |- context [for_unpack_loop _ _ _ _ {| locals := ?L; fields := _ |} _] =>
    destruct (prime_inner tvs r L []) as [loc1 [E1 [Hn1 Hf1]]] end.
  { apply lookup_update_eq. }
  rewrite E1. cbn [bind app]. rewrite exec_block_cons.
  assert (Hr1 : lookup "renderers" loc1 = Some (PList (map rnd tvs))) by (rewrite Hf1 by reflexivity; step_env; exact Hr).
  erewrite exec_assign.
  2:{ cbn -[slice_list Z.of_nat]. rewrite Hn1. cbn -[slice_list Z.of_nat]. rewrite Hr1. cbn -[slice_list Z.of_nat]. rewrite Hn1.
      cbn -[slice_list Z.of_nat]. rewrite slice_from by (rewrite !map_length; apply updz_length). reflexivity. }
  cbn [bind write locals fields]. rewrite exec_block_nil.
  eexists. split; [reflexivity|]. split.
  - rewrite lookup_update_eq. unfold upd. rewrite map_app, !map_length, skipn_map. reflexivity.
  - intros x H1 H2 H3 H4 H5. rewrite lookup_update_neq by exact H4. rewrite Hf1 by assumption.
    rewrite lookup_update_neq by exact H1. apply lookup_update_neq. exact H5.
Qed.
End Csv.
