(* Tie by translation (C16): query_render.render_csv (Gen/SrcRender.v render_csv_fn).  The translated function builds
   the RenderContext (spaced=False, listsep=','), one renderer per column, feeds every non-NULL cell to its column's
   renderer in row order, calls prepare, and writes the header record and one csv record per line of render_rows. *)
From Coq Require Import String ZArith List Bool Lia Arith.
Import ListNotations.
From Verif Require Import Base.PyValue Model.Eval Model.PyMini Model.Render Model.PrimsRender Gen.SrcRender
  Proofs.PyMiniLemmas Proofs.PyMiniLemmas2 Proofs.SrcRenderTop.
Open Scope string_scope.
Open Scope Z_scope.
Open Scope list_scope.

Ltac step_env := repeat (rewrite ?lookup_update_eq; rewrite ?lookup_update_neq by reflexivity).

(* what the priming loop does to the renderers' histories for one row (zip: the shorter of row / renderers) *)
Definition upd1 (tv : dtype * list cellv) (c : cellv) : dtype * list cellv :=
  (fst tv, match c with CNull => snd tv | _ => snd tv ++ [c] end).
Fixpoint updz (tvs : list (dtype * list cellv)) (r : list cellv) : list (dtype * list cellv) :=
  match tvs, r with
  | tv :: t, c :: r' => upd1 tv c :: updz t r'
  | _, _ => []
  end.
Definition upd (tvs : list (dtype * list cellv)) (r : list cellv) : list (dtype * list cellv) :=
  updz tvs r ++ skipn (length (updz tvs r)) tvs.

Lemma updz_length tvs : forall r, (length (updz tvs r) <= length tvs)%nat.
Proof. induction tvs as [|tv t IH]; intros [|c r]; cbn; try lia. specialize (IH r). lia. Qed.

Lemma slice_from {A} (l : list A) (k : nat) : (k <= length l)%nat -> slice_list l (Some (Z.of_nat k)) None = skipn k l.
Proof.
  intros H. unfold slice_list, clipz.
  assert (E : (Z.of_nat k <? 0) = false) by (apply Z.ltb_ge; lia). rewrite E.
  rewrite Z.min_l by lia. rewrite Nat2Z.id. apply firstn_all2. rewrite skipn_length. lia.
Qed.

(* ---- upd over all rows = Render.column *)
Lemma upd_cons tv t c r : upd (tv :: t) (c :: r) = upd1 tv c :: upd t r.
Proof. reflexivity. Qed.
Lemma upd_nil_r tvs : upd tvs [] = tvs.
Proof. destruct tvs; reflexivity. Qed.
Lemma upd_nil_l r : upd [] r = [].
Proof. reflexivity. Qed.

Definition cell_at (r : list cellv) (i : nat) : list cellv := match nth_error r i with Some v => [v] | None => [] end.

Lemma non_null_one c : non_null [c] = match c with CNull => [] | _ => [c] end.
Proof. destruct c; reflexivity. Qed.

Lemma upd_nth d : forall tvs r, length (upd tvs r) = length tvs /\
  forall i, (i < length tvs)%nat ->
    nth i (upd tvs r) d = (fst (nth i tvs d), snd (nth i tvs d) ++ non_null (cell_at r i)).
Proof.
  induction tvs as [|tv t IH]; intros r.
  - split; [reflexivity|]. intros i H. cbn in H. lia.
  - destruct r as [|c r].
    + rewrite upd_nil_r. split; [reflexivity|]. intros i H. unfold cell_at. destruct i; cbn [nth_error non_null filter];
        rewrite app_nil_r; apply surjective_pairing.
    + rewrite upd_cons. destruct (IH r) as [L N]. split; [cbn; now rewrite L|].
      intros [|i] H.
      * cbn [nth]. unfold upd1, cell_at. cbn [nth_error]. rewrite non_null_one. destruct c; try reflexivity.
        now rewrite app_nil_r.
      * cbn [nth]. cbn in H. rewrite N by lia. reflexivity.
Qed.

Lemma column_cons i r rows : column i (r :: rows) = non_null (cell_at r i) ++ column i rows.
Proof. unfold column, non_null, cell_at. cbn [flat_map]. apply filter_app. Qed.

Lemma fold_upd_nth d : forall rows tvs, length (fold_left upd rows tvs) = length tvs /\
  forall i, (i < length tvs)%nat ->
    nth i (fold_left upd rows tvs) d = (fst (nth i tvs d), snd (nth i tvs d) ++ column i rows).
Proof.
  induction rows as [|r rows IH]; intros tvs.
  - split; [reflexivity|]. intros i H. cbn [fold_left]. unfold column. cbn. rewrite app_nil_r. apply surjective_pairing.
  - cbn [fold_left]. destruct (IH (upd tvs r)) as [L N]. destruct (upd_nth d tvs r) as [L1 N1].
    split; [now rewrite L|]. intros i H. rewrite N by (rewrite L1; exact H). rewrite N1 by exact H.
    cbn [fst snd]. rewrite column_cons, app_assoc. reflexivity.
Qed.

Lemma map2_length {A B C} (g : A -> B -> C) : forall la lb, length la = length lb -> length (map2 g la lb) = length lb.
Proof. induction la as [|a la IH]; intros [|b lb] H; cbn in *; try lia. now rewrite IH by lia. Qed.

Lemma map2_seq_nth {B C} (g : nat -> B -> C) db dc : forall (l : list B) k i, (i < length l)%nat ->
  nth i (map2 g (seq k (length l)) l) dc = g (k + i)%nat (nth i l db).
Proof.
  induction l as [|b l IH]; intros k i H; cbn in H; [lia|]. cbn [length seq map2].
  destruct i as [|i]; cbn [nth]; [now rewrite Nat.add_0_r|]. rewrite IH by lia. f_equal. lia.
Qed.

Lemma col_states_fold quant o (desc : list (str * dtype)) rows :
  map (rstate_of quant o) (fold_left upd rows (map (fun d => (snd d, [])) desc)) = col_states quant o desc rows.
Proof.
  set (tvs0 := map (fun d : str * dtype => (snd d, @nil cellv)) desc).
  destruct (fold_upd_nth (TObject, []) rows tvs0) as [L N].
  assert (L0 : length tvs0 = length desc) by (unfold tvs0; apply map_length).
  unfold col_states.
  apply (nth_ext _ _ (rstate_of quant o (TObject, [])) (TObject, SPlain 0)).
  - rewrite map_length, L, L0. symmetry. apply map2_length. apply seq_length.
  - intros i H. rewrite map_length, L, L0 in H.
    rewrite (map_nth (rstate_of quant o)). rewrite N by (rewrite L0; exact H).
    rewrite (map2_seq_nth (fun i (d : str * dtype) => (snd d, col_prepare quant o (snd d) (column i rows)))
               ((@nil Z, TObject) : str * dtype) (TObject, SPlain 0) desc 0 i H). cbn [Nat.add].
    unfold tvs0. rewrite (nth_indep _ (TObject, []) ((fun d : str * dtype => (snd d, @nil cellv)) (@nil Z, TObject)))
      by (rewrite map_length; exact H).
    rewrite (map_nth (fun d : str * dtype => (snd d, @nil cellv))). reflexivity.
Qed.

Section Prime.
Variable call_ref : nat -> list pv -> pv.
Variable quant : dec -> str -> dec.
Variable numfmt : list (dec * str) -> dec -> str -> str.
Notation PT := (prims_top quant numfmt).
Variables (dc : pv) (o : opts).
Notation rnd := (rend dc o).

Definition csv_loop : list stmt := Eval cbv in match nth 3 (f_body render_csv_fn) SPass with SFor _ _ b => b | _ => [] end.
Definition csv_inner : list stmt := Eval cbv in match nth 1 csv_loop SPass with SForUnpack _ _ b => b | _ => [] end.

Lemma csv_loop_shape : csv_loop =
  [SAssign (TName "$new") (XList []);
   SForUnpack ["value"; "renderer"] (XPrim "builtins.zip" [XName "row"; XName "renderers"]) csv_inner;
   SAssign (TName "renderers") (XBin OAdd (XName "$new") (XSlice (XName "renderers") (Some (XLen (XName "$new"))) None))].
Proof. reflexivity. Qed.

Local Arguments enc_rcell : simpl never.
Local Arguments pv_is_none : simpl never.
Local Arguments rend : simpl never.
Local Arguments for_unpack_loop : simpl never.

Lemma fu_cons body xs s v t :
  for_unpack_loop call_ref PT body xs s (v :: t) =
  bind (unpack_names s xs v) (fun sv => bind (PyMini.exec_block call_ref PT sv body)
    (fun o => match o with Next s1 => for_unpack_loop call_ref PT body xs s1 t | Ret _ _ => Ok o end)).
Proof. reflexivity. Qed.

Lemma update_prim tv c : c <> CNull ->
  PT "method:update" [rnd tv; enc_rcell c] = Ok (PTuple [rnd (upd1 tv c); PNone]).
Proof.
  intros Hc. unfold rend, robj, upd1. destruct c; try congruence; cbn -[enc_rcell]; rewrite map_app; reflexivity.
Qed.

Lemma update_call tv c : c <> CNull ->
  method_call PT "update" (rnd tv) [enc_rcell c] = Ok (rnd (upd1 tv c), PNone).
Proof.
  intros Hc. pose proof (update_prim tv c Hc) as E. unfold rend in *. unfold robj at 1. unfold robj at 1 in E.
  cbn -[prims_top enc_rcell robj]. rewrite E. reflexivity.
Qed.

Lemma prime_inner : forall tvs r loc acc, lookup "$new" loc = Some (PList acc) ->
  exists loc',
  for_unpack_loop call_ref PT csv_inner ["value"; "renderer"] {| locals := loc; fields := [] |}
    (zip2 (map enc_rcell r) (map rnd tvs)) = Ok (Next {| locals := loc'; fields := [] |}) /\
  lookup "$new" loc' = Some (PList (acc ++ map rnd (updz tvs r))) /\
  (forall x, String.eqb x "$new" = false -> String.eqb x "value" = false -> String.eqb x "renderer" = false ->
             lookup x loc' = lookup x loc).
Proof.
  induction tvs as [|tv tvs IH]; intros r loc acc Hn.
  - exists loc. destruct r; cbn [map zip2 updz]; rewrite app_nil_r; repeat split; auto.
  - destruct r as [|c r].
    + exists loc. cbn [map zip2 updz]. rewrite app_nil_r. repeat split; auto.
    + cbn [map zip2 updz]. rewrite fu_cons. unfold csv_inner at 1.
      repeat (progress (cbn -[for_unpack_loop]; step_env; rewrite ?is_none_enc; change (pv_is_none (PV VNull)) with true)).
      destruct (match c with CNull => true | _ => false end) eqn:Ec.
      * destruct c; try discriminate.
        repeat (progress (cbn -[for_unpack_loop]; step_env; rewrite ?Hn)).
        match goal with |- context [for_unpack_loop _ _ _ _ {| locals := ?L; fields := _ |} _] =>
          destruct (IH r L (acc ++ [rnd (upd1 tv CNull)])) as [loc' [E [Hn' Hf]]] end.
        { unfold upd1. destruct tv. apply lookup_update_eq. }
        exists loc'. split; [exact E|]. split; [rewrite Hn', <- app_assoc; reflexivity|].
        intros x H1 H2 H3. rewrite (Hf x H1 H2 H3). rewrite lookup_update_neq by exact H1.
        rewrite lookup_update_neq by exact H3. apply lookup_update_neq. exact H2.
      * assert (Hc : c <> CNull) by (intros ->; discriminate).
        repeat (progress (cbn -[for_unpack_loop prims_top]; step_env; rewrite ?Hn, ?(update_call tv c Hc))).
        match goal with |- context [for_unpack_loop _ _ _ _ {| locals := ?L; fields := _ |} _] =>
          destruct (IH r L (acc ++ [rnd (upd1 tv c)])) as [loc' [E [Hn' Hf]]] end.
        { apply lookup_update_eq. }
        exists loc'. split; [exact E|]. split; [rewrite Hn', <- app_assoc; reflexivity|].
        intros x H1 H2 H3. rewrite (Hf x H1 H2 H3). rewrite lookup_update_neq by exact H1.
        rewrite lookup_update_neq by exact H3. rewrite lookup_update_neq by exact H3. apply lookup_update_neq. exact H2.
Qed.

(* the priming loop body for one row: every renderer zipped with a non-NULL cell has seen that cell, the others are
   untouched, the list keeps its order and length *)
Lemma prime_row tvs r loc : lookup "renderers" loc = Some (PList (map rnd tvs)) ->
  exists loc',
  PyMini.exec_block call_ref PT (write {| locals := loc; fields := [] |} (TName "row") (enc_rrow r)) csv_loop =
  Ok (Next {| locals := loc'; fields := [] |}) /\
  lookup "renderers" loc' = Some (PList (map rnd (upd tvs r))) /\
  (forall x, String.eqb x "$new" = false -> String.eqb x "value" = false -> String.eqb x "renderer" = false ->
             String.eqb x "renderers" = false -> String.eqb x "row" = false -> lookup x loc' = lookup x loc).
Proof.
  intros Hr. rewrite csv_loop_shape. cbn [write locals fields]. rewrite exec_block_cons.
  cbn [PyMini.exec PyMini.eval bind write locals fields]. rewrite exec_block_cons.
  erewrite (exec_for_unpack call_ref PT _ _ csv_inner _ _ (zip2 (map enc_rcell r) (map rnd tvs))).
  2:{ repeat (progress (cbn; step_env; rewrite ?Hr)). reflexivity. }
  match goal with |- context [for_unpack_loop _ _ _ _ {| locals := ?L; fields := _ |} _] =>
    destruct (prime_inner tvs r L []) as [loc1 [E1 [Hn1 Hf1]]] end.
  { apply lookup_update_eq. }
  rewrite E1. cbn [bind app]. rewrite exec_block_cons.
  assert (Hr1 : lookup "renderers" loc1 = Some (PList (map rnd tvs))) by (rewrite Hf1 by reflexivity; step_env; exact Hr).
  erewrite exec_assign.
  2:{ cbn -[slice_list Z.of_nat]. rewrite Hn1. cbn -[slice_list Z.of_nat]. rewrite Hr1. cbn -[slice_list Z.of_nat]. rewrite Hn1.
      cbn -[slice_list Z.of_nat]. rewrite slice_from by (rewrite !map_length; apply updz_length). reflexivity. }
  cbn [bind write locals fields]. rewrite exec_block_nil.
  eexists. split; [reflexivity|]. split.
  - rewrite lookup_update_eq. unfold upd. rewrite map_app, !map_length, skipn_map. reflexivity.
  - intros x H1 H2 H3 H4 H5. rewrite lookup_update_neq by exact H4. rewrite Hf1 by assumption.
    rewrite lookup_update_neq by exact H1. apply lookup_update_neq. exact H5.
Qed.

Lemma prime_rows : forall rows tvs loc, lookup "renderers" loc = Some (PList (map rnd tvs)) ->
  exists loc',
  for_loop call_ref PT csv_loop "row" {| locals := loc; fields := [] |} (map enc_rrow rows) =
  Ok (Next {| locals := loc'; fields := [] |}) /\
  lookup "renderers" loc' = Some (PList (map rnd (fold_left upd rows tvs))) /\
  (forall x, String.eqb x "$new" = false -> String.eqb x "value" = false -> String.eqb x "renderer" = false ->
             String.eqb x "renderers" = false -> String.eqb x "row" = false -> lookup x loc' = lookup x loc).
Proof.
  induction rows as [|r rows IH]; intros tvs loc Hr.
  - exists loc. repeat split; auto.
  - cbn [map for_loop fold_left].
    destruct (prime_row tvs r loc Hr) as [loc1 [E1 [Hr1 F1]]]. rewrite E1. cbn [bind].
    destruct (IH (upd tvs r) loc1 Hr1) as [loc' [E [Hr' F]]].
    exists loc'. split; [exact E|]. split; [exact Hr'|].
    intros x H1 H2 H3 H4 H5. rewrite F by assumption. apply F1; assumption.
Qed.

Lemma prepare_prim tv :
  PT "call:prepare" [rnd tv] = Ok (PInt (Z.of_nat (st_width numfmt (col_prepare quant o (fst tv) (snd tv))))).
Proof. unfold rend. cbn -[dec_robj robj enc_ctx Z.of_nat]. rewrite dec_enc_robj. reflexivity. Qed.

End Prime.

Section Csv.
Variable call_ref : nat -> list pv -> pv.
Variable quant : dec -> str -> dec.
Variable numfmt : list (dec * str) -> dec -> str -> str.
Notation PT := (prims_top quant numfmt).
Variables (dc : pv) (ex : bool) (nl : str).
Definition oc : opts := mkopts false false false ex true nl [44].
Notation ctx := (enc_ctx dc oc).
Notation rnd := (rend dc oc).

Definition res_val (r : res pv) : pv := match r with Ok v => v | Exc k => PV (VErr k) | Stuck => PV (VErr 0) end.
Hypothesis Hget : forall t c, call_ref 0 [enc_rdtype t; c] = robj t c [].
Hypothesis Hrr : forall a b c, call_ref 1 [a; b; c] = res_val (call_function call_ref PT render_rows_fn [a; b; c]).

Local Arguments enc_rcell : simpl never.
Local Arguments pv_is_none : simpl never.
Local Arguments rend : simpl never.

Definition csv_stmt (i : nat) : stmt := nth i (f_body render_csv_fn) SPass.
Lemma csv_shape : f_body render_csv_fn =
  [csv_stmt 0; csv_stmt 1; csv_stmt 2; SFor "row" (XName "rows") csv_loop; csv_stmt 4; csv_stmt 5; csv_stmt 6; csv_stmt 7].
Proof. reflexivity. Qed.

Lemma writerow_call f names :
  method_call PT "writerow" (csv_writer f) [PList (map enc_s names)] = Ok (csv_writer (f ++ csv_record names), PNone).
Proof.
  unfold csv_writer at 1. cbn -[prims_top]. cbn -[n_map_opt csv_record]. rewrite dec_enc_strs. reflexivity.
Qed.

Lemma writerows_call f vs recs : n_map_opt line_of vs = Some recs ->
  method_call PT "writerows" (csv_writer f) [PList vs] = Ok (csv_writer (f ++ flat_map csv_record recs), PNone).
Proof.
  intros H. unfold csv_writer at 1. cbn -[prims_top]. cbn -[n_map_opt csv_record line_of]. rewrite H. reflexivity.
Qed.

Local Arguments method_call : simpl never.
Local Arguments call_function : simpl never.
Local Arguments csv_writer : simpl never.

Theorem render_csv_src : forall (desc : list (str * dtype)) (rows : list (list cellv)) (f0 : str),
  exists s',
  PyMini.exec_block call_ref PT
    {| locals := [("columns", PList (map enc_rcolumn desc)); ("rows", PList (map enc_rrow rows)); ("dcontext", dc);
                  ("file", enc_s f0); ("expand", PBool ex); ("nullvalue", enc_s nl)]; fields := [] |}
    (f_body render_csv_fn) = Ok (Next s') /\
  lookup "writer" (locals s') =
  Some (csv_writer (f0 ++ flat_map csv_record
          (map fst desc :: render_rows numfmt oc (col_states quant oc desc rows) rows))).
Proof.
  intros desc rows f0. rewrite csv_shape. unfold csv_stmt, render_csv_fn. cbn [f_body nth].
  set (tvs0 := map (fun d : str * dtype => (snd d, @nil cellv)) desc).
  (* ctx = RenderContext(...) *)
  rewrite exec_block_cons. erewrite exec_assign; [|reflexivity].
  cbn [bind write locals fields update String.eqb Ascii.eqb Bool.eqb].
  (* renderers = [_get_renderer(column.datatype, ctx) for column in columns] *)
  rewrite exec_block_cons.
  erewrite exec_assign.
  2:{ erewrite eval_listcomp; [|reflexivity].
      rewrite (map_res_ok _ (fun v => match v with PTuple [_; _; t] => PTuple [PInt 60; t; ctx; PList []] | _ => PNone end));
        [reflexivity|].
      intros v Hv. apply in_map_iff in Hv. destruct Hv as [[n t] [<- _]]. cbn -[enc_rdtype]. rewrite Hget. reflexivity. }
  match goal with |- context [map ?g (map enc_rcolumn desc)] =>
    replace (map g (map enc_rcolumn desc)) with (map rnd tvs0)
      by (unfold tvs0; rewrite !map_map; apply map_ext; intros [n t]; reflexivity) end.
  cbn [bind write locals fields update String.eqb Ascii.eqb Bool.eqb].
  (* headers = [column.name for column in columns] *)
  rewrite exec_block_cons.
  erewrite exec_assign.
  2:{ erewrite eval_listcomp; [|reflexivity].
      rewrite (map_res_ok _ (fun v => match v with PTuple [_; n; _] => n | _ => PNone end)); [reflexivity|].
      intros v Hv. apply in_map_iff in Hv. destruct Hv as [[n t] [<- _]]. reflexivity. }
  match goal with |- context [map ?g (map enc_rcolumn desc)] =>
    replace (map g (map enc_rcolumn desc)) with (map enc_s (map fst desc))
      by (rewrite !map_map; apply map_ext; intros [n t]; reflexivity) end.
  cbn [bind write locals fields update String.eqb Ascii.eqb Bool.eqb].
  (* the priming loop *)
  rewrite exec_block_cons.
  erewrite (exec_for call_ref PT "row" (XName "rows") csv_loop _ _ (map enc_rrow rows)); [|reflexivity].
  match goal with |- context [for_loop _ _ _ _ {| locals := ?L; fields := _ |} _] =>
    destruct (prime_rows call_ref quant numfmt dc oc rows tvs0 L eq_refl) as [loc1 [E1 [Hr1 F1]]] end.
  rewrite E1. cbn [bind].
  pose proof (F1 "file" eq_refl eq_refl eq_refl eq_refl eq_refl) as Hfile.
  pose proof (F1 "headers" eq_refl eq_refl eq_refl eq_refl eq_refl) as Hhead.
  pose proof (F1 "rows" eq_refl eq_refl eq_refl eq_refl eq_refl) as Hrows.
  pose proof (F1 "ctx" eq_refl eq_refl eq_refl eq_refl eq_refl) as Hctx.
  cbn in Hfile, Hhead, Hrows, Hctx. clear F1 E1.
  set (tvsF := fold_left upd rows tvs0) in *.
  (* [render.prepare() for render in renderers] *)
  rewrite exec_block_cons.
  assert (E4 : PyMini.exec call_ref PT {| locals := loc1; fields := [] |}
                 (SExpr (XListComp (XCallMethod (XName "render") "prepare" []) "render" (XName "renderers") None)) =
               Ok (Next {| locals := loc1; fields := [] |})).
  { cbn [PyMini.exec]. erewrite eval_listcomp; [|cbn; rewrite Hr1; reflexivity].
    rewrite (map_res_ok _ (fun v => res_val (PT "call:prepare" [v]))); [reflexivity|].
    intros v Hv. apply in_map_iff in Hv. destruct Hv as [tv [<- _]].
    cbn -[prims_top rend]. step_env. cbn -[prims_top rend]. rewrite (prepare_prim quant numfmt dc oc). reflexivity. }
  rewrite E4. cbn [bind].
  (* writer = csv.writer(file); writer.writerow(headers); writer.writerows(render_rows(rows, renderers, ctx)) *)
  rewrite exec_block_cons. erewrite exec_assign; [|cbn; rewrite Hfile; reflexivity].
  cbn [bind write locals fields].
  rewrite exec_block_cons.
  repeat (progress (cbn -[prims_top]; step_env; rewrite ?Hhead, ?writerow_call)).
  repeat (progress (cbn -[prims_top]; step_env; rewrite ?Hrows, ?Hr1, ?Hctx)).
  rewrite Hrr. change (PTuple [PInt 61; dc; PBool ex; PV (VStr [44]); PBool false; enc_s nl]) with ctx.
  rewrite (render_rows_pv call_ref quant numfmt dc oc tvsF rows).
  repeat (progress (cbn -[prims_top]; step_env)).
  erewrite writerows_call; [|apply rows_pv_lines].
  repeat (progress (cbn -[prims_top]; step_env)). eexists. split; [reflexivity|].
  cbn [locals]. rewrite lookup_update_eq. unfold tvsF, tvs0. rewrite col_states_fold. cbn [flat_map]. rewrite <- app_assoc. reflexivity.
Qed.
End Csv.

Lemma csv_refs : nth_error refs 0 = Some (0%nat, "beanquery.query_render._get_renderer") /\
  nth_error refs 1 = Some (1%nat, "beanquery.query_render.render_rows").
Proof. split; reflexivity. Qed.
