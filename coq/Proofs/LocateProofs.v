(* Proofs about Model/Locate.v: a location is produced exactly for rejected statements and always denotes a node of the
   statement AST. *)
From Coq Require Import String ZArith List Bool.
Import ListNotations.
From Verif Require Import Base.Out Base.PyValue Model.Compile Model.Locate.

Theorem location_valid : forall sch p e pth,
  locate_stmt sch p e = Some (Some pth) -> valid_path e pth = true.
Proof.
  intros sch p e pth H. unfold locate_stmt in H.
  destruct (compile sch p (SSelect e)); [discriminate|].
  destruct (bind_params p (stmt_placeholders (SSelect e))) as [pv|er]; [|discriminate].
  match type of H with context [match ?raw with Some _ => _ | None => _ end] => destruct raw as [q|] end; [|discriminate].
  destruct (valid_path e q) eqn:V; inversion H; subst. exact V.
Qed.

Theorem location_iff_rejected : forall sch p e,
  locate_stmt sch p e = None <-> exists q, compile sch p (SSelect e) = Ok q.
Proof.
  intros sch p e. unfold locate_stmt. destruct (compile sch p (SSelect e)) as [q|er].
  - split; eauto.
  - split; [|intros [q H]; discriminate].
    destruct (bind_params p (stmt_placeholders (SSelect e))) as [pv|eb]; [|discriminate].
    match goal with |- context [match ?raw with Some _ => _ | None => _ end] => destruct raw as [pth|] end;
      [destruct (valid_path e pth)|]; discriminate.
Qed.
