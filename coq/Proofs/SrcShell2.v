(* Tie by translation, C19 (bld-misc): the PyMini terms generated on every run from the CURRENT source of
   BQLShell.on_Select and of the `render` functions behind FORMATS['text'] / FORMATS['csv'] (Gen/SrcShell2.v) compute
   the query output of Model/Shell.v: execute, numberify WITH dcontext.build() exactly when the setting is on (also for
   an empty result), the renderer selected by the format setting, "(empty)" for an empty text result, the display
   context and ALL settings handed to render_text / render_csv, NotImplementedError for another format. *)
From Coq Require Import String Ascii ZArith List Bool Lia.
Import ListNotations.
From Verif Require Import Base.PyValue Model.Eval Model.PyMini Model.PrimsApi Model.PrimsShell Model.PrimsShell2
  Proofs.PyMiniLemmas Proofs.SrcApi.
From Verif Require Model.Shell Proofs.SrcShell.
From Verif Require Import Gen.SrcShell2.
Open Scope string_scope.
Open Scope list_scope.
Open Scope Z_scope.

Definition unpack2 (v : pv) : res (pv * pv) :=
  match v with
  | PTuple [d; r] | PList [d; r] => Ok (d, r)
  | PTuple _ | PList _ => Exc TypeError
  | _ => Stuck
  end.

Definition rows_empty (r : pv) : bool := match r with PList [] | PTuple [] => true | _ => false end.

Section Tie.
Variable call_ref : nat -> list pv -> pv.
Variable msg : string -> list pv -> pv.
Notation prim := (prim_shell2 call_ref msg render_text_adapter render_csv_adapter).

Definition kNum : nat := 0.
Definition kPrint : nat := 1.
Definition kRT : nat := 2.
Definition kRC : nat := 3.

Lemma refs_ok :
  ref_of refs "beanquery.numberify.numberify_results" = Some kNum /\
  ref_of refs "builtins.print:file" = Some kPrint /\
  ref_of refs "beanquery.query_render.render_text:**" = Some kRT /\
  ref_of refs "beanquery.query_render.render_csv:**" = Some kRC.
Proof. repeat split. Qed.

(* cursor = context.execute(statement); desc = cursor.description; rows = cursor.fetchall() *)
Definition sel_exec (ctx s : pv) : res (pv * pv) :=
  bind (opaque_method msg "call:execute" [ctx; s]) (fun cur =>
  bind (opaque_method msg "attr:description" [cur]) (fun d =>
  bind (opaque_method msg "call:fetchall" [cur]) (fun r => Ok (d, r)))).

(* desc, rows = numberify_results(desc, rows, dcontext.build()) *)
Definition sel_numberify (dctx : pv) (dr : pv * pv) : res (pv * pv) :=
  bind (opaque_method msg "call:build" [dctx]) (fun f =>
  bind (do_call call_ref (PRef kNum) [fst dr; snd dr; f]) unpack2).

(* FORMATS.get(format)(desc, rows, out, dcontext=dcontext, **settings.todict()), through the translated adapters *)
Definition sel_render (st : Shell.state) (d r dctx out : pv) : res pv :=
  let fmt := Shell.get_str st "format" in
  if Shell.str_eqb fmt (Shell.s2z "text") then
    if rows_empty r then do_call call_ref (PRef kPrint) [PS (Shell.s2z "(empty)"); out]
    else do_call call_ref (PRef kRT) [d; r; dctx; out; todict st]
  else if Shell.str_eqb fmt (Shell.s2z "csv") then do_call call_ref (PRef kRC) [d; r; dctx; out; todict st]
  else Exc OtherException.

Definition sel_wf (st : Shell.state) : Prop :=
  (exists b, Shell.lookup st (Shell.s2z "numberify") = Some (Shell.SBool b)) /\
  (exists f, Shell.lookup st (Shell.s2z "format") = Some (Shell.SStr f)).

Definition rows_like (v : pv) : Prop := match v with PList _ | PV (VErr _) => True | _ => False end.
Definition oracles_ok : Prop :=
  (* the cursor context.execute returns is an opaque object (or an exception is raised) *)
  (forall a, match msg "call:execute" a with PRef _ | PV (VErr _) => True | _ => False end) /\
  (forall cur, rows_like (msg "call:fetchall" [cur])) /\
  (forall d r f, match call_ref kNum [d; r; f] with
                 | PTuple [_; PList _] | PV (VErr _) => True
                 | _ => False
                 end).

Lemma opaque_eq n a v : msg n a = v ->
  opaque_method msg n a = match v with PV (VErr k) => Exc k | _ => Ok v end.
Proof. intros <-. unfold opaque_method. destruct (msg n a) as [[]| | | |]; reflexivity. Qed.

Lemma do_call_eq n a v : call_ref n a = v ->
  do_call call_ref (PRef n) a = match v with PV (VErr k) => Exc k | _ => Ok v end.
Proof. intros <-. unfold do_call. destruct (call_ref n a) as [[]| | | |]; reflexivity. Qed.

Lemma adapter_text d r out dctx kw : rows_like r ->
  apply_adapter call_ref render_text_adapter [d; r; out; dctx; kw] =
  match r with
  | PV (VErr _) => Stuck
  | _ => if rows_empty r then do_call call_ref (PRef kPrint) [PS (Shell.s2z "(empty)"); out]
         else do_call call_ref (PRef kRT) [d; r; dctx; out; kw]
  end.
Proof.
  intros Hr. unfold apply_adapter, render_text_adapter, call_function, kPrint, kRT, PS. cbn -[do_call].
  destruct r as [[]|[|x l]| | |]; try destruct Hr; cbn -[do_call];
    first [reflexivity
          | match goal with |- context [do_call call_ref ?f ?a] =>
              destruct (do_call call_ref f a); cbn -[do_call]; reflexivity end
          ].
Qed.

Lemma adapter_csv d r out dctx kw :
  apply_adapter call_ref render_csv_adapter [d; r; out; dctx; kw] = do_call call_ref (PRef kRC) [d; r; dctx; out; kw].
Proof.
  unfold apply_adapter, render_csv_adapter, call_function, kRC. cbn -[do_call].
  destruct (do_call call_ref (PRef 3) [d; r; dctx; out; kw]); cbn -[do_call]; reflexivity.
Qed.

Ltac fin l :=
  unfold kPrint, kRT, kRC, PS, todict; cbn -[do_call enc_fields]; destruct l; cbn -[do_call enc_fields];
  match goal with |- context [do_call ?c ?g ?a] => destruct (do_call c g a) end; cbn -[enc_fields]; reflexivity.

Theorem on_select_src : forall (dctx outp s : pv) (st : Shell.state),
  sel_wf st -> oracles_ok ->
  call_method call_ref prim shell_on_select (sel_flds (enc_ctx dctx) st outp) [s] =
  bind (sel_exec (enc_ctx dctx) s) (fun dr =>
  bind (if Shell.get_bool st "numberify" then sel_numberify dctx dr else Ok dr) (fun dr' =>
  bind (sel_render st (fst dr') (snd dr') dctx (msg "with:enter" [outp])) (fun v =>
  Ok (sel_flds (enc_ctx dctx) st outp, v)))).
Proof.
  intros dctx outp s st [[b Hb] [f Hf]] [Hexec [Hrows Hnum]].
  unfold Shell.get_bool, sel_render, Shell.get_str. rewrite Hb, Hf.
  unfold shell_on_select, call_method, sel_exec.
  pose proof (Hexec [enc_ctx dctx; s]) as Hx.
  destruct (msg "call:execute" [enc_ctx dctx; s]) as [[]| | |n|] eqn:Ex; try destruct Hx.
  { cbn -[opaque_method do_call enc_fields apply_adapter]. rewrite (opaque_eq _ _ _ Ex). reflexivity. }
  cbn -[opaque_method do_call enc_fields apply_adapter]. rewrite (opaque_eq _ _ _ Ex).
  cbn -[opaque_method do_call enc_fields apply_adapter].
  destruct (opaque_method msg "attr:description" [PRef n]) as [d| |]; cbn -[opaque_method do_call enc_fields apply_adapter]; try reflexivity.
  pose proof (Hrows (PRef n)) as Hr.
  destruct (msg "call:fetchall" [PRef n]) as [[]|l| | |] eqn:Er; try destruct Hr; rewrite (opaque_eq _ _ _ Er);
    cbn -[opaque_method do_call enc_fields apply_adapter]; try reflexivity.
  - (* rows = PList l *)
    change (PStr "numberify") with (PS (Shell.s2z "numberify")).
    rewrite (Proofs.SrcShell.assoc_fields (Shell.s2z "numberify") st), Hb. cbn -[opaque_method do_call enc_fields apply_adapter].
    destruct b; cbn -[opaque_method do_call enc_fields apply_adapter].
    + (* numberify on *)
      unfold sel_numberify. cbn [fst snd].
      destruct (opaque_method msg "call:build" [dctx]) as [fm| |]; cbn -[opaque_method do_call enc_fields apply_adapter]; try reflexivity.
      pose proof (Hnum d (PList l) fm) as Hn. unfold kNum in *.
      destruct (call_ref 0%nat [d; PList l; fm]) as [[]|?|[|d' [|[[]|l'| | |] [|? ?]]]| |] eqn:En; try destruct Hn;
        rewrite (do_call_eq _ _ _ En); cbn -[opaque_method do_call enc_fields apply_adapter]; try reflexivity.
      change (PStr "format") with (PS (Shell.s2z "format")).
      rewrite (Proofs.SrcShell.assoc_fields (Shell.s2z "format") st), Hf. cbn -[opaque_method do_call enc_fields apply_adapter].
      unfold formats_get.
      change (Shell.str_eqb f [116; 101; 120; 116]) with (zeqb f [116; 101; 120; 116]).
      change (Shell.str_eqb f [99; 115; 118]) with (zeqb f [99; 115; 118]).
      change (zs "text") with [116; 101; 120; 116]; change (zs "csv") with [99; 115; 118];
      destruct (zeqb f [116; 101; 120; 116]) eqn:Et; cbn -[opaque_method do_call enc_fields apply_adapter].
      * rewrite adapter_text by exact I. fin l'.
      * destruct (zeqb f [99; 115; 118]) eqn:Ec; cbn -[opaque_method do_call enc_fields apply_adapter].
        -- rewrite adapter_csv. fin (@nil pv).
        -- reflexivity.
    + (* numberify off *)
      change (PStr "format") with (PS (Shell.s2z "format")).
      rewrite (Proofs.SrcShell.assoc_fields (Shell.s2z "format") st), Hf. cbn -[opaque_method do_call enc_fields apply_adapter].
      unfold formats_get.
      change (Shell.str_eqb f [116; 101; 120; 116]) with (zeqb f [116; 101; 120; 116]).
      change (Shell.str_eqb f [99; 115; 118]) with (zeqb f [99; 115; 118]).
      change (zs "text") with [116; 101; 120; 116]; change (zs "csv") with [99; 115; 118];
      destruct (zeqb f [116; 101; 120; 116]) eqn:Et; cbn -[opaque_method do_call enc_fields apply_adapter].
      * rewrite adapter_text by exact I. fin l.
      * destruct (zeqb f [99; 115; 118]) eqn:Ec; cbn -[opaque_method do_call enc_fields apply_adapter].
        -- rewrite adapter_csv. fin (@nil pv).
        -- reflexivity.
Qed.

End Tie.

(* OBLIGATION on generated data: the keys of the live FORMATS dict are the model's formats (so FORMATS.get finds a
   function exactly for the two names [formats_get] knows) *)
Theorem formats_keys_ok : map Shell.s2z formats_keys = Shell.formats.
Proof. reflexivity. Qed.
