From Coq Require Import ZArith List Bool Lia.
Import ListNotations.
From Verif Require Import Base.StableSort Base.PyValue Base.Decimal Model.Eval Model.Order Model.Exec.
Open Scope Z_scope.

(* ---- C01: the row loop is filter + map ---- *)
Lemma scan_nonagg_acc q rows : forall acc,
  scan_nonagg q acc rows = acc ++ map (fun r => map (eval r []) (q_targets q)) (filter (passes q) rows).
Proof.
  induction rows as [|r t IH]; intros acc; simpl; [now rewrite app_nil_r|].
  rewrite IH. destruct (passes q r); simpl; [now rewrite <- app_assoc|reflexivity].
Qed.

Theorem scan_nonagg_spec q rows :
  scan_nonagg q [] rows = map (fun r => map (eval r []) (q_targets q)) (filter (passes q) rows).
Proof. apply scan_nonagg_acc. Qed.

(* a row is selected iff the condition is true: NULL and false both exclude it *)
Theorem passes_null_excluded q r w : q_where q = Some w -> eval r [] w = VNull -> passes q r = false.
Proof. intros H E. unfold passes. now rewrite H, E. Qed.
Theorem passes_false_excluded q r w : q_where q = Some w -> eval r [] w = VBool false -> passes q r = false.
Proof. intros H E. unfold passes. now rewrite H, E. Qed.
Theorem passes_true_included q r w : q_where q = Some w -> eval r [] w = VBool true -> passes q r = true.
Proof. intros H E. unfold passes. now rewrite H, E. Qed.

(* ---- NULL-strictness of the strict node kinds ---- *)
Theorem binary_null_l r st op a b : eval r st a = VNull -> eval r st (EBinary op a b) = VNull.
Proof. intros H. simpl. now rewrite H. Qed.
Theorem binary_null_r r st op a b : eval r st b = VNull -> eval r st (EBinary op a b) = VNull.
Proof. intros H. simpl. rewrite H. destruct (is_null (eval r st a)); reflexivity. Qed.
Theorem neg_null r st a : eval r st a = VNull -> eval r st (EUnary UNeg a) = VNull.
Proof. intros H. simpl. now rewrite H. Qed.
Theorem between_null r st a lo hi :
  eval r st a = VNull \/ eval r st lo = VNull \/ eval r st hi = VNull -> eval r st (EBetween a lo hi) = VNull.
Proof.
  intros H. simpl. destruct (is_null (eval r st a)) eqn:Ea; [reflexivity|].
  destruct (is_null (eval r st lo)) eqn:El; [reflexivity|].
  destruct (is_null (eval r st hi)) eqn:Eh; [reflexivity|].
  destruct H as [H|[H|H]]; rewrite H in *; discriminate.
Qed.
Theorem func_null r st f args a : In a args -> eval r st a = VNull -> eval r st (EFunc f args) = VNull.
Proof.
  intros Hin H. simpl. replace (existsb is_null (map (eval r st) args)) with true; [reflexivity|].
  symmetry. apply existsb_exists. exists VNull. split; [|reflexivity]. rewrite <- H. now apply in_map.
Qed.
Theorem in_null r st n a items : eval r st a = VNull -> eval r st (EIn n a items) = VNull.
Proof. intros H. simpl. now rewrite H. Qed.
Theorem in_empty_subquery r st n a : eval r st (EIn n a None) = VNull.
Proof. simpl. destruct (is_null (eval r st a)); reflexivity. Qed.
Theorem in_membership r st n a l : eval r st a <> VNull ->
  eval r st (EIn n a (Some l)) = VBool (xorb n (existsb (val_eq (eval r st a)) l)).
Proof. intros H. simpl. destruct (eval r st a); try reflexivity. congruence. Qed.

(* ---- division and modulo by zero give NULL ---- *)
Lemma as_num_some_not_null v n : as_num v = Some n -> is_null v = false.
Proof. destruct v; simpl; congruence. Qed.

Theorem div_zero r st op a b na nb : op = BDiv \/ op = BDivInt \/ op = BMod ->
  as_num (eval r st a) = Some na -> as_num (eval r st b) = Some nb -> num_is_zero nb = true ->
  eval r st (EBinary op a b) = VNull.
Proof.
  intros Hop Ha Hb Hz. simpl. rewrite (as_num_some_not_null _ _ Ha), (as_num_some_not_null _ _ Hb).
  destruct Hop as [Hop|[Hop|Hop]]; subst op; simpl; rewrite Ha, Hb, Hz; reflexivity.
Qed.

(* ---- promotion ---- *)
Definition is_dec (v : value) : bool := match v with VDec _ => true | _ => false end.
Definition is_int (v : value) : bool := match v with VInt _ => true | _ => false end.

Theorem promotion_int_dec op a d : op = BAdd \/ op = BSub \/ op = BMul ->
  is_dec (bin op (VInt a) (VDec d)) = true /\ is_dec (bin op (VDec d) (VInt a)) = true.
Proof. intros [H|[H|H]]; subst op; split; reflexivity. Qed.

Theorem promotion_mod a d : dcoef d <> 0 -> a <> 0 ->
  is_dec (bin BMod (VInt a) (VDec d)) = true /\ is_dec (bin BMod (VDec d) (VInt a)) = true.
Proof.
  intros Hd Ha. simpl. apply Z.eqb_neq in Hd, Ha. rewrite Hd, Ha. split; reflexivity.
Qed.

Theorem int_div_is_decimal a b : b <> 0 ->
  bin BDivInt (VInt a) (VInt b) = VDec (dec_div (dec_of_Z a) (dec_of_Z b)).
Proof. intros H. simpl. apply Z.eqb_neq in H. now rewrite H. Qed.

Theorem int_int_stays_int a b :
  bin BAdd (VInt a) (VInt b) = VInt (a + b) /\ bin BSub (VInt a) (VInt b) = VInt (a - b)
  /\ bin BMul (VInt a) (VInt b) = VInt (a * b) /\ (b <> 0 -> bin BMod (VInt a) (VInt b) = VInt (a mod b)).
Proof. repeat split. intros H. simpl. apply Z.eqb_neq in H. now rewrite H. Qed.

(* ---- truth tables ---- *)
Definition and_spec (vs : list value) : value :=
  match find (fun v => is_null v || negb (truthy v)) vs with
  | None => VBool true
  | Some v => if is_null v then VNull else VBool false
  end.

Definition or_spec (vs : list value) : value :=
  if existsb truthy vs then VBool true else if existsb is_null vs then VNull else VBool false.

Definition coalesce_spec (vs : list value) : value :=
  match find (fun v => negb (is_null v)) vs with Some v => v | None => VNull end.

Theorem and_table r st args : eval r st (EAnd args) = and_spec (map (eval r st) args).
Proof.
  simpl. unfold and_spec. induction args as [|a t IH]; simpl; [reflexivity|].
  destruct (is_null (eval r st a)) eqn:En; simpl; [now rewrite En|].
  destruct (truthy (eval r st a)); simpl; [exact IH|now rewrite En].
Qed.

Lemma truthy_not_null v : truthy v = true -> is_null v = false.
Proof. destruct v; simpl; congruence. Qed.

Theorem or_table r st args : eval r st (EOr args) = or_spec (map (eval r st) args).
Proof.
  simpl. unfold or_spec.
  assert (G : forall acc, (acc = VBool false \/ acc = VNull) ->
     (fix go (acc : value) (l : list enode) {struct l} : value :=
        match l with
        | [] => acc
        | a :: t => let v := eval r st a in if truthy v then VBool true else go (if is_null v then VNull else acc) t
        end) acc args =
     if existsb truthy (map (eval r st) args) then VBool true
     else if is_null acc || existsb is_null (map (eval r st) args) then VNull else VBool false).
  { induction args as [|a t IH]; intros acc Hacc; simpl.
    - destruct Hacc as [->| ->]; reflexivity.
    - destruct (truthy (eval r st a)) eqn:T; simpl; [reflexivity|].
      destruct (is_null (eval r st a)) eqn:N.
      + rewrite IH by now right. simpl. rewrite orb_true_r. reflexivity.
      + rewrite IH by exact Hacc. simpl. reflexivity. }
  rewrite G by now left. reflexivity.
Qed.

Theorem not_table r st a :
  eval r st (EUnary UNot a) = VBool (negb (truthy (eval r st a))).
Proof. reflexivity. Qed.
Theorem not_null_is_true r st a : eval r st a = VNull -> eval r st (EUnary UNot a) = VBool true.
Proof. intros H. simpl. now rewrite H. Qed.
Theorem isnull_table r st a :
  eval r st (EUnary UIsNull a) = VBool (is_null (eval r st a))
  /\ eval r st (EUnary UIsNotNull a) = VBool (negb (is_null (eval r st a))).
Proof. split; reflexivity. Qed.

Theorem coalesce_table r st args : eval r st (ECoalesce args) = coalesce_spec (map (eval r st) args).
Proof.
  simpl. unfold coalesce_spec. induction args as [|a t IH]; simpl; [reflexivity|].
  destruct (is_null (eval r st a)) eqn:N; simpl; [exact IH|reflexivity].
Qed.

(* FROM and WHERE conditions are combined by AND (compiler.py: EvalAnd([c_from, c_where])) *)
Theorem and_two r st f w :
  truthy (eval r st (EAnd [f; w])) = truthy (eval r st f) && truthy (eval r st w).
Proof.
  rewrite and_table. unfold and_spec. simpl.
  destruct (is_null (eval r st f)) eqn:Nf.
  - destruct (eval r st f); try discriminate. reflexivity.
  - simpl. destruct (truthy (eval r st f)) eqn:Tf; simpl; [|now rewrite Nf].
    destruct (is_null (eval r st w)) eqn:Nw.
    + destruct (eval r st w); try discriminate. reflexivity.
    + simpl. destruct (truthy (eval r st w)) eqn:Tw; simpl; [reflexivity|now rewrite Nw].
Qed.

(* consequences named in the property text *)
Corollary and_stops_at_first_null_or_false r st pre a post :
  Forall (fun e => truthy (eval r st e) = true) pre ->
  (eval r st a = VNull -> eval r st (EAnd (pre ++ a :: post)) = VNull)
  /\ (is_null (eval r st a) = false -> truthy (eval r st a) = false ->
      eval r st (EAnd (pre ++ a :: post)) = VBool false).
Proof.
  intros Hpre. rewrite and_table. unfold and_spec. rewrite map_app. simpl.
  assert (F : forall tl, find (fun v => is_null v || negb (truthy v)) (map (eval r st) pre ++ tl)
                         = find (fun v => is_null v || negb (truthy v)) tl).
  { intros tl. induction Hpre as [|e l He Hl IH]; simpl; [reflexivity|].
    rewrite He, (truthy_not_null _ He). simpl. exact IH. }
  rewrite F. simpl. split.
  - intros ->. reflexivity.
  - intros N T. rewrite N, T. simpl. now rewrite N.
Qed.

Corollary or_true_if_any_true r st args a :
  In a args -> truthy (eval r st a) = true -> eval r st (EOr args) = VBool true.
Proof.
  intros Hin T. rewrite or_table. unfold or_spec.
  replace (existsb truthy (map (eval r st) args)) with true; [reflexivity|].
  symmetry. apply existsb_exists. exists (eval r st a). split; [now apply in_map|exact T].
Qed.

Corollary or_null_if_none_true_some_null r st args a :
  Forall (fun e => truthy (eval r st e) = false) args -> In a args -> eval r st a = VNull ->
  eval r st (EOr args) = VNull.
Proof.
  intros Hall Hin N. rewrite or_table. unfold or_spec.
  replace (existsb truthy (map (eval r st) args)) with false.
  - replace (existsb is_null (map (eval r st) args)) with true; [reflexivity|].
    symmetry. apply existsb_exists. exists VNull. split; [rewrite <- N; now apply in_map|reflexivity].
  - symmetry. apply not_true_is_false. intros H. apply existsb_exists in H as (v & Hv & Tv).
    apply in_map_iff in Hv as (e & <- & He). rewrite Forall_forall in Hall. rewrite (Hall e He) in Tv. discriminate.
Qed.
