(* Tie by translation (C16): the PyMini terms generated from the SOURCE of the two-phase column renderers of
   beanquery/query_render.py (Gen/SrcRender.v) compute the renderer functions of Model/Render.v: update = one step of the
   width bookkeeping col_prepare folds over the column, prepare = st_width, format = st_format.  Values are encoded as in
   Model/PrimsRender.v, which also says what every primitive is assumed to do. *)
From Coq Require Import String ZArith List Bool Lia.
Import ListNotations.
From Verif Require Import Base.PyValue Model.Eval Model.PyMini Model.Render Model.PrimsRender Gen.SrcRender
  Proofs.PyMiniLemmas Proofs.PyMiniLemmas2.
Open Scope string_scope.
Open Scope Z_scope.
Open Scope list_scope.

Section Tie.
Variable call_ref : nat -> list pv -> pv.
Notation P := prims_render.

(* ---- ColumnRenderer.prepare *)
Theorem base_prepare_src : forall (w : pv) (p : pv) (rest : env),
  call_method call_ref P render_base_prepare (("maxwidth", w) :: ("prepared", p) :: rest) [] =
  Ok (("maxwidth", w) :: ("prepared", PBool true) :: rest, w).
Proof. reflexivity. Qed.

(* ---- ObjectRenderer (str, int, dict, object): width = max over len(format(value)); format = str *)
Definition plain_step (w : Z) (s : str) : Z := Z.max w (Z.of_nat (length s)).

Theorem object_update_src : forall (w : Z) (k : nat) (v : pv) (s : str) (rest : env),
  call_ref k [v] = PV (VStr s) ->
  call_method call_ref P render_object_update (("maxwidth", PInt w) :: ("format", PRef k) :: rest) [v] =
  Ok (("maxwidth", PInt (plain_step w s)) :: ("format", PRef k) :: rest, PNone).
Proof. intros w k v s rest H. unfold call_method, render_object_update. cbn. rewrite H. reflexivity. Qed.

Theorem object_format_src : forall (flds : env) (c : cellv), scalar c = true ->
  call_method call_ref P render_object_format flds [enc_rcell c] = Ok (flds, PV (VStr (py_str c))).
Proof. intros flds c H. destruct c; try discriminate; reflexivity. Qed.

Lemma plain_fold : forall ss w, 0 <= w ->
  fold_left plain_step ss w = Z.max w (Z.of_nat (nmax (map (@length Z) ss))).
Proof.
  induction ss as [|s ss IH]; intros w Hw; cbn [fold_left map nmax fold_right].
  - lia.
  - rewrite IH by (unfold plain_step; lia). unfold plain_step. fold (nmax (map (@length Z) ss)). lia.
Qed.

(* ---- BoolRenderer *)
Theorem bool_update_src : forall (w : Z) (b : bool) (rest : env),
  call_method call_ref P render_bool_update (("maxwidth", PInt w) :: rest) [PBool b] =
  Ok (("maxwidth", PInt (Z.max w (if b then 4 else 5))) :: rest, PNone).
Proof. intros w b rest. destruct b; reflexivity. Qed.

Theorem bool_format_src : forall (flds : env) (b : bool),
  call_method call_ref P render_bool_format flds [PBool b] = Ok (flds, PV (VStr (if b then s_true else s_false))).
Proof. intros flds b. destruct b; reflexivity. Qed.

(* ---- DateRenderer *)
Theorem date_update_src : forall (w v : pv) (rest : env),
  call_method call_ref P render_date_update (("maxwidth", w) :: rest) [v] = Ok (("maxwidth", PInt 10) :: rest, PNone).
Proof. reflexivity. Qed.

Theorem date_format_src : forall (flds : env) (y m d : Z),
  call_method call_ref P render_date_format flds [enc_rcell (CDate y m d)] = Ok (flds, PV (VStr (date_str y m d))).
Proof. reflexivity. Qed.

(* ---- DecimalRenderer *)
Definition dec_fields (mw : pv) (st : Z * Z) (rest : env) : env :=
  ("maxwidth", mw) :: ("prepared", PBool false) :: ("nintegral", PInt (fst st)) :: ("nfractional", PInt (snd st)) :: rest.

Lemma digits_len d : Z.of_nat (length (map (fun c => PInt (c - 48)) (dec_digits d))) = dec_nd d.
Proof. unfold dec_nd. now rewrite map_length. Qed.

Lemma int_gt0 x :
  negb (StableSort.lex (StableSort.on num_q QArith_base.Qle_bool) (StableSort.on str_of list_le) (VInt x) (VInt 0)) = (0 <? x).
Proof.
  unfold StableSort.lex, StableSort.on, num_q, QArith_base.Qle_bool. cbn.
  rewrite Z.mul_1_r. destruct (x <=? 0) eqn:E1; destruct (0 <=? x) eqn:E2; destruct (0 <? x) eqn:E3; try reflexivity; lia.
Qed.

Local Arguments dec_str : simpl never.
Local Arguments dec_digits : simpl never.
Local Arguments Z.max : simpl never.
Local Arguments Z.add : simpl never.
Local Arguments Z.sub : simpl never.
Local Arguments Z.opp : simpl never.
Local Arguments Z.ltb : simpl never.
Local Arguments Z.of_nat : simpl never.
Local Arguments Z.to_nat : simpl never.

Theorem decimal_update_src : forall (mw : pv) (st : Z * Z) (d : dec) (rest : env),
  call_method call_ref P render_decimal_update (dec_fields mw st rest) [PV (VDec d)] =
  Ok (dec_fields mw (dec_update st d) rest, PNone).
Proof.
  intros mw [ni nf] d rest. unfold call_method, render_decimal_update, dec_update, dec_fields. cbn.
  rewrite int_gt0. destruct (0 <? dexp d); cbn.
  - reflexivity.
  - rewrite digits_len. unfold dec_intw. destruct (dneg d); reflexivity.
Qed.

(* DecimalRenderer.prepare: its own statement, then ColumnRenderer.prepare on the resulting fields *)
Theorem decimal_prepare_src : forall (mw : pv) (st : Z * Z) (rest : env), 0 <= fst st -> 0 <= snd st ->
  bind (call_method call_ref P render_decimal_prepare_head (dec_fields mw st rest) [])
       (fun r => call_method call_ref P render_base_prepare (fst r) []) =
  Ok (("maxwidth", PInt (Z.of_nat (dec_width st))) :: ("prepared", PBool true) ::
      ("nintegral", PInt (fst st)) :: ("nfractional", PInt (snd st)) :: rest, PInt (Z.of_nat (dec_width st))).
Proof.
  intros mw [ni nf] rest Hi Hf. cbn [fst snd] in Hi, Hf.
  unfold call_method, render_decimal_prepare_head, render_base_prepare, dec_fields, dec_width. cbn.
  rewrite int_gt0. destruct (0 <? nf); cbn; rewrite Z2Nat.id by lia; reflexivity.
Qed.

Definition dec_ready (st : Z * Z) (rest : env) : env :=
  ("maxwidth", PInt (Z.of_nat (dec_width st))) :: ("prepared", PBool true) ::
  ("nintegral", PInt (fst st)) :: ("nfractional", PInt (snd st)) :: rest.

Lemma dec_intw_pos d : 1 <= dec_intw d.
Proof. unfold dec_intw. destruct (dneg d); lia. Qed.

(* format(value) for a value the renderer has seen (its integral width is covered by nintegral) *)
Theorem decimal_format_src : forall (st : Z * Z) (d : dec) (rest : env),
  0 <= snd st -> (dexp d <= 0 -> dec_intw d <= fst st) ->
  call_method call_ref P render_decimal_format (dec_ready st rest) [PV (VDec d)] =
  Ok (dec_ready st rest, PV (VStr (dec_format st d))).
Proof.
  intros [ni nf] d rest Hf Hi. cbn [fst snd] in Hf, Hi.
  unfold call_method, render_decimal_format, dec_ready, dec_format. cbn [fst snd].
  set (w := dec_width (ni, nf)). cbn -[w].
  rewrite int_gt0. destruct (0 <? dexp d) eqn:E; cbn -[w].
  - rewrite Nat2Z.id. reflexivity.
  - rewrite digits_len.
    assert (Hl : dec_intw d <= ni) by (apply Hi; lia). pose proof (dec_intw_pos d) as Hp.
    assert (Ew : Z.of_nat w = ni + nf + (if 0 <? nf then 1 else 0)).
    { unfold w, dec_width. rewrite Z2Nat.id; [reflexivity|]. destruct (0 <? nf); lia. }
    replace (Z.max 1 (dec_nd d + dexp d) + (if dneg d then 1 else 0)) with (dec_intw d)
      by (unfold dec_intw; destruct (dneg d); reflexivity).
    replace (Z.max 1 (dec_nd d + dexp d) + (if dneg d then 1 else 0)) with (dec_intw d)
      by (unfold dec_intw; destruct (dneg d); reflexivity).
    assert (E1 : (ni - dec_intw d <? 0) = false) by (apply Z.ltb_ge; lia).
    assert (E2 : (Z.of_nat w - (ni - dec_intw d) <? 0) = false) by (apply Z.ltb_ge; destruct (0 <? nf); lia).
    cbn -[w]. rewrite ?E1, ?E2. cbn -[w]. rewrite ?E1, ?E2. cbn -[w].
    unfold rjust. cbn [length]. rewrite Nat.sub_0_r, !app_nil_r.
    replace (Z.to_nat (Z.of_nat w - (ni - dec_intw d))) with (w - Z.to_nat (ni - dec_intw d))%nat by lia.
    reflexivity.
Qed.

(* ---- update() over a whole column = the state Render.col_prepare computes *)
Fixpoint run_updates (fd : fdef) (flds : env) (vs : list pv) : res env :=
  match vs with
  | [] => Ok flds
  | v :: t => bind (call_method call_ref P fd flds [v]) (fun r => run_updates fd (fst r) t)
  end.

Theorem decimal_column_src : forall (ds : list dec) (mw : pv) (st : Z * Z) (rest : env),
  run_updates render_decimal_update (dec_fields mw st rest) (map (fun d => PV (VDec d)) ds) =
  Ok (dec_fields mw (fold_left dec_update ds st) rest).
Proof.
  induction ds as [|d ds IH]; intros mw st rest; [reflexivity|].
  cbn [map run_updates fold_left]. rewrite decimal_update_src. cbn [bind fst]. apply IH.
Qed.

Theorem bool_column_src : forall (bs : list bool) (w : Z) (rest : env),
  run_updates render_bool_update (("maxwidth", PInt w) :: rest) (map PBool bs) =
  Ok (("maxwidth", PInt (fold_left (fun (w : Z) (b : bool) => Z.max w (if b then 4 else 5)) bs w)) :: rest).
Proof.
  induction bs as [|b bs IH]; intros w rest; [reflexivity|].
  cbn [map run_updates fold_left]. rewrite bool_update_src. cbn [bind fst]. apply IH.
Qed.
End Tie.
