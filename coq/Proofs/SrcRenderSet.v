(* Tie by translation (C16, bld-render5): SetRenderer (__init__ / update / format; prepare is ColumnRenderer's) and
   EnumRenderer.format of beanquery/query_render.py (Gen/SrcRenderSet.v).  Interpreting the translated methods on the
   encodings of Model/PrimsRenderSet.v yields Render.v's set_update / set_format (the functions st_width / st_format use
   for TSet columns); EnumRenderer.format answers the member's name (Enum columns are str columns over the names). *)
From Coq Require Import String ZArith List Bool Lia.
Import ListNotations.
From Verif Require Import Base.PyValue Model.Eval Model.PyMini Model.Render Model.PrimsRender Gen.SrcRender
  Gen.SrcRenderSet Model.PrimsRenderCost Model.PrimsRenderSet Proofs.PyMiniLemmas Proofs.PyMiniLemmas2 Proofs.SrcRenderAmount.
Open Scope string_scope.
Open Scope Z_scope.
Open Scope list_scope.

Section SetTie.
Variable call_ref : nat -> list pv -> pv.
Notation PS := prims_set.

Definition set_env (mw prep : pv) (sep : str) : env := [("maxwidth", mw); ("prepared", prep); ("sep", enc_s sep)].

Theorem set_init_src : forall (dc : pv) (o : opts),
  bind (call_method call_ref PS render_base_init [] [enc_ctx dc o])
       (fun r => call_method call_ref PS render_set_init_tail (fst r) [enc_ctx dc o]) =
  Ok (set_env (PInt 0) (PBool false) (o_listsep o), PNone).
Proof. reflexivity. Qed.

Theorem set_prepare_src : forall (w prep : pv) (sep : str),
  call_method call_ref PS render_base_prepare (set_env w prep sep) [] = Ok (set_env w (PBool true) sep, w).
Proof. reflexivity. Qed.

Lemma n_map_ints (f : str -> Z) l : n_map_opt as_int (map (fun x => PInt (f x)) l) = Some (map f l).
Proof. induction l as [|x l IH]; cbn; [reflexivity|]. rewrite IH. reflexivity. Qed.
Lemma n_map_strs l : n_map_opt dec_s (map enc_s l) = Some l.
Proof. induction l as [|x l IH]; cbn; [reflexivity|]. rewrite IH. reflexivity. Qed.

Lemma fold_sum (sep : str) l : forall a,
  fold_left Z.add (map (fun x : str => Z.of_nat (length x) + Z.of_nat (length sep)) l) a =
  fold_left (fun a x => a + Z.of_nat (length x) + Z.of_nat (length sep)) l a.
Proof. induction l as [|x l IH]; intros a; cbn [map fold_left]; [reflexivity|]. rewrite IH. f_equal. lia. Qed.

Definition set_st (V mw prep : pv) (sep : str) : st :=
  {| locals := [("self", PSelf); ("value", V)]; fields := set_env mw prep sep |}.
Definition len_elt : expr := XBin OAdd (XLen (XName "x")) (XLen (XAttr (XName "self") "sep")).
Definition str_elt : expr := XPrim "builtins.str" [XName "x"].

Lemma lens_map_res V mw prep sep l :
  map_res (fun v => bind (eval call_ref PS (write (set_st V mw prep sep) (TName "x") v) len_elt) (fun p => Ok (snd p)))
          (map enc_s l) =
  Ok (map (fun x : str => PInt (Z.of_nat (length x) + Z.of_nat (length sep))) l).
Proof. induction l as [|x l IH]; [reflexivity|]. cbn [map map_res]. rewrite IH. reflexivity. Qed.

Lemma strs_map_res V mw prep sep l :
  map_res (fun v => bind (eval call_ref PS (write (set_st V mw prep sep) (TName "x") v) str_elt) (fun p => Ok (snd p)))
          (map enc_s l) = Ok (map enc_s l).
Proof. induction l as [|x l IH]; [reflexivity|]. cbn [map map_res]. rewrite IH. reflexivity. Qed.

Lemma eval_lens V mw prep sep l : V = PList (map enc_s l) ->
  eval call_ref PS (set_st V mw prep sep) (XListComp len_elt "x" (XName "value") None) =
  Ok (set_st V mw prep sep, PList (map (fun x : str => PInt (Z.of_nat (length x) + Z.of_nat (length sep))) l)).
Proof.
  intros HV. rewrite (eval_listcomp call_ref PS len_elt "x" (XName "value") _ (set_st V mw prep sep) (map enc_s l)).
  - rewrite lens_map_res. reflexivity.
  - rewrite HV. reflexivity.
Qed.

Lemma eval_strs V mw prep sep l : V = PList (map enc_s l) ->
  eval call_ref PS (set_st V mw prep sep) (XListComp str_elt "x" (XPrim "builtins.sorted" [XName "value"]) None) =
  Ok (set_st V mw prep sep, PList (map enc_s (sort_strs l))).
Proof.
  intros HV.
  rewrite (eval_listcomp call_ref PS str_elt "x" _ _ (set_st V mw prep sep) (map enc_s (sort_strs l))).
  - rewrite strs_map_res. reflexivity.
  - rewrite HV. cbn -[sort_strs]. rewrite n_map_strs. reflexivity.
Qed.

Theorem set_update_src : forall (w : Z) (prep : pv) (sep : str) (l : list str),
  call_method call_ref PS render_set_update (set_env (PInt w) prep sep) [enc_set l] =
  Ok (set_env (PInt (set_update sep w l)) prep sep, PNone).
Proof.
  intros w prep sep l. unfold call_method, render_set_update, enc_set.
  cbn [bind_params f_params f_body f_gen].
  fold len_elt.
  pose proof (eval_lens _ (PInt w) prep sep l eq_refl) as E. unfold set_st, set_env in E.
  remember (XListComp len_elt "x" (XName "value") None) as LC eqn:ELC.
  remember (PList (map enc_s l)) as V eqn:EV. unfold set_env.
  cbn. rewrite E. cbn. rewrite n_map_ints. cbn. rewrite fold_sum. reflexivity.
Qed.

Theorem set_column_src : forall (ls : list (list str)) (w : Z) (prep : pv) (sep : str),
  run_updates_p call_ref PS render_set_update (set_env (PInt w) prep sep) (map enc_set ls) =
  Ok (set_env (PInt (fold_left (set_update sep) ls w)) prep sep).
Proof.
  induction ls as [|a ls IH]; intros w prep sep; [reflexivity|].
  cbn [map run_updates_p fold_left]. rewrite set_update_src. cbn [bind fst]. apply IH.
Qed.

Theorem set_format_src : forall (mw prep : pv) (sep : str) (l : list str),
  call_method call_ref PS render_set_format (set_env mw prep sep) [enc_set l] =
  Ok (set_env mw prep sep, PV (VStr (set_format sep l))).
Proof.
  intros mw prep sep l. unfold call_method, render_set_format, enc_set.
  cbn [bind_params f_params f_body f_gen].
  fold str_elt.
  pose proof (eval_strs _ mw prep sep l eq_refl) as E. unfold set_st, set_env in E.
  remember (XListComp str_elt "x" (XPrim "builtins.sorted" [XName "value"]) None) as LC eqn:ELC.
  remember (PList (map enc_s l)) as V eqn:EV. unfold set_env.
  cbn. rewrite E. cbn -[sort_strs]. rewrite n_map_strs. reflexivity.
Qed.

(* the whole life of a set column: __init__, update over the column's sets, prepare: the width is the one Render.col_prepare
   / st_width give a TSet column, and format is st_format's cell *)
Theorem set_lifecycle_src : forall (quant : dec -> str -> dec) (numfmt : list (dec * str) -> dec -> str -> str)
    (dc : pv) (o : opts) (vals : list cellv),
  let W := fold_left (set_update (o_listsep o)) (the_sets vals) 0 in
  bind (bind (call_method call_ref PS render_base_init [] [enc_ctx dc o])
             (fun r => call_method call_ref PS render_set_init_tail (fst r) [enc_ctx dc o]))
       (fun r => bind (run_updates_p call_ref PS render_set_update (fst r) (map enc_set (the_sets vals)))
                      (fun flds => call_method call_ref PS render_base_prepare flds [])) =
  Ok (set_env (PInt W) (PBool true) (o_listsep o), PInt W) /\
  Z.to_nat W = st_width numfmt (col_prepare quant o TSet vals) /\
  forall l, call_method call_ref PS render_set_format (set_env (PInt W) (PBool true) (o_listsep o)) [enc_set l] =
            Ok (set_env (PInt W) (PBool true) (o_listsep o),
                enc_out (st_format numfmt o TSet (col_prepare quant o TSet vals) (CSet l))).
Proof.
  intros quant numfmt dc o vals W. split; [|split; [reflexivity|intros l; apply set_format_src]].
  rewrite set_init_src. cbn [bind fst]. rewrite set_column_src. cbn [bind]. apply set_prepare_src.
Qed.

(* EnumRenderer.format: the member's name (update / prepare are ObjectRenderer's / ColumnRenderer's, tied in Proofs/SrcRender.v) *)
Theorem enum_format_src : forall (flds : env) (n : str),
  call_method call_ref PS render_enum_format flds [enc_enum n] = Ok (flds, PV (VStr n)).
Proof. reflexivity. Qed.

(* InventoryRenderer.positionsortkey: (currency, -number, (cost.currency, -cost.number, cost.date) if cost else ()) *)
Theorem inv_sortkey_src : forall (u : amt) (c : option cost),
  call_function call_ref prims_invkey render_inv_sortkey [enc_fpos u c] = Ok (inv_sortkey u c).
Proof. intros [n cur] [[[cn cc] d lb]|]; reflexivity. Qed.
End SetTie.
