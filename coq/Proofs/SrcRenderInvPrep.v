(* Tie by translation (C16, bld-render6): InventoryRenderer.prepare under expand (Gen/SrcRenderInv.v
   render_inv_prepare_expand) and the life cycle update* / prepare / format of an expanded Inventory column. *)
From Coq Require Import String ZArith List Bool Lia.
Import ListNotations.
From Verif Require Import Base.PyValue Model.Eval Model.PyMini Model.Render Model.PrimsRender Gen.SrcRender
  Gen.SrcRenderInv Model.PrimsRenderPos Model.PrimsRenderInv Proofs.PyMiniLemmas Proofs.PyMiniLemmas2
  Proofs.SrcRenderTop Proofs.SrcRenderAmount Proofs.SrcRenderInv.
Open Scope string_scope.
Open Scope Z_scope.
Open Scope list_scope.

Section InvPrepTie.
Variable call_ref : nat -> list pv -> pv.
Variable numfmt : list (dec * str) -> dec -> str -> str.
Variable kq : nat.
Notation PR := (prims_invp call_ref numfmt (fresh_posr kq)).

Lemma pr_getdefault rs : PR "ddict.getdefault" [PList rs; PBool true] = Ok (cur kq rs).
Proof. reflexivity. Qed.
Lemma pr_set rs v : PR "dict.set" [PList rs; PBool true; v] = Ok (PList (ddict_set rs (PBool true) v)).
Proof. reflexivity. Qed.
Lemma pr_prepare mw prep st : no_default (p_u st) -> no_default (p_c st) ->
  method_call PR "prepare" (posr kq mw prep st) [] = Ok (the_renderer numfmt kq st, PInt (Z.of_nat (p_width numfmt st))).
Proof.
  intros Hu Hc.
  assert (E : PR "method:prepare" [posr kq mw prep st] =
              Ok (PTuple [the_renderer numfmt kq st; PInt (Z.of_nat (p_width numfmt st))])).
  { unfold prims_invp. cbn [String.eqb Ascii.eqb Bool.eqb].
    change (posr_flds (posr kq mw prep st)) with (Some (pos_env kq mw prep st)). cbv beta iota.
    rewrite (position_prepare_src call_ref numfmt kq mw prep st Hu Hc). reflexivity. }
  unfold method_call, posr, posr_obj. cbn [String.append]. fold (posr_obj (pos_env kq mw prep st)). fold (posr kq mw prep st).
  rewrite E. reflexivity.
Qed.

Local Arguments prims_invp : simpl never.
Local Arguments method_call : simpl never.
Local Arguments posr : simpl never.
Local Arguments cur : simpl never.
Local Arguments the_renderer : simpl never.
Local Arguments ddict_set : simpl never.
Local Arguments Z.of_nat : simpl never.

Local Arguments p_width : simpl never.

Lemma inv_prepare_head_src (st : pstate) (mw prep mw' prep' ls cn ds : pv) (rs : list pv) :
  cur kq rs = posr kq mw' prep' st -> no_default (p_u st) -> no_default (p_c st) ->
  call_method call_ref PR render_inv_prepare_expand (inv_env mw prep ls cn ds rs) [] =
  Ok (inv_env (PInt (Z.of_nat (p_width numfmt st))) prep ls cn ds
        (ddict_set rs (PBool true) (the_renderer numfmt kq st)), PNone).
Proof.
  intros Hcur Hu Hc.
  unfold call_method, render_inv_prepare_expand, inv_env. cbn [bind_params f_params f_body f_gen].
  repeat (progress (cbn; rewrite ?pr_getdefault, ?Hcur, ?(pr_prepare _ _ _ Hu Hc), ?pr_set)).
  reflexivity.
Qed.

(* prepare() with expand = True, then ColumnRenderer.prepare: the renderer the key True stands for is prepared and stored
   under True (it is then format's the_renderer st), maxwidth = its width = Render.p_width, which is also the result *)
Theorem inv_prepare_expand_src : forall (st : pstate) (mw prep mw' prep' ls cn ds : pv) (rs : list pv),
  cur kq rs = posr kq mw' prep' st -> no_default (p_u st) -> no_default (p_c st) ->
  bind (call_method call_ref PR render_inv_prepare_expand (inv_env mw prep ls cn ds rs) [])
       (fun r => call_method call_ref PR render_base_prepare (fst r) []) =
  Ok (inv_env (PInt (Z.of_nat (p_width numfmt st))) (PBool true) ls cn ds
        (ddict_set rs (PBool true) (the_renderer numfmt kq st)),
      PInt (Z.of_nat (p_width numfmt st))).
Proof.
  intros st mw prep mw' prep' ls cn ds rs Hcur Hu Hc.
  rewrite (inv_prepare_head_src st mw prep mw' prep' ls cn ds rs Hcur Hu Hc). cbn [bind fst]. reflexivity.
Qed.

(* the life cycle of an expanded Inventory column: update() over its inventories from the empty dict of a new renderer,
   prepare(), then format(l) for any inventory l - each method interpreted under its own layer of primitives
   (prims_invu < prims_invp extend prims_inv).  The width is Render.p_width of Render.inv_state, the cell Render.inv_format. *)
Theorem inv_lifecycle_src : forall (quant : dec -> str -> dec),
  (forall d c, call_ref kq [PV (VDec d); PV (VStr c)] = PV (VDec (quant d c))) ->
  forall (invs : list (list posn)) (mw prep ls cn ds : pv),
  let S := inv_state quant invs in
  let W := PInt (Z.of_nat (p_width numfmt S)) in
  no_default (p_u S) -> no_default (p_c S) ->
  exists rs1 rs2,
    run_updates_p call_ref (prims_invu call_ref numfmt (fresh_posr kq)) render_inv_update_loop
      (inv_env mw prep ls cn ds []) (map enc_inv invs) = Ok (inv_env mw prep ls cn ds rs1) /\
    bind (call_method call_ref PR render_inv_prepare_expand (inv_env mw prep ls cn ds rs1) [])
         (fun r => call_method call_ref PR render_base_prepare (fst r) []) = Ok (inv_env W (PBool true) ls cn ds rs2, W) /\
    forall l, call_method call_ref (prims_inv call_ref numfmt) render_inv_format_expand (inv_env W (PBool true) ls cn ds rs2)
                [enc_inv l] = Ok (inv_env W (PBool true) ls cn ds rs2, PList (map enc_s (inv_format numfmt S l))).
Proof.
  intros quant Hq invs mw prep ls cn ds S W Hu Hc.
  destruct (inv_column_src call_ref quant numfmt kq Hq invs p_init mw prep (PInt 0) (PBool false) ls cn ds []
              (cur_empty kq)) as [rs1 [Hc1 E1]].
  exists rs1, (ddict_set rs1 (PBool true) (the_renderer numfmt kq S)).
  split; [exact E1|]. split.
  - exact (inv_prepare_expand_src S mw prep (PInt 0) (PBool false) ls cn ds rs1 Hc1 Hu Hc).
  - intros l. apply (inv_format_expand_src call_ref numfmt kq). apply get_set.
Qed.
End InvPrepTie.
