(* C20 (bld-misc): what the C09 source theorems about the Connection wrappers (Proofs/SrcParams.v, over the terms
   generated on every run into Gen/SrcParams.v) say for thread isolation: a connection shared by threads carries no
   slot in which a statement, a compiler or a cursor could be kept between (or during) two executions.
   Corollaries only: every fact about the translated code comes from the theorems of Proofs/SrcParams.v. *)
From Coq Require Import String ZArith List Bool.
Import ListNotations.
From Verif Require Import Base.PyValue Model.Eval Model.PyMini Model.PrimsApi Gen.SrcParams Proofs.SrcParams.
Open Scope string_scope.
Open Scope list_scope.
Open Scope Z_scope.

Section C20.
Variable call_ref : nat -> list pv -> pv.
Variable msg : string -> list pv -> pv.
Notation prim := (prim_api params_lib msg).

Lemma bind_ok {A B} (r : res A) (f : A -> res B) b : bind r f = Ok b -> exists a, r = Ok a /\ f a = Ok b.
Proof. destruct r; cbn; intros H; try discriminate. eauto. Qed.

(* Connection.execute, for EVERY attribute dictionary of the connection: if the call returns at all, the dictionary
   afterwards is the one before (nothing stored, nothing removed, nothing changed) and the value is what execute of
   the cursor made by THIS call returned *)
Lemma execute_keeps_attributes : forall (kcur : nat) (flds flds' : env) (q p r : pv),
  lookup "cursor" flds = Some (PRef kcur) ->
  call_method call_ref prim connection_execute flds [q; p] = Ok (flds', r) ->
  flds' = flds /\
  exists cur, do_call call_ref (PRef kcur) [] = Ok cur /\ opaque_method msg "call:execute" [cur; q; p] = Ok r.
Proof.
  intros kcur flds flds' q p r Hc H.
  rewrite (connection_execute_src call_ref msg kcur flds q p Hc) in H.
  apply bind_ok in H. destruct H as [cur [H1 H]]. apply bind_ok in H. destruct H as [r' [H2 H]].
  injection H as <- <-. split; [reflexivity|]. exists cur. split; assumption.
Qed.

Lemma cursor_keeps_attributes : forall (kC : nat) (flds flds' : env) (c : pv),
  ref_of refs "beanquery.cursor.Cursor" = Some kC ->
  call_method call_ref prim connection_cursor flds [] = Ok (flds', c) ->
  flds' = flds /\ do_call call_ref (PRef kC) [PSelf] = Ok c.
Proof.
  intros kC flds flds' c Hk H. rewrite (connection_cursor_src call_ref msg kC flds Hk) in H.
  apply bind_ok in H. destruct H as [c' [H1 H]]. injection H as <- <-. split; [reflexivity|assumption].
Qed.

Lemma parse_compile_keep_attributes : forall (kP kF : nat) (flds flds' : env) (q r : pv),
  ref_of refs "beanquery.parser.parse" = Some kP -> ref_of refs "beanquery.compiler.compile" = Some kF ->
  (call_method call_ref prim connection_parse flds [q] = Ok (flds', r) -> flds' = flds) /\
  (call_method call_ref prim connection_compile flds [q] = Ok (flds', r) -> flds' = flds).
Proof.
  intros kP kF flds flds' q r HP HF. split; intros H.
  - rewrite (connection_parse_src call_ref msg kP flds q HP) in H.
    apply bind_ok in H. destruct H as [x [_ H]]. injection H as <- _. reflexivity.
  - rewrite (connection_compile_src call_ref msg kF flds q HF) in H.
    apply bind_ok in H. destruct H as [x [_ H]]. injection H as <- _. reflexivity.
Qed.

(* the attributes a new connection starts with are exactly tables / options / errors *)
Lemma init_attribute_names : forall (kN : nat) (dsn : pv) (flds : env) (r : pv),
  ref_of refs "beanquery.tables.NullTable" = Some kN ->
  call_method call_ref prim connection_init_state [] [dsn] = Ok (flds, r) ->
  map fst flds = ["tables"; "options"; "errors"].
Proof.
  intros kN dsn flds r Hk H. rewrite (connection_init_src call_ref msg kN dsn Hk) in H.
  apply bind_ok in H. destruct H as [nt [_ H]]. injection H as <- _. reflexivity.
Qed.

Theorem no_connection_cache : forall (kcur kC kK kN kP kF : nat) (flds : env) (q p dsn ctx st prm : pv),
  lookup "cursor" flds = Some (PRef kcur) ->
  ref_of refs "beanquery.cursor.Cursor" = Some kC ->
  ref_of refs "beanquery.compiler.Compiler" = Some kK ->
  ref_of refs "beanquery.tables.NullTable" = Some kN ->
  ref_of refs "beanquery.parser.parse" = Some kP ->
  ref_of refs "beanquery.compiler.compile" = Some kF ->
  (forall flds' r, call_method call_ref prim connection_execute flds [q; p] = Ok (flds', r) ->
     flds' = flds /\
     exists cur, do_call call_ref (PRef kcur) [] = Ok cur /\ opaque_method msg "call:execute" [cur; q; p] = Ok r) /\
  (forall flds' c, call_method call_ref prim connection_cursor flds [] = Ok (flds', c) ->
     flds' = flds /\ do_call call_ref (PRef kC) [PSelf] = Ok c) /\
  (forall flds' r, call_method call_ref prim connection_parse flds [q] = Ok (flds', r) -> flds' = flds) /\
  (forall flds' r, call_method call_ref prim connection_compile flds [q] = Ok (flds', r) -> flds' = flds) /\
  (forall flds0 r, call_method call_ref prim connection_init_state [] [dsn] = Ok (flds0, r) ->
     map fst flds0 = ["tables"; "options"; "errors"]) /\
  call_function call_ref prim compiler_compile_fn [ctx; st; prm] =
    bind (do_call call_ref (PRef kK) [ctx]) (fun c => opaque_method msg "call:compile" [c; st; prm]).
Proof.
  intros kcur kC kK kN kP kF flds q p dsn ctx st prm Hc HC HK HN HP HF.
  split; [intros flds' r; apply execute_keeps_attributes; assumption|].
  split; [intros flds' c; apply cursor_keeps_attributes; assumption|].
  split; [intros flds' r; apply (proj1 (parse_compile_keep_attributes kP kF flds flds' q r HP HF))|].
  split; [intros flds' r; apply (proj2 (parse_compile_keep_attributes kP kF flds flds' q r HP HF))|].
  split; [intros flds0 r; apply (init_attribute_names kN); assumption|].
  apply compile_fn_src. assumption.
Qed.

End C20.
