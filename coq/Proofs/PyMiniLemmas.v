(* Reasoning principles for the PyMini interpreter: blocks and for-loops as top-level recursive functions. *)
From Coq Require Import String ZArith List Bool Lia.
Import ListNotations.
From Verif Require Import Base.PyValue Model.Eval Model.PyMini.
Open Scope string_scope.

Lemma lookup_update_eq x v e : lookup x (update x v e) = Some v.
Proof.
  induction e as [|[y w] t IH]; cbn; [now rewrite String.eqb_refl|].
  destruct (String.eqb x y) eqn:E; cbn; rewrite E; auto.
Qed.

Lemma lookup_update_neq x y v e : String.eqb x y = false -> lookup x (update y v e) = lookup x e.
Proof.
  intros N. induction e as [|[z w] t IH]; cbn; [now rewrite N|].
  destruct (String.eqb y z) eqn:E; cbn.
  - apply String.eqb_eq in E; subst z. now rewrite N.
  - destruct (String.eqb x z); auto.
Qed.

Section L.
Variable call_ref : nat -> list pv -> pv.
Variable prim : string -> list pv -> res pv.
Notation exec := (exec call_ref prim).
Notation exec_block := (exec_block call_ref prim).
Notation eval := (PyMini.eval call_ref prim).

Definition block_in := fix block (s : st) (l : list stmt) : res outcome :=
  match l with
  | [] => Ok (Next s)
  | c :: t => bind (exec s c) (fun o => match o with Next s1 => block s1 t | Ret _ _ => Ok o end)
  end.

Lemma block_in_eq : forall l s, block_in s l = exec_block s l.
Proof.
  induction l as [|c t IH]; intros s; cbn; [reflexivity|].
  destruct (exec s c) as [[s1|s1 v]| |]; cbn; auto.
Qed.

(* the for-loop over the items of a list *)
Fixpoint for_loop (body : list stmt) (x : string) (s : st) (l : list pv) : res outcome :=
  match l with
  | [] => Ok (Next s)
  | v :: t => bind (exec_block (write s (TName x) v) body)
                (fun o => match o with Next s1 => for_loop body x s1 t | Ret _ _ => Ok o end)
  end.

Definition loop_in (body : list stmt) (x : string) := fix loop (s : st) (l : list pv) : res outcome :=
  match l with
  | [] => Ok (Next s)
  | v :: t => bind (block_in (write s (TName x) v) body)
                (fun o => match o with Next s1 => loop s1 t | Ret _ _ => Ok o end)
  end.

Lemma loop_in_eq body x : forall l s, loop_in body x s l = for_loop body x s l.
Proof.
  induction l as [|v t IH]; intros s; [reflexivity|].
  change (loop_in body x s (v :: t)) with
    (bind (block_in (write s (TName x) v) body)
       (fun o => match o with Next s1 => loop_in body x s1 t | Ret _ _ => Ok o end)).
  cbn [for_loop]. rewrite block_in_eq.
  destruct (exec_block (write s (TName x) v) body) as [[s1|s1 w]| |]; cbn [bind]; auto.
Qed.

Lemma exec_for x it body s s1 l :
  eval s it = Ok (s1, PList l) -> exec s (SFor x it body) = for_loop body x s1 l.
Proof.
  intros H. cbn [PyMini.exec]. rewrite H. cbn [bind]. apply (loop_in_eq body x l s1).
Qed.

Lemma exec_if c a b s s1 cv t :
  eval s c = Ok (s1, cv) -> pv_truthy cv = Ok t ->
  exec s (SIf c a b) = if t then exec_block s1 a else exec_block s1 b.
Proof.
  intros H Ht. cbn [PyMini.exec]. rewrite H. cbn [bind]. rewrite Ht. cbn [bind].
  destruct t; apply block_in_eq.
Qed.

(* list comprehension [f(x) for x in l] where the element expression calls a callable item on fixed arguments *)
Fixpoint map_res {A B} (f : A -> res B) (l : list A) : res (list B) :=
  match l with
  | [] => Ok []
  | a :: t => bind (f a) (fun b => bind (map_res f t) (fun bs => Ok (b :: bs)))
  end.

Lemma eval_listcomp elt x it s s1 l :
  eval s it = Ok (s1, PList l) ->
  eval s (XListComp elt x it None) =
  bind (map_res (fun v => bind (eval (write s1 (TName x) v) elt) (fun p => Ok (snd p))) l)
       (fun vs => Ok (s1, PList vs)).
Proof.
  intros H. cbn [PyMini.eval]. rewrite H. cbn [bind].
  match goal with |- bind ?a _ = bind ?b _ => assert (E : a = b) end.
  { clear H. induction l as [|v t IH]; [reflexivity|]. cbn [map_res].
    destruct (eval (write s1 (TName x) v) elt) as [[s2 r]| |]; cbn [bind snd]; try reflexivity.
    rewrite IH. reflexivity. }
  rewrite E. reflexivity.
Qed.

End L.
