(* Tie by translation, C09 (bld-shell3): the PyMini terms generated on every run from the CURRENT source of
   beanquery.Connection.__init__ and Connection.attach (Gen/SrcAttach.v). *)
From Coq Require Import String Ascii ZArith List Bool Lia.
Import ListNotations.
From Verif Require Import Base.PyValue Model.Eval Model.PyMini Model.PrimsApi Model.PrimsAttach Proofs.PyMiniLemmas.
From Verif Require Import Gen.SrcAttach.
Open Scope string_scope.
Open Scope list_scope.
Open Scope Z_scope.

Section Tie.
Variable call_ref : nat -> list pv -> pv.
Variable msg : string -> list pv -> pv.
Notation prim := (prim_attach msg).

Definition kNull : nat := 0.
Definition kUrlparse : nat := 1.
Definition kImport : nat := 2.

Lemma refs_ok :
  ref_of refs "beanquery.tables.NullTable" = Some kNull /\
  ref_of refs "urllib.parse.urlparse" = Some kUrlparse /\
  ref_of refs "importlib.import_module" = Some kImport.
Proof. repeat split. Qed.

Definition is_none (v : pv) : bool := match v with PV VNull => true | _ => false end.

(* Connection(dsn, **kwargs): whatever the object held before (only its bound method attach, as a callable), it has
   afterwards EXACTLY the attributes tables = {'': NullTable()}, options = {}, errors = [] - no other attribute, so no
   per-connection cache - and attach(dsn, kwargs) is called exactly when a dsn is given *)
Theorem connection_init_src : forall (kA : nat) (dsn kw : pv),
  call_method call_ref prim connection_init [("attach", PRef kA)] [dsn; kw] =
  bind (do_call call_ref (PRef kNull) []) (fun nt =>
  let flds := new_connection (PRef kA) nt in
  if is_none dsn then Ok (flds, PNone)
  else bind (do_call call_ref (PRef kA) [dsn; kw]) (fun _ => Ok (flds, PNone))).
Proof.
  intros kA dsn kw. unfold connection_init, call_method, kNull, new_connection.
  cbn -[do_call]. destruct (do_call call_ref (PRef 0) []) as [nt| |]; cbn -[do_call]; try reflexivity.
  destruct dsn as [[]| | | |]; cbn -[do_call]; try reflexivity;
    match goal with |- context [do_call ?c ?f ?a] => destruct (do_call c f a); reflexivity end.
Qed.

(* conn.attach(dsn, **kwargs): assigns NO attribute of the connection (every field is as before); what changes the
   connection is the source module's attach, which receives the connection ITSELF, the dsn and the keywords; the
   module is importlib.import_module("beanquery.sources." + urlparse(dsn).scheme) *)
Definition attach_steps (dsn kw : pv) : res pv :=
  bind (do_call call_ref (PRef kUrlparse) [dsn]) (fun u =>
  bind (opaque_method msg "attr:scheme" [u]) (fun sch =>
  bind (match sch with
        | PV (VStr s) => Ok (PV (VStr (zs "beanquery.sources." ++ s)))
        | _ => Ok (msg "fstring" [PStr "beanquery.sources."; sch])
        end) (fun modname =>
  bind (do_call call_ref (PRef kImport) [modname]) (fun src =>
  bind (opaque_method msg "attr:attach" [src]) (fun f =>
  do_call call_ref f [PSelf; dsn; kw]))))).

(* urlparse(..) and import_module(..) return opaque objects (or raise) *)
Definition objects_ok : Prop :=
  forall a, match call_ref kUrlparse a with PRef _ | PV (VErr _) => True | _ => False end /\
            match call_ref kImport a with PRef _ | PV (VErr _) => True | _ => False end.

Lemma do_call_eq n a v : call_ref n a = v ->
  do_call call_ref (PRef n) a = match v with PV (VErr k) => Exc k | _ => Ok v end.
Proof. intros <-. unfold do_call. destruct (call_ref n a) as [[]| | | |]; reflexivity. Qed.

Theorem connection_attach_src : forall (flds : env) (dsn kw : pv),
  objects_ok ->
  call_method call_ref prim connection_attach flds [dsn; kw] =
  bind (attach_steps dsn kw) (fun _ => Ok (flds, PNone)).
Proof.
  intros flds dsn kw Hobj. unfold connection_attach, call_method, attach_steps, kUrlparse, kImport, PStr.
  cbn -[do_call opaque_method].
  pose proof (proj1 (Hobj [dsn])) as H1. unfold kUrlparse in H1.
  destruct (call_ref 1%nat [dsn]) as [[]| | |ku|] eqn:E1; try destruct H1; rewrite (do_call_eq _ _ _ E1);
    cbn -[do_call opaque_method]; try reflexivity.
  destruct (opaque_method msg "attr:scheme" [PRef ku]) as [sch| |]; cbn -[do_call opaque_method]; try reflexivity.
  destruct sch as [[]| | | |]; cbn -[do_call opaque_method]; rewrite ?app_nil_r.
  all: match goal with |- context [do_call call_ref (PRef 2%nat) [?m]] =>
    pose proof (proj2 (Hobj [m])) as H2; unfold kImport in H2;
    destruct (call_ref 2%nat [m]) as [[]| | |km|] eqn:E2; try destruct H2; rewrite !(do_call_eq _ _ _ E2);
    cbn -[do_call opaque_method]; try reflexivity
  end.
  all: (match goal with |- context [opaque_method msg "attr:attach" [?x]] =>
     destruct (opaque_method msg "attr:attach" [x]) as [f| |] end; cbn -[do_call opaque_method]; try reflexivity;
   match goal with |- context [do_call ?c ?g ?a] => destruct (do_call c g a); reflexivity end).
Qed.

End Tie.
