(* Tie by translation (C16), top level: the PyMini term generated from the SOURCE of query_render.render_rows
   (Gen/SrcRender.v render_rows_fn) yields, for every list of column renderers, every options record and all rows,
   the lines of Model/Render.v's render_rows (NULL placeholder, expansion of list cells into several lines padded
   with '', the spacing row).  Encodings and primitives: Model/PrimsRender.v (section Top). *)
From Coq Require Import String ZArith List Bool Lia Arith.
Import ListNotations.
From Verif Require Import Base.PyValue Model.Eval Model.PyMini Model.Render Model.PrimsRender Gen.SrcRender
  Proofs.PyMiniLemmas Proofs.PyMiniLemmas2.
Open Scope string_scope.
Open Scope Z_scope.
Open Scope list_scope.

Ltac step_env := repeat (rewrite ?lookup_update_eq; rewrite ?lookup_update_neq by reflexivity).

(* ---- decoding inverts encoding *)
Lemma dec_enc_strs l : n_map_opt dec_s (map enc_s l) = Some l.
Proof. induction l as [|s t IH]; [reflexivity|]. cbn [map n_map_opt dec_s enc_s]. now rewrite IH. Qed.
Lemma dec_enc_amt a : dec_amt (enc_amt a) = Some a.
Proof. destruct a; reflexivity. Qed.
Lemma dec_enc_posn p : dec_posn (enc_posn p) = Some p.
Proof. destruct p as [[d s] [[cd cs]|]]; reflexivity. Qed.
Lemma dec_enc_posns l : n_map_opt dec_posn (map enc_posn l) = Some l.
Proof. induction l as [|s t IH]; [reflexivity|]. cbn [map n_map_opt]. now rewrite dec_enc_posn, IH. Qed.
Lemma dec_enc_rcell c : dec_rcell (enc_rcell c) = Some c.
Proof.
  destruct c; try reflexivity.
  - cbn. now rewrite dec_enc_strs.
  - destruct a; reflexivity.
  - cbn -[dec_posn]. change (PTuple _) with (enc_posn p). now rewrite dec_enc_posn.
  - cbn. now rewrite dec_enc_posns.
Qed.
Lemma dec_enc_rcells l : n_map_opt dec_rcell (map enc_rcell l) = Some l.
Proof. induction l as [|s t IH]; [reflexivity|]. cbn [map n_map_opt]. now rewrite dec_enc_rcell, IH. Qed.
Lemma dec_enc_rdtype t : dec_rdtype (enc_rdtype t) = Some t.
Proof. destruct t; reflexivity. Qed.
Lemma dec_enc_robj t dc o vals : dec_robj (robj t (enc_ctx dc o) vals) = Some (t, ctx_opts o, vals).
Proof. unfold dec_robj, robj. rewrite dec_enc_rdtype, dec_enc_rcells. reflexivity. Qed.

Lemma is_none_enc c : pv_is_none (enc_rcell c) = match c with CNull => true | _ => false end.
Proof. destruct c; reflexivity. Qed.

Section Top.
Variable call_ref : nat -> list pv -> pv.
Variable quant : dec -> str -> dec.
Variable numfmt : list (dec * str) -> dec -> str -> str.
Notation PT := (prims_top quant numfmt).
Variable dc : pv.
Variable o : opts.
Notation ctx := (enc_ctx dc o).

Definition rend (tv : dtype * list cellv) : pv := robj (fst tv) ctx (snd tv).
Definition rstate_of (tv : dtype * list cellv) : dtype * rstate := (fst tv, col_prepare quant o (fst tv) (snd tv)).

Lemma format_prim tv c :
  PT "call:format" [rend tv; enc_rcell c] = Ok (enc_out (st_format numfmt o (fst tv) (snd (rstate_of tv)) c)).
Proof.
  unfold rend. cbn -[dec_robj dec_rcell robj enc_ctx]. rewrite dec_enc_robj, dec_enc_rcell. reflexivity.
Qed.

(* ---- the pieces of the generated body *)
Definition rr_body : list stmt := Eval cbv in match nth 2 (f_body render_rows_fn) SPass with SFor _ _ b => b | _ => [] end.
Definition cells_expr : expr := Eval cbv in match nth 0 rr_body SPass with SAssign _ e => e | _ => XConst PNone end.
Definition rr_if : stmt := Eval cbv in nth 1 rr_body SPass.
Definition rr_spaced : stmt := Eval cbv in nth 2 rr_body SPass.

Lemma rr_shape : f_params render_rows_fn = ["rows"; "renderers"; "ctx"] /\ f_gen render_rows_fn = true /\
  f_body render_rows_fn =
  [SAssign (TName "null") (XAttr (XName "ctx") "null");
   SAssign (TName "spacerow") (XBin OMul (XList [XConst (PV (VStr []))]) (XLen (XName "renderers")));
   SFor "row" (XName "rows") [SAssign (TName "cells") cells_expr; rr_if; rr_spaced]].
Proof. repeat split. Qed.

Local Arguments dec_robj : simpl never.
Local Arguments dec_rcell : simpl never.
Local Arguments enc_rcell : simpl never.
Local Arguments pv_is_none : simpl never.
Local Arguments rend : simpl never.
Local Arguments st_format : simpl never.
Local Arguments col_prepare : simpl never.

Variable tvs0 : list (dtype * list cellv).

Lemma cells_eval : forall loc row,
  lookup "renderers" loc = Some (PList (map rend tvs0)) -> lookup "row" loc = Some (PList (map enc_rcell row)) ->
  lookup "null" loc = Some (enc_s (o_null o)) ->
  PyMini.eval call_ref PT {| locals := loc; fields := [] |} cells_expr =
  Ok ({| locals := loc; fields := [] |}, PList (map enc_out (map2 (render_cell numfmt o) (map rstate_of tvs0) row))).
Proof.
  intros loc row Hr Hw Hn. unfold cells_expr.
  erewrite eval_listcomp; [|cbn; rewrite Hr; cbn; rewrite Hw; reflexivity].
  match goal with |- bind ?m _ = _ =>
    assert (E : m = Ok (map enc_out (map2 (render_cell numfmt o) (map rstate_of tvs0) row))) end.
  { clear Hr Hw. revert row. induction tvs0 as [|tv tvs IH]; intros row; [reflexivity|].
    destruct row as [|c row]; [reflexivity|].
    cbn [map zip2 map2 map_res].
    repeat (progress (cbn -[map_res]; step_env; rewrite ?is_none_enc; change (Pos.to_nat 1) with 1%nat;
                      change (pv_is_none (PV VNull)) with true)).
    unfold render_cell at 1.
    destruct c; repeat (progress (cbn -[map_res]; step_env; rewrite ?Hn; change (Pos.to_nat 1) with 1%nat));
      try (unfold rend at 1; rewrite dec_enc_robj, dec_enc_rcell; cbn -[map_res]); rewrite IH; reflexivity. }
  rewrite E. reflexivity.
Qed.

(* ---- generic: yield *)
Definition ylist (loc : env) : option (list pv) :=
  match lookup yield_var loc with Some (PList acc) => Some acc | None => Some [] | _ => None end.

Lemma exec_yield s e v acc :
  PyMini.eval call_ref PT s e = Ok (s, v) -> ylist (locals s) = Some acc ->
  PyMini.exec call_ref PT s (SYield e) = Ok (Next (write s (TName yield_var) (PList (acc ++ [v])))).
Proof.
  intros He Hy. cbn [PyMini.exec]. rewrite He. cbn [bind]. unfold ylist in Hy.
  destruct (lookup yield_var (locals s)) as [[| l | | |]|]; try discriminate; injection Hy as <-; reflexivity.
Qed.

Lemma ylist_write s acc : ylist (locals (write s (TName yield_var) (PList acc))) = Some acc.
Proof. unfold ylist. cbn [write locals]. now rewrite lookup_update_eq. Qed.

Lemma ylist_other x v loc : String.eqb yield_var x = false -> ylist (update x v loc) = ylist loc.
Proof. intros H. unfold ylist. now rewrite lookup_update_neq by exact H. Qed.

(* for $y in l: yield $y *)
Lemma yield_all : forall (l : list pv) loc acc, ylist loc = Some acc ->
  exists loc',
  for_loop call_ref PT [SYield (XName "$y")] "$y" {| locals := loc; fields := [] |} l =
  Ok (Next {| locals := loc'; fields := [] |}) /\ ylist loc' = Some (acc ++ l) /\
  (forall x, String.eqb x "$y" = false -> String.eqb x yield_var = false -> lookup x loc' = lookup x loc).
Proof.
  induction l as [|v l IH]; intros loc acc Hy.
  - exists loc. rewrite app_nil_r. repeat split; auto.
  - cbn [for_loop]. rewrite exec_block_cons.
    rewrite (exec_yield _ _ v acc); [|cbn; now rewrite lookup_update_eq|cbn [write locals]; rewrite ylist_other by reflexivity; exact Hy].
    cbn [bind]. rewrite exec_block_nil. cbn [bind write locals fields].
    destruct (IH (update yield_var (PList (acc ++ [v])) (update "$y" v loc)) (acc ++ [v])) as [loc' [E [Hy' Hf]]].
    { unfold ylist. now rewrite lookup_update_eq. }
    exists loc'. split; [exact E|]. split; [rewrite Hy', <- app_assoc; reflexivity|].
    intros x H1 H2. rewrite (Hf x H1 H2). rewrite lookup_update_neq by exact H2. apply lookup_update_neq. exact H1.
Qed.

(* ---- integers *)
Lemma int_lt a b : compare1 CLt (PInt a) (PInt b) = Ok (a <? b).
Proof.
  cbn. unfold val_le, StableSort.lex, StableSort.on, rank, num_q, QArith_base.Qle_bool. cbn.
  rewrite !Z.mul_1_r. destruct (b <=? a) eqn:E1; destruct (a <=? b) eqn:E2; destruct (a <? b) eqn:E3; try reflexivity; lia.
Qed.

Lemma zmax_nmax : forall l z, 0 <= z -> fold_left Z.max (map Z.of_nat l) z = Z.max z (Z.of_nat (nmax l)).
Proof.
  induction l as [|a l IH]; intros z Hz; cbn [map fold_left nmax fold_right]; [lia|].
  rewrite IH by lia. fold (nmax l). lia.
Qed.

(* ---- padding and transposition *)
Definition padn (n : nat) (c : list str) : list str := c ++ repeat [] (n - length c).

Lemma nth_padn n c i : nth i (padn n c) [] = nth i c [].
Proof.
  unfold padn. destruct (Nat.lt_ge_cases i (length c)) as [H|H].
  - now rewrite app_nth1.
  - rewrite app_nth2 by exact H. rewrite (nth_overflow c) by exact H.
    destruct (Nat.lt_ge_cases (i - length c) (n - length c)) as [H2|H2].
    + now rewrite nth_repeat.
    + apply nth_overflow. now rewrite repeat_length.
Qed.

Lemma padn_length n c : (length c <= n)%nat -> length (padn n c) = n.
Proof. intros H. unfold padn. rewrite app_length, repeat_length. lia. Qed.

Lemma le_nmax (l : list nat) x : In x l -> (x <= nmax l)%nat.
Proof. induction l as [|a l IH]; intros H; [destruct H|]. cbn. destruct H as [<-|H]; [lia|]. specialize (IH H). unfold nmax in IH. lia. Qed.

Lemma min_fold (L : list (list str)) n : (forall c, In c L -> (length c <= n)%nat) ->
  fold_right (fun (c : list pv) m => Nat.min (length c) m) n (map (fun c => map enc_s (padn n c)) L) = n.
Proof.
  induction L as [|c L IH]; intros Hle; [reflexivity|]. cbn [map fold_right].
  rewrite IH by (intros c' Hc'; apply Hle; right; exact Hc').
  rewrite map_length, padn_length by (apply Hle; left; reflexivity). lia.
Qed.

Lemma transpose_padded (ls : list (list str)) n : ls <> [] -> (forall c, In c ls -> (length c <= n)%nat) ->
  transpose (map (fun c => map enc_s (padn n c)) ls) =
  map (fun i => PTuple (map (fun c => enc_s (nth i c [])) ls)) (seq 0 n).
Proof.
  intros Hne Hle. destruct ls as [|c0 ls]; [congruence|]. unfold transpose. cbn [map].
  change (map enc_s (padn n c0) :: map (fun c => map enc_s (padn n c)) ls)
    with (map (fun c => map enc_s (padn n c)) (c0 :: ls)).
  rewrite map_length, padn_length by (apply Hle; left; reflexivity).
  rewrite min_fold by exact Hle.
  apply map_ext_in. intros i Hi. apply in_seq in Hi. f_equal.
  assert (H : forall c, In c (c0 :: ls) -> nth i (map enc_s (padn n c)) PNone = enc_s (nth i c [])).
  { intros c Hc. rewrite (nth_indep _ PNone (enc_s [])) by (rewrite map_length, padn_length by (apply Hle; exact Hc); lia).
    rewrite (map_nth enc_s). now rewrite nth_padn. }
  cbn [map]. f_equal; [apply H; left; reflexivity|]. rewrite map_map. apply map_ext_in. intros c Hc. apply H. right. exact Hc.
Qed.

Definition rr_else : list stmt := Eval cbv in match rr_if with SIf _ _ b => b | _ => [] end.
Definition pad_body : list stmt := Eval cbv in match nth 3 rr_else SPass with SFor _ _ b => b | _ => [] end.

Lemma pad_concat (c : list str) n :
  map enc_s c ++ concat (repeat [enc_s []] (Z.to_nat (Z.of_nat n - Z.of_nat (length (map enc_s c))))) = map enc_s (padn n c).
Proof.
  unfold padn. rewrite map_app, map_length. f_equal.
  replace (Z.to_nat (Z.of_nat n - Z.of_nat (length c))) with (n - length c)%nat by lia.
  induction (n - length c)%nat as [|k IH]; [reflexivity|]. cbn [repeat concat map app]. now rewrite IH.
Qed.

Local Arguments compare1 : simpl never.
Local Arguments Z.of_nat : simpl never.
Local Arguments Z.to_nat : simpl never.
Local Arguments Z.sub : simpl never.
Local Arguments Z.max : simpl never.
Local Arguments for_loop : simpl never.

Lemma for_loop_cons body x s v t :
  for_loop call_ref PT body x s (v :: t) =
  bind (PyMini.exec_block call_ref PT (write s (TName x) v) body)
    (fun o => match o with Next s1 => for_loop call_ref PT body x s1 t | Ret _ _ => Ok o end).
Proof. reflexivity. Qed.
Lemma for_loop_nil body x s : for_loop call_ref PT body x s [] = Ok (Next s).
Proof. reflexivity. Qed.

Definition enc_strs (c : list str) : pv := PList (map enc_s c).

Lemma pad_loop n : forall (cs : list (list str)) loc acc,
  lookup "$new" loc = Some (PList acc) -> lookup "nlines" loc = Some (PInt (Z.of_nat n)) ->
  exists loc',
  for_loop call_ref PT pad_body "cell" {| locals := loc; fields := [] |} (map enc_strs cs) =
  Ok (Next {| locals := loc'; fields := [] |}) /\
  lookup "$new" loc' = Some (PList (acc ++ map (fun c => enc_strs (padn n c)) cs)) /\
  (forall x, String.eqb x "$new" = false -> String.eqb x "cell" = false -> lookup x loc' = lookup x loc).
Proof.
  induction cs as [|c cs IH]; intros loc acc Hn Hl.
  - exists loc. rewrite for_loop_nil, app_nil_r. repeat split; auto.
  - cbn [map]. rewrite for_loop_cons. unfold pad_body at 1, enc_strs at 1.
    repeat (progress (cbn -[for_loop]; step_env; rewrite ?Hl, ?Hn, ?int_lt)).
    destruct (Z.of_nat (length (map enc_s c)) <? Z.of_nat n) eqn:E;
      repeat (progress (cbn -[for_loop]; step_env; rewrite ?Hl, ?Hn, ?pad_concat)).
    + match goal with |- context [for_loop _ _ _ _ {| locals := ?L; fields := _ |} _] =>
        destruct (IH L (acc ++ [enc_strs (padn n c)])) as [loc' [E' [Hn' Hf]]] end.
      { apply lookup_update_eq. } { step_env. exact Hl. }
      exists loc'. split; [exact E'|]. split; [rewrite Hn', <- app_assoc; reflexivity|].
      intros x H1 H2. rewrite (Hf x H1 H2). step_env. rewrite lookup_update_neq by exact H1.
      rewrite lookup_update_neq by exact H2. apply lookup_update_neq. exact H2.
    + assert (Ep : padn n c = c).
      { unfold padn. rewrite map_length in E. replace (n - length c)%nat with 0%nat by lia. apply app_nil_r. }
      match goal with |- context [for_loop _ _ _ _ {| locals := ?L; fields := _ |} _] =>
        destruct (IH L (acc ++ [enc_strs (padn n c)])) as [loc' [E' [Hn' Hf]]] end.
      { rewrite Ep. apply lookup_update_eq. } { step_env. exact Hl. }
      exists loc'. split; [exact E'|]. split; [rewrite Hn', <- app_assoc; reflexivity|].
      intros x H1 H2. rewrite (Hf x H1 H2). rewrite lookup_update_neq by exact H1. apply lookup_update_neq. exact H2.
Qed.

(* ---- one row *)
Definition keep (loc loc' : env) : Prop :=
  forall x, In x ["renderers"; "null"; "spacerow"; "ctx"] -> lookup x loc' = lookup x loc.

Ltac keep_tac := let x := fresh "x" in let H := fresh "H" in
  intros x H; cbn [In] in H; repeat (destruct H as [<-|H]; [step_env; try reflexivity|]); try destruct H.

Lemma enc_out_wrap c : (match enc_out c with PList _ => enc_out c | _ => PList [enc_out c] end) = enc_strs (as_list c).
Proof. destruct c; reflexivity. Qed.

Lemma enc_out_islist c : (match enc_out c with PList _ => true | _ => false end) = is_many c.
Proof. destruct c; reflexivity. Qed.

Definition many_lines (cells : list cell) : list pv :=
  let ls := map as_list cells in
  let n := Nat.max 1 (nmax (map (@length str) ls)) in
  map (fun i => PTuple (map (fun c => enc_s (nth i c [])) ls)) (seq 0 n).

Lemma as_ints_lens (ls : list (list str)) :
  n_map_opt as_int (map (fun c => PInt (Z.of_nat (length (map enc_s c)))) ls) = Some (map Z.of_nat (map (@length str) ls)).
Proof. induction ls as [|c t IH]; [reflexivity|]. cbn [map n_map_opt as_int PInt]. rewrite IH, map_length. reflexivity. Qed.

Lemma seqs_of_strs (ls : list (list str)) :
  n_map_opt seq_of (map (fun c => enc_strs c) ls) = Some (map (fun c => map enc_s c) ls).
Proof. induction ls as [|c t IH]; [reflexivity|]. cbn [map n_map_opt seq_of enc_strs]. now rewrite IH. Qed.

Lemma max_list_prim (ls : list (list str)) : ls <> [] ->
  PT "builtins.max" [PList (map (fun c => PInt (Z.of_nat (length (map enc_s c)))) ls)] =
  Ok (PInt (Z.of_nat (nmax (map (@length str) ls)))).
Proof.
  intros Hne. cbn -[Z.of_nat n_map_opt]. rewrite as_ints_lens. destruct ls as [|c0 ls']; [congruence|]. cbn [map].
  rewrite zmax_nmax by lia. cbn [nmax fold_right]. fold (nmax (map (@length str) ls')). f_equal. f_equal. lia.
Qed.

Definition rr_e0 : stmt := Eval cbv in nth 0 rr_else SPass.
Definition rr_e1 : stmt := Eval cbv in nth 1 rr_else SPass.
Lemma rr_else_shape : rr_else =
  [rr_e0; rr_e1; SAssign (TName "$new") (XList []); SFor "cell" (XName "cells") pad_body;
   SAssign (TName "cells") (XName "$new"); SFor "$y" (XPrim "zip*" [XName "cells"]) [SYield (XName "$y")]].
Proof. reflexivity. Qed.

Lemma branch_many cells loc acc :
  lookup "cells" loc = Some (PList (map enc_out cells)) -> existsb is_many cells = true -> ylist loc = Some acc ->
  exists loc', exec_block call_ref PT {| locals := loc; fields := [] |} rr_else = Ok (Next {| locals := loc'; fields := [] |}) /\
    ylist loc' = Some (acc ++ many_lines cells) /\ keep loc loc'.
Proof.
  intros Hc Hm Hy. rewrite rr_else_shape. unfold rr_e0, rr_e1.
  set (ls := map as_list cells). set (n := Nat.max 1 (nmax (map (@length str) ls))).
  (* 1. cells = [cell if isinstance(cell, list) else [cell] for cell in cells] *)
  rewrite exec_block_cons.
  erewrite exec_assign.
  2:{ erewrite eval_listcomp; [|cbn; rewrite Hc; reflexivity].
      rewrite (map_res_ok _ (fun v => match v with PList _ => v | _ => PList [v] end)); [reflexivity|].
      intros v Hv. apply in_map_iff in Hv. destruct Hv as [c [<- _]].
      repeat (progress (cbn; step_env)). destruct c; reflexivity. }
  cbn [bind write locals fields]. rewrite map_map.
  rewrite (map_ext _ (fun c => enc_strs (as_list c))) by (intros c; apply enc_out_wrap).
  rewrite <- (map_map as_list enc_strs). fold ls.
  (* 2. nlines *)
  rewrite exec_block_cons.
  assert (Hne : ls <> []).
  { unfold ls. destruct cells; [discriminate|]. discriminate. }
  assert (En : Z.max 1 (Z.of_nat (nmax (map (@length str) ls))) = Z.of_nat n) by (unfold n; lia).
  match goal with |- context [PyMini.exec call_ref PT ?S (SAssign (TName "nlines") ?E)] =>
    rewrite (exec_assign call_ref PT (TName "nlines") E S S (PInt (Z.of_nat n))) end.
  2:{ erewrite eval_prim2; [|reflexivity|].
      2:{ erewrite eval_prim1.
          2:{ erewrite eval_listcomp; [|cbn; step_env; reflexivity].
              rewrite (map_res_ok _ (fun v => match v with PList l => PInt (Z.of_nat (length l)) | _ => PNone end)); [reflexivity|].
              intros v Hv. apply in_map_iff in Hv. destruct Hv as [c [<- _]].
              repeat (progress (cbn; step_env)). reflexivity. }
          rewrite map_map. cbn [enc_strs]. rewrite (max_list_prim ls Hne). reflexivity. }
      rewrite <- En. reflexivity. }
  cbn [bind write locals fields].
  (* 3. $new = [] *)
  rewrite exec_block_cons. cbn [PyMini.exec PyMini.eval bind write locals fields].
  (* 4. the padding loop *)
  rewrite exec_block_cons.
  erewrite (exec_for call_ref PT "cell" (XName "cells") pad_body _ _ (map enc_strs ls)); [|cbn; step_env; reflexivity].
  match goal with |- context [for_loop _ _ _ _ {| locals := ?L; fields := _ |} _] =>
    destruct (pad_loop n ls L []) as [loc1 [E1 [Hn1 Hf1]]] end.
  { apply lookup_update_eq. } { step_env. reflexivity. }
  rewrite E1. cbn [bind app].
  (* 5. cells = $new *)
  rewrite exec_block_cons.
  erewrite exec_assign; [|cbn; rewrite Hn1; reflexivity].
  cbn [bind write locals fields].
  (* 6. for $y in zip( *cells ): yield $y *)
  rewrite exec_block_cons.
  assert (Hle : forall c, In c ls -> (length c <= n)%nat).
  { intros c Hc'. unfold n. pose proof (le_nmax (map (@length str) ls) (length c) (in_map _ _ _ Hc')). lia. }
  erewrite (exec_for call_ref PT "$y" _ [SYield (XName "$y")] _ _ (many_lines cells)).
  2:{ cbn -[n_map_opt transpose]. step_env. cbn -[n_map_opt transpose].
      rewrite <- (map_map (padn n) enc_strs), seqs_of_strs, map_map.
      rewrite (transpose_padded ls n Hne Hle). reflexivity. }
  match goal with |- context [for_loop _ _ _ _ {| locals := ?L; fields := _ |} _] =>
    destruct (yield_all (many_lines cells) L acc) as [loc2 [E2 [Hy2 Hf2]]] end.
  { rewrite ylist_other by reflexivity. unfold ylist. rewrite (Hf1 yield_var) by reflexivity. step_env. exact Hy. }
  rewrite E2. cbn [bind]. rewrite exec_block_nil.
  exists loc2. split; [reflexivity|]. split; [exact Hy2|].
  intros x H; cbn [In] in H.
  repeat (destruct H as [<-|H]; [rewrite (Hf2 _) by reflexivity; step_env; rewrite (Hf1 _) by reflexivity; step_env; reflexivity|]).
  destruct H.
Qed.

Definition rr_inv (loc : env) : Prop :=
  lookup "renderers" loc = Some (PList (map rend tvs0)) /\ lookup "null" loc = Some (enc_s (o_null o)) /\
  lookup "spacerow" loc = Some (PList (repeat (enc_s []) (length tvs0))) /\ lookup "ctx" loc = Some ctx.

Lemma keep_inv loc loc' : keep loc loc' -> rr_inv loc -> rr_inv loc'.
Proof.
  intros K [H1 [H2 [H3 H4]]]. unfold rr_inv.
  rewrite !K by (cbn; auto). auto.
Qed.

Definition row_pv (row : list cellv) : list pv :=
  let cells := map2 (render_cell numfmt o) (map rstate_of tvs0) row in
  (if existsb is_many cells then many_lines cells else [PList (map enc_out cells)]) ++
  (if o_spaced o then [PList (repeat (enc_s []) (length tvs0))] else []).

Definition any_expr : expr := Eval cbv in match rr_if with SIf (XNot (XPrim _ [e])) _ _ => e | _ => XConst PNone end.

Lemma rr_if_shape : rr_if = SIf (XNot (XPrim "truth" [any_expr])) [SYield (XName "cells")] rr_else.
Proof. reflexivity. Qed.
Lemma rr_spaced_shape : rr_spaced = SIf (XPrim "truth" [XAttr (XName "ctx") "spaced"]) [SYield (XName "spacerow")] [].
Proof. reflexivity. Qed.
Lemma rr_body_shape : rr_body = [SAssign (TName "cells") cells_expr; rr_if; rr_spaced].
Proof. reflexivity. Qed.

Lemma any_prim cells :
  PT "builtins.any" [PList (map (fun c => PBool (is_many c)) cells)] = Ok (PBool (existsb is_many cells)).
Proof.
  cbn -[n_map_opt].
  assert (E : n_map_opt as_boolv (map (fun c => PBool (is_many c)) cells) = Some (map is_many cells)).
  { induction cells as [|c t IH]; [reflexivity|]. cbn [map n_map_opt as_boolv PBool]. now rewrite IH. }
  rewrite E. do 3 f_equal. clear E. induction cells as [|c t IH]; [reflexivity|]. cbn [map existsb]. rewrite IH. reflexivity.
Qed.

Lemma any_eval cells loc : lookup "cells" loc = Some (PList (map enc_out cells)) ->
  PyMini.eval call_ref PT {| locals := loc; fields := [] |} any_expr =
  Ok ({| locals := loc; fields := [] |}, PBool (existsb is_many cells)).
Proof.
  intros Hc. unfold any_expr.
  erewrite eval_prim1.
  2:{ erewrite eval_listcomp; [|cbn; rewrite Hc; reflexivity].
      rewrite (map_res_ok _ (fun v => PBool (match v with PList _ => true | _ => false end))); [reflexivity|].
      intros v Hv. apply in_map_iff in Hv. destruct Hv as [c [<- _]]. repeat (progress (cbn; step_env)). reflexivity. }
  rewrite map_map. rewrite (map_ext _ (fun c => PBool (is_many c))) by (intros c; now rewrite enc_out_islist).
  rewrite any_prim. reflexivity.
Qed.

Lemma row_iter loc row acc : rr_inv loc -> ylist loc = Some acc ->
  exists loc',
  exec_block call_ref PT (write {| locals := loc; fields := [] |} (TName "row") (PList (map enc_rcell row))) rr_body =
  Ok (Next {| locals := loc'; fields := [] |}) /\ rr_inv loc' /\ ylist loc' = Some (acc ++ row_pv row).
Proof.
  intros [Hr [Hn [Hs Hx]]] Hy. rewrite rr_body_shape. cbn [write locals fields].
  set (cells := map2 (render_cell numfmt o) (map rstate_of tvs0) row).
  rewrite exec_block_cons.
  erewrite exec_assign; [|apply cells_eval; step_env; assumption || reflexivity].
  cbn [bind write locals fields]. fold cells.
  set (loc1 := update "cells" (PList (map enc_out cells)) (update "row" (PList (map enc_rcell row)) loc)).
  assert (K1 : keep loc loc1) by (unfold loc1; keep_tac).
  assert (Hc1 : lookup "cells" loc1 = Some (PList (map enc_out cells))) by apply lookup_update_eq.
  assert (Hy1 : ylist loc1 = Some acc) by (unfold loc1; rewrite !ylist_other by reflexivity; exact Hy).
  clearbody loc1.
  (* the if statement *)
  rewrite exec_block_cons, rr_if_shape.
  erewrite (exec_if call_ref PT _ _ _ _ _ (PBool (negb (existsb is_many cells))) (negb (existsb is_many cells))).
  2:{ cbn [PyMini.eval]. rewrite (any_eval cells loc1 Hc1). cbn. destruct (existsb is_many cells); reflexivity. }
  2:{ destruct (existsb is_many cells); reflexivity. }
  assert (E2 : exists loc2, (if negb (existsb is_many cells)
                 then exec_block call_ref PT {| locals := loc1; fields := [] |} [SYield (XName "cells")]
                 else exec_block call_ref PT {| locals := loc1; fields := [] |} rr_else) = Ok (Next {| locals := loc2; fields := [] |}) /\
               keep loc1 loc2 /\
               ylist loc2 = Some (acc ++ (if existsb is_many cells then many_lines cells else [PList (map enc_out cells)]))).
  { destruct (existsb is_many cells) eqn:Em; cbn [negb].
    - destruct (branch_many cells loc1 acc Hc1 Em Hy1) as [loc2 [E [Hy2 K2]]]. exists loc2. auto.
    - rewrite exec_block_cons.
      rewrite (exec_yield _ _ (PList (map enc_out cells)) acc); [|cbn; rewrite Hc1; reflexivity|exact Hy1].
      cbn [bind write locals fields]. rewrite exec_block_nil. eexists. split; [reflexivity|]. split.
      + keep_tac.
      + unfold ylist. now rewrite lookup_update_eq. }
  destruct E2 as [loc2 [E2 [K2 Hy2]]]. rewrite E2. cbn [bind].
  assert (I2 : rr_inv loc2) by (apply (keep_inv loc1); [exact K2|apply (keep_inv loc); [exact K1|repeat split; assumption]]).
  destruct I2 as [Hr2 [Hn2 [Hs2 Hx2]]].
  (* the spacing row *)
  rewrite exec_block_cons, rr_spaced_shape.
  erewrite (exec_if call_ref PT _ _ _ _ _ (PBool (o_spaced o)) (o_spaced o)).
  2:{ erewrite eval_prim1; [|cbn; rewrite Hx2; reflexivity]. reflexivity. }
  2:{ reflexivity. }
  unfold row_pv. fold cells. destruct (o_spaced o).
  - rewrite exec_block_cons.
    erewrite (exec_yield _ _ (PList (repeat (enc_s []) (length tvs0)))); [|cbn; rewrite Hs2; reflexivity|exact Hy2].
    cbn [bind write locals fields]. rewrite exec_block_nil. cbn [bind]. rewrite exec_block_nil.
    eexists. split; [reflexivity|]. split.
    + apply (keep_inv loc2); [keep_tac|repeat split; assumption].
    + unfold ylist. rewrite lookup_update_eq. now rewrite <- app_assoc.
  - rewrite exec_block_nil. cbn [bind]. rewrite exec_block_nil. exists loc2. split; [reflexivity|]. split.
    + repeat split; assumption.
    + now rewrite app_nil_r.
Qed.

Definition enc_rrow (r : list cellv) : pv := PList (map enc_rcell r).

Lemma rows_loop : forall rows loc acc, rr_inv loc -> ylist loc = Some acc ->
  exists loc',
  for_loop call_ref PT rr_body "row" {| locals := loc; fields := [] |} (map enc_rrow rows) =
  Ok (Next {| locals := loc'; fields := [] |}) /\ ylist loc' = Some (acc ++ flat_map row_pv rows) /\ rr_inv loc'.
Proof.
  induction rows as [|r rows IH]; intros loc acc Hi Hy.
  - exists loc. rewrite for_loop_nil, app_nil_r. auto.
  - cbn [map flat_map]. rewrite for_loop_cons. unfold enc_rrow at 1.
    destruct (row_iter loc r acc Hi Hy) as [loc1 [E1 [I1 Hy1]]]. rewrite E1. cbn [bind].
    destruct (IH loc1 (acc ++ row_pv r) I1 Hy1) as [loc' [E [Hy' I']]].
    exists loc'. split; [exact E|]. split; [rewrite Hy', <- app_assoc; reflexivity|exact I'].
Qed.

Lemma concat_repeat1 {A} (x : A) n : concat (repeat [x] n) = repeat x n.
Proof. induction n as [|n IH]; [reflexivity|]. cbn. now rewrite IH. Qed.

Theorem render_rows_pv : forall rows,
  call_function call_ref PT render_rows_fn [PList (map enc_rrow rows); PList (map rend tvs0); ctx] =
  Ok (PList (flat_map row_pv rows)).
Proof.
  intros rows. destruct rr_shape as [Hp [Hg Hb]]. unfold call_function. rewrite Hp, Hg, Hb. cbn [bind_params].
  rewrite exec_block_cons. erewrite exec_assign; [|reflexivity]. cbn [bind write locals fields update String.eqb Ascii.eqb Bool.eqb].
  rewrite exec_block_cons. erewrite exec_assign.
  2:{ cbn -[Z.of_nat Z.to_nat]. rewrite Nat2Z.id, concat_repeat1, map_length. reflexivity. }
  cbn [bind write locals fields]. rewrite exec_block_cons.
  erewrite (exec_for call_ref PT "row" (XName "rows") _ _ _ (map enc_rrow rows)); [|reflexivity].
  fold rr_body.
  match goal with |- context [for_loop _ _ _ _ {| locals := ?L; fields := _ |} _] =>
    destruct (rows_loop rows L []) as [loc' [E [Hy' _]]] end.
  { repeat split. } { reflexivity. }
  change [SAssign (TName "cells") cells_expr; rr_if; rr_spaced] with rr_body.
  rewrite E. cbn [bind]. rewrite exec_block_nil. cbn [bind locals app] in *.
  unfold ylist in Hy'. destruct (lookup yield_var loc') as [[| l | | |]|]; try discriminate; injection Hy' as <-; reflexivity.
Qed.

(* ---- the lines as strings: Render.render_rows *)
Lemma n_map_opt_app {A B} (g : A -> option B) l1 l2 r1 r2 :
  n_map_opt g l1 = Some r1 -> n_map_opt g l2 = Some r2 -> n_map_opt g (l1 ++ l2) = Some (r1 ++ r2).
Proof.
  revert r1. induction l1 as [|a l1 IH]; intros r1 H1 H2; cbn in *.
  - injection H1 as <-. exact H2.
  - destruct (g a); [|discriminate]. destruct (n_map_opt g l1) eqn:E; [|discriminate]. injection H1 as <-.
    now rewrite (IH l eq_refl H2).
Qed.

Lemma n_map_opt_map {A B C} (g : B -> option C) (h : A -> B) (k : A -> C) l :
  (forall a, g (h a) = Some (k a)) -> n_map_opt g (map h l) = Some (map k l).
Proof. intros H. induction l as [|a l IH]; [reflexivity|]. cbn [map n_map_opt]. now rewrite H, IH. Qed.

Lemma row_pv_lines row : n_map_opt line_of (row_pv row) = Some (render_row numfmt o (map rstate_of tvs0) row).
Proof.
  unfold row_pv, render_row. set (cells := map2 (render_cell numfmt o) (map rstate_of tvs0) row).
  apply n_map_opt_app.
  - destruct (existsb is_many cells) eqn:Em.
    + unfold many_lines. apply n_map_opt_map. intros i. unfold line_of. cbn [seq_of].
      rewrite <- (map_map (fun c => nth i c []) enc_s). apply dec_enc_strs.
    + cbn [n_map_opt line_of seq_of].
      assert (E : map enc_out cells = map enc_s (map cell_str cells)).
      { rewrite map_map. apply map_ext_in. intros c Hc. destruct c; [reflexivity|].
        exfalso. assert (existsb is_many cells = true) by (apply existsb_exists; exists (Many l); auto). congruence. }
      rewrite E, dec_enc_strs. reflexivity.
  - destruct (o_spaced o); [|reflexivity]. cbn [n_map_opt line_of seq_of].
    assert (E : repeat (enc_s []) (length tvs0) = map enc_s (map (fun _ => []) (map rstate_of tvs0))).
    { rewrite !map_map. induction tvs0 as [|t l IH]; [reflexivity|]. cbn. now rewrite IH. }
    rewrite E, dec_enc_strs. reflexivity.
Qed.

Lemma rows_pv_lines rows :
  n_map_opt line_of (flat_map row_pv rows) = Some (render_rows numfmt o (map rstate_of tvs0) rows).
Proof.
  unfold render_rows. induction rows as [|r rows IH]; [reflexivity|]. cbn [flat_map].
  apply n_map_opt_app; [apply row_pv_lines|exact IH].
Qed.

Theorem render_rows_src : forall rows, exists vs,
  call_function call_ref PT render_rows_fn [PList (map enc_rrow rows); PList (map rend tvs0); ctx] = Ok (PList vs) /\
  n_map_opt line_of vs = Some (render_rows numfmt o (map rstate_of tvs0) rows).
Proof.
  intros rows. exists (flat_map row_pv rows). split; [apply render_rows_pv|].
  unfold render_rows. induction rows as [|r rows IH]; [reflexivity|]. cbn [flat_map].
  apply n_map_opt_app; [apply row_pv_lines|exact IH].
Qed.
End Top.
