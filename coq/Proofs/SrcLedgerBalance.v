(* Tie by translation (C12): the PyMini term generated from the SOURCE of the `balance` column accessor of the
   postings table (query_env.balance, taken from the live column object) computes, on every Row state and posting,
   what Model/Balance.v's [balance_col] computes: a memo hit returns the memo and leaves the Row alone; otherwise the
   posting is added to the running Inventory, a copy is memoised under the rowid and returned.
   The Row is the receiver: its attributes are the fields [rowst_fields st posting entry] (Model/PrimsLedger.v).
   Inventory.add_position is Model/Inventory.add_position on the encoded inventory (primitive), copy.copy the
   identity on values.  Also: Row.__init__ (translated) builds Balance.row_init. *)
From Coq Require Import String ZArith List Bool Lia.
Import ListNotations.
From Verif Require Import Base.PyValue Model.Eval Model.PyMini Model.PrimsLedger Model.Inventory Model.Balance
  Gen.SrcLedgerBalance Proofs.PyValueProofs Proofs.PyMiniLemmas Proofs.PyMiniLemmasLedger.
Open Scope string_scope.
Open Scope list_scope.
Open Scope Z_scope.

Local Arguments prims_ledger : simpl never.
Local Arguments val_eq : simpl never.

Lemma val_eq_int a b : val_eq (VInt a) (VInt b) = (a =? b).
Proof.
  unfold val_eq, StableSort.eqv. rewrite !val_le_int.
  destruct (a =? b) eqn:E; [apply Z.eqb_eq in E; subst; rewrite Z.leb_refl; reflexivity|].
  apply Z.eqb_neq in E. destruct (a <=? b) eqn:E1; destruct (b <=? a) eqn:E2; try reflexivity.
  apply Z.leb_le in E1, E2. lia.
Qed.

(* ---------------------------------------------------------------- decoders invert the encoders *)
Lemma dec_enc_ocost c : Inv.dec_ocost (Inv.enc_ocost c) = Some c.
Proof. destruct c as [[n cu d [l|]]|]; reflexivity. Qed.

Lemma dec_enc_position p : Inv.dec_position (Inv.enc_position p) = Some p.
Proof.
  destruct p as [n c k]. unfold Inv.enc_position, Inv.dec_position. cbn [pnum pcur pcost PInt].
  rewrite dec_enc_ocost. reflexivity.
Qed.

Lemma dec_enc_entry e : Inv.dec_entry (Inv.enc_entry e) = Some e.
Proof.
  destruct e as [[c k] n]. unfold Inv.enc_entry, Inv.dec_entry. cbn [fst snd PInt].
  rewrite dec_enc_ocost. reflexivity.
Qed.

Lemma dec_enc_inv i : Inv.dec_inv (Inv.enc_inv i) = Some i.
Proof.
  unfold Inv.dec_inv, Inv.enc_inv. induction i as [|e t IH]; [reflexivity|].
  cbn [map Inv.dec_entries]. rewrite dec_enc_entry, IH. reflexivity.
Qed.

Section Tie.
Variable call_ref : nat -> list pv -> pv.
Variable ext : string -> list pv -> res pv.
Notation prims := (prims_ledger SrcLedgerBalance.refs ext).

Lemma prim_add_position b p :
  prims "method:add_position" [Inv.enc_inv b; Inv.enc_position p] =
  Ok (PTuple [Inv.enc_inv (add_position b p); PNone]).
Proof.
  unfold prims_ledger.
  change (strip_prefix "attr:" "method:add_position") with (@None string).
  change (strip_prefix "setattr:" "method:add_position") with (@None string).
  cbn [String.eqb Ascii.eqb Bool.eqb ROW]. rewrite dec_enc_inv, dec_enc_position. reflexivity.
Qed.

Lemma prim_copy v : prims "copy.copy" [v] = Ok v.
Proof. reflexivity. Qed.

Theorem row_init_src : forall es o,
  call_method call_ref prims src_row_init row_class_attrs [es; o] = Ok (rowst_fields row_init PNone PNone, PNone).
Proof. intros. reflexivity. Qed.

Theorem balance_src : forall (st : rowst) (p : position) (ent : pv),
  call_method call_ref prims src_balance (rowst_fields st (Inv.enc_position p) ent) [] =
  Ok (rowst_fields (fst (balance_col st p)) (Inv.enc_position p) ent, Inv.enc_inv (snd (balance_col st p))).
Proof.
  intros [rid bal memo] p ent. unfold balance_col, memo_hit. cbn [Balance.memo Balance.rowid Balance.rbal].
  destruct memo as [[id v]|].
  - (* a memo exists: balance_rowid = id *)
    destruct (id =? rid) eqn:E; cbn; rewrite val_eq_int, E; cbn.
    + (* hit *) reflexivity.
    + (* stale memo *) rewrite prim_add_position. cbn. rewrite prim_copy. reflexivity.
  - (* no memo yet *)
    cbn. rewrite prim_add_position. cbn. rewrite prim_copy. reflexivity.
Qed.
End Tie.
