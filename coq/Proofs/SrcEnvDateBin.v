(* C18 -- the tie by translation of date_bin(relativedelta, date, date) (beanquery/query_env.py), bld-env2.

   Gen/SrcEnv2.v holds the PyMini term of the WHOLE function, regenerated on every run (harness/vf/src_env2.py); its two
   `while True:` loops are fuelled: `for $while in $fuel: ..` over an extra last parameter, followed by the marker primitive
   "while:exhausted" that has no semantics (Stuck).  Here:

   * [date_bin_src_fuel]: for EVERY fuel list and all inputs, interpreting the term = [lift] of Model/Dates.v's date_bin model
     run with that much fuel ([date_bin_fuel (length fuel)]: Dates.date_bin_gen true with the fuel made a parameter; the model's
     fuel-exhausted value VErr 9 is exactly what [lift] maps to Stuck);
   * [date_bin_fuel_enough]: when the model with ITS OWN fuel (|source - origin| + 1 passes) does not run out, any fuel at
     least that long gives the same value (monotonicity of the two loops in the fuel);
   * [date_bin_src]: the two together - the term = lift (Dates.date_bin_rd ..);
   * [date_bin_src_progress_fwd / _bwd], [date_bin_src_range]: the model's own fuel IS sufficient whenever every addition
     of the stride moves the date forward (DatesProofs.date_bin_months_fwd / _bwd), in particular for the strides
     bin_strides on 1900..2100 (DatesTheorems.progress, checked over every date).  So the loop makes at most
     |source - origin| + 1 passes: every pass moves n by at least one day.

   The hypothesis [day_ok] of the theorems concerns strides in days only: Dates.date_bin_gen returns
   origin + (source - origin) / k * k without the range check `origin + timedelta(..)` makes (OverflowError before
   0001-01-01); the tie is stated for results that are dates. *)
From Coq Require Import String ZArith List Bool Lia.
Import ListNotations.
From Verif Require Import Base.PyValue Model.PyMini Model.Dates Model.PrimsEnv Model.PrimsEnvDateBin Gen.SrcEnv2
  Proofs.PyMiniLemmas Proofs.PyValueProofs Proofs.DatesProofs Proofs.DatesChecks Proofs.DatesTheorems.
Open Scope string_scope.
Open Scope list_scope.
Open Scope Z_scope.

Local Arguments val_le : simpl never.
Local Arguments rd_add : simpl never.
Local Arguments add_days : simpl never.
Local Arguments Z.mul : simpl nomatch.
Local Arguments Z.add : simpl nomatch.
Local Arguments Z.sub : simpl nomatch.
Local Arguments Z.opp : simpl nomatch.
Local Arguments Z.modulo : simpl nomatch.
Local Arguments Z.div : simpl nomatch.
Local Arguments Z.leb : simpl nomatch.
Local Arguments Z.ltb : simpl nomatch.
Local Arguments Z.eqb : simpl nomatch.

(* ------------------------------------------------------------------ the model with the fuel as a parameter *)
Definition date_bin_fuel (fuel : nat) (r : rdelta) (source origin : Z) : value :=
  if negb (rd_months r =? 0) || negb (rd_years r =? 0) then
    match rd_add origin r with
    | VDate o1 =>
      if o1 <=? origin then VNull else
      if origin <=? source
      then bin_fwd true (fun n => rd_add n r) fuel origin source
      else bin_bwd (fun n => rd_add n (rd_neg r)) fuel origin source
    | e => e
    end
  else
    let k := rd_days r in
    if k <? 0 then VNull else
    if k =? 0 then VErr 4 else
    VDate (origin + ((source - origin) / k) * k).

(* the model's own fuel *)
Definition model_fuel (source origin : Z) : nat :=
  if origin <=? source then Z.to_nat (source - origin + 1) else Z.to_nat (origin - source + 1).

Lemma date_bin_fuel_model r source origin :
  date_bin_fuel (model_fuel source origin) r source origin = date_bin_rd r source origin.
Proof.
  unfold date_bin_fuel, date_bin_rd, date_bin_gen, model_fuel.
  destruct (negb (rd_months r =? 0) || negb (rd_years r =? 0)); [|reflexivity].
  destruct (rd_add origin r); try reflexivity.
  destruct (_ <=? origin); [reflexivity|]. destruct (origin <=? source); reflexivity.
Qed.

(* more fuel does not change a result that is not "out of fuel" *)
Lemma bin_fwd_mono step source : forall n d m, (n <= m)%nat ->
  bin_fwd true step n d source <> VErr 9 -> bin_fwd true step m d source = bin_fwd true step n d source.
Proof.
  induction n as [|n IH]; intros d m Hm Hne; [cbn in Hne; congruence|].
  destruct m as [|m]; [lia|]. cbn [bin_fwd] in *.
  destruct (step d) as [| | | | |d0|]; try reflexivity. destruct (source <? d0); [reflexivity|]. apply IH; [lia|exact Hne].
Qed.

Lemma bin_bwd_mono step source : forall n d m, (n <= m)%nat ->
  bin_bwd step n d source <> VErr 9 -> bin_bwd step m d source = bin_bwd step n d source.
Proof.
  induction n as [|n IH]; intros d m Hm Hne; [cbn in Hne; congruence|].
  destruct m as [|m]; [lia|]. cbn [bin_bwd] in *.
  destruct (step d) as [| | | | |d0|]; try reflexivity. destruct (d0 <=? source); [reflexivity|]. apply IH; [lia|exact Hne].
Qed.

Theorem date_bin_fuel_enough r source origin n :
  date_bin_rd r source origin <> VErr 9 -> (model_fuel source origin <= n)%nat ->
  date_bin_fuel n r source origin = date_bin_rd r source origin.
Proof.
  rewrite <- date_bin_fuel_model. unfold date_bin_fuel. intros Hne Hn.
  destruct (negb (rd_months r =? 0) || negb (rd_years r =? 0)); [|reflexivity].
  destruct (rd_add origin r); try reflexivity.
  destruct (_ <=? origin); [reflexivity|]. destruct (origin <=? source).
  - apply bin_fwd_mono; assumption.
  - apply bin_bwd_mono; assumption.
Qed.

(* date + relativedelta is a date, ValueError (1) or OverflowError (2) *)
Lemma rd_add_cases o r : (exists n, rd_add o r = VDate n) \/ rd_add o r = VErr 1 \/ rd_add o r = VErr 2.
Proof.
  unfold rd_add, rd_add_ymd, add_days. destruct (ord2ymd o) as [[y m] d].
  destruct (12 <? m + rd_months r); [|destruct (m + rd_months r <? 1)];
    (match goal with |- context [if ?c || ?c' then _ else _] => destruct (c || c') end; [auto|]);
    match goal with |- context [if valid_ord ?x then _ else _] => destruct (valid_ord x) end; eauto.
Qed.

(* ------------------------------------------------------------------ the translated term, cut into its blocks *)
Definition COND : expr := Eval cbv in match f_body env2_date_bin with [SIf c _ _] => c | _ => XConst PNone end.
Definition MB : list stmt := Eval cbv in match f_body env2_date_bin with [SIf _ a _] => a | _ => [] end.
Definition DB : list stmt := Eval cbv in match f_body env2_date_bin with [SIf _ _ b] => b | _ => [] end.
Definition C1 : stmt := Eval cbv in nth 0 MB SPass.
Definition C2 : expr := Eval cbv in match nth 1 MB SPass with SIf c _ _ => c | _ => XConst PNone end.
Definition FWD : list stmt := Eval cbv in match nth 1 MB SPass with SIf _ a _ => a | _ => [] end.
Definition BWD : list stmt := Eval cbv in match nth 1 MB SPass with SIf _ _ b => b | _ => [] end.
Definition FWD_BODY : list stmt := Eval cbv in match nth 2 FWD SPass with SFor _ _ b => b | _ => [] end.
Definition BWD_BODY : list stmt := Eval cbv in match nth 1 BWD SPass with SFor _ _ b => b | _ => [] end.
Definition EXH : list stmt := [SExpr (XPrim "while:exhausted" [])].

Lemma body_shape : f_body env2_date_bin = [SIf COND MB DB].
Proof. reflexivity. Qed.
Lemma mb_shape : MB = [C1; SIf C2 FWD BWD].
Proof. reflexivity. Qed.
Lemma fwd_shape : FWD = [SAssign (TName "d") (XName "origin"); SAssign (TName "n") (XName "origin");
                         SFor "$while" (XName "$fuel") FWD_BODY] ++ EXH.
Proof. reflexivity. Qed.
Lemma bwd_shape : BWD = [SAssign (TName "n") (XName "origin"); SFor "$while" (XName "$fuel") BWD_BODY] ++ EXH.
Proof. reflexivity. Qed.

(* what the caller of a function sees of a block that ends the function *)
Definition outcome_val (r : res outcome) : res pv :=
  match r with Ok (Next _) => Ok PNone | Ok (Ret _ v) => Ok v | Exc k => Exc k | Stuck => Stuck end.

Section Tie.
Variable call_ref : nat -> list pv -> pv.
Notation run := (call_function call_ref prim_datebin).
Notation exec_block := (PyMini.exec_block call_ref prim_datebin).
Notation exec := (PyMini.exec call_ref prim_datebin).
Notation eval := (PyMini.eval call_ref prim_datebin).
Notation for_loop := (for_loop call_ref prim_datebin).

Variables (y m dd source origin : Z) (fuel0 : list pv).
Let r := mkrd y m dd.

(* the locals: the four parameters, then what the branch has assigned so far *)
Definition base : env :=
  [("stride", p_rdelta (mkrd y m dd)); ("source", PV (VDate source)); ("origin", PV (VDate origin));
   ("$fuel", PList fuel0)].
Definition S4 : st := {| locals := base; fields := [] |}.
Definition st_fwd (tl : env) (d n : Z) : st :=
  {| locals := base ++ [("d", PV (VDate d)); ("n", PV (VDate n))] ++ tl; fields := [] |}.
Definition st_bwd (tl : env) (n : Z) : st :=
  {| locals := base ++ [("n", PV (VDate n))] ++ tl; fields := [] |}.
Definition oktl (tl : env) : Prop := tl = [] \/ exists w, tl = [("$while", w)].

Definition KEX : outcome -> res outcome :=
  fun o => match o with Next s1 => exec_block s1 EXH | Ret _ _ => Ok o end.

Lemma exh_stuck s : exec_block s EXH = Stuck.
Proof. reflexivity. Qed.

Lemma ltb_negb_leb a b : negb (a <=? b) = (b <? a).
Proof. symmetry. apply Z.ltb_antisym. Qed.

Lemma fwd_loop : forall fuel d tl, oktl tl ->
  outcome_val (bind (for_loop FWD_BODY "$while" (st_fwd tl d d) fuel) KEX)
  = lift (bin_fwd true (fun n => rd_add n r) (length fuel) d source).
Proof.
  induction fuel as [|w fuel IH]; intros d tl Htl; [reflexivity|].
  cbn [for_loop length bin_fwd].
  assert (W : write (st_fwd tl d d) (TName "$while") w = st_fwd [("$while", w)] d d)
    by (destruct Htl as [->|[w' ->]]; reflexivity).
  rewrite W. clear W.
  specialize (IH).
  destruct (rd_add_cases d r) as [[n' E]|[E|E]].
  - unfold FWD_BODY, st_fwd, base. cbn. fold r. rewrite E. cbn. rewrite val_le_date, ltb_negb_leb.
    destruct (source <? n') eqn:Elt; cbn.
    + reflexivity.
    + apply (IH n' [("$while", w)]). right. eexists; reflexivity.
  - unfold FWD_BODY, st_fwd, base. cbn. fold r. rewrite E. reflexivity.
  - unfold FWD_BODY, st_fwd, base. cbn. fold r. rewrite E. reflexivity.
Qed.

Lemma bwd_loop : forall fuel n tl, oktl tl ->
  outcome_val (bind (for_loop BWD_BODY "$while" (st_bwd tl n) fuel) KEX)
  = lift (bin_bwd (fun n => rd_add n (rd_neg r)) (length fuel) n source).
Proof.
  induction fuel as [|w fuel IH]; intros n tl Htl; [reflexivity|].
  cbn [for_loop length bin_bwd].
  assert (W : write (st_bwd tl n) (TName "$while") w = st_bwd [("$while", w)] n)
    by (destruct Htl as [->|[w' ->]]; reflexivity).
  rewrite W. clear W.
  destruct (rd_add_cases n (rd_neg r)) as [[n' E]|[E|E]].
  - unfold BWD_BODY, st_bwd, base. cbn. fold r. rewrite E. cbn. rewrite val_le_date.
    destruct (n' <=? source) eqn:Ele; cbn.
    + reflexivity.
    + apply (IH n' [("$while", w)]). right. eexists; reflexivity.
  - unfold BWD_BODY, st_bwd, base. cbn. fold r. rewrite E. reflexivity.
  - unfold BWD_BODY, st_bwd, base. cbn. fold r. rewrite E. reflexivity.
Qed.

Lemma exec_block_app1 s a b c l :
  exec_block s ([a; b; c] ++ l) =
  bind (exec_block s [a; b]) (fun o => match o with Next s1 => bind (exec s1 c) (fun o => match o with Next s2 => exec_block s2 l | Ret _ _ => Ok o end) | Ret _ _ => Ok o end).
Proof.
  cbn [app PyMini.exec_block]. destruct (exec s a) as [[s1|s1 v]| |]; cbn [bind]; try reflexivity.
  destruct (exec s1 b) as [[s2|s2 v]| |]; cbn [bind]; reflexivity.
Qed.

Lemma fwd_block :
  outcome_val (exec_block S4 FWD) = lift (bin_fwd true (fun n => rd_add n r) (length fuel0) origin source).
Proof.
  rewrite fwd_shape, exec_block_app1.
  assert (E1 : exec_block S4 [SAssign (TName "d") (XName "origin"); SAssign (TName "n") (XName "origin")]
               = Ok (Next (st_fwd [] origin origin))) by reflexivity.
  rewrite E1. cbn [bind].
  rewrite (exec_for call_ref prim_datebin "$while" (XName "$fuel") FWD_BODY _ (st_fwd [] origin origin) fuel0)
    by reflexivity.
  apply (fwd_loop fuel0 origin []). left; reflexivity.
Qed.

Lemma exec_block_app2 s a c l :
  exec_block s ([a; c] ++ l) =
  bind (exec_block s [a]) (fun o => match o with Next s1 => bind (exec s1 c) (fun o => match o with Next s2 => exec_block s2 l | Ret _ _ => Ok o end) | Ret _ _ => Ok o end).
Proof.
  cbn [app PyMini.exec_block]. destruct (exec s a) as [[s1|s1 v]| |]; cbn [bind]; reflexivity.
Qed.

Lemma bwd_block :
  outcome_val (exec_block S4 BWD) = lift (bin_bwd (fun n => rd_add n (rd_neg r)) (length fuel0) origin source).
Proof.
  rewrite bwd_shape, exec_block_app2.
  assert (E1 : exec_block S4 [SAssign (TName "n") (XName "origin")] = Ok (Next (st_bwd [] origin))) by reflexivity.
  rewrite E1. cbn [bind].
  rewrite (exec_for call_ref prim_datebin "$while" (XName "$fuel") BWD_BODY _ (st_bwd [] origin) fuel0)
    by reflexivity.
  apply (bwd_loop fuel0 origin []). left; reflexivity.
Qed.

Lemma outcome_val_last (x : res outcome) :
  outcome_val (bind x (fun o => match o with Next s1 => exec_block s1 [] | Ret _ _ => Ok o end)) = outcome_val x.
Proof. destruct x as [[?|? ?]| |]; reflexivity. Qed.

Lemma c2_eval : eval S4 C2 = Ok (S4, PBool (origin <=? source)).
Proof. unfold C2, S4, base. cbn. rewrite val_le_date. destruct (origin <=? source); reflexivity. Qed.

Definition months_model (n : nat) : value :=
  match rd_add origin r with
  | VDate o1 =>
    if o1 <=? origin then VNull else
    if origin <=? source
    then bin_fwd true (fun n => rd_add n r) n origin source
    else bin_bwd (fun n => rd_add n (rd_neg r)) n origin source
  | e => e
  end.

Lemma mb_block : outcome_val (exec_block S4 MB) = lift (months_model (length fuel0)).
Proof.
  rewrite mb_shape. unfold months_model.
  remember (SIf C2 FWD BWD) as X eqn:EX.
  cbn [PyMini.exec_block].
  assert (E1 : exec S4 C1 = match lift (rd_add origin r) with
                            | Ok (PV (VDate o1)) => if o1 <=? origin then Ok (Ret S4 PNone) else Ok (Next S4)
                            | Ok _ => Stuck | Exc k => Exc k | Stuck => Stuck end).
  { unfold C1, S4, base. cbn. fold r.
    destruct (rd_add_cases origin r) as [[o1 E]|[E|E]]; rewrite E; cbn; [|reflexivity|reflexivity].
    rewrite val_le_date. destruct (o1 <=? origin); reflexivity. }
  rewrite E1. clear E1.
  destruct (rd_add_cases origin r) as [[o1 E]|[E|E]]; rewrite E; cbn [lift py_kind bind Z.eqb]; try reflexivity.
  destruct (o1 <=? origin); cbn [bind]; [reflexivity|].
  subst X. rewrite outcome_val_last.
  rewrite (exec_if call_ref prim_datebin C2 FWD BWD S4 S4 _ (origin <=? source) c2_eval) by reflexivity.
  destruct (origin <=? source); [apply fwd_block|apply bwd_block].
Qed.

Definition day_result : Z := origin + (source - origin) / dd * dd.

Lemma db_block : (0 < dd -> valid_ord day_result = true) ->
  outcome_val (exec_block S4 DB) =
  lift (if dd <? 0 then VNull else if dd =? 0 then VErr 4 else VDate day_result).
Proof.
  intros Hok. unfold DB, S4, base. cbn. rewrite !Z.add_0_r, val_le_int.
  destruct (dd <? 0) eqn:Eneg.
  - apply Z.ltb_lt in Eneg. replace (0 <=? dd * 86400) with false by (symmetry; apply Z.leb_gt; lia).
    reflexivity.
  - apply Z.ltb_ge in Eneg. replace (0 <=? dd * 86400) with true by (symmetry; apply Z.leb_le; lia).
    cbn. destruct (dd =? 0) eqn:Ez.
    + apply Z.eqb_eq in Ez. rewrite Ez. reflexivity.
    + apply Z.eqb_neq in Ez.
      replace (dd * 86400 =? 0) with false by (symmetry; apply Z.eqb_neq; lia).
      cbn.
      assert (A : ((source - origin) * 86400 - ((source - origin) * 86400) mod (dd * 86400)) / 86400
                  = (source - origin) / dd * dd).
      { rewrite Zmult_mod_distr_r.
        rewrite <- Z.mul_sub_distr_r, Z.div_mul by lia.
        pose proof (Z.div_mod (source - origin) dd Ez). lia. }
      rewrite A. unfold add_days. fold day_result. rewrite (Hok ltac:(lia)). cbn.
      rewrite val_le_int.
      replace (0 <=? ((source - origin) * 86400) mod (dd * 86400)) with true
        by (symmetry; apply Z.leb_le; apply Z.mod_pos_bound; lia).
      reflexivity.
Qed.

Lemma cond_eval : eval S4 COND = Ok (S4, PInt (if m =? 0 then y else m)).
Proof. unfold COND, S4, base. cbn. destruct (m =? 0); reflexivity. Qed.

Definition day_ok : Prop := m = 0 -> y = 0 -> 0 < dd -> valid_ord day_result = true.

Theorem date_bin_src_fuel_sec : day_ok ->
  run env2_date_bin [p_rdelta r; PV (VDate source); PV (VDate origin); PList fuel0]
  = lift (date_bin_fuel (length fuel0) r source origin).
Proof.
  intros Hok. unfold call_function.
  change (bind_params (f_params env2_date_bin) [p_rdelta r; PV (VDate source); PV (VDate origin); PList fuel0])
    with (Some base).
  change (f_gen env2_date_bin) with false. cbv iota.
  rewrite body_shape. fold S4.
  transitivity (outcome_val (exec_block S4 [SIf COND MB DB])).
  { destruct (exec_block S4 [SIf COND MB DB]) as [[?|? ?]| |]; reflexivity. }
  cbn [PyMini.exec_block]. rewrite outcome_val_last.
  rewrite (exec_if call_ref prim_datebin COND MB DB S4 S4 _ (negb ((if m =? 0 then y else m) =? 0)) cond_eval)
    by reflexivity.
  unfold date_bin_fuel. cbn [rd_months rd_years rd_days r].
  destruct (m =? 0) eqn:Em; cbn [negb orb].
  - destruct (y =? 0) eqn:Ey; cbn [negb].
    + apply db_block. intros H. apply Z.eqb_eq in Em, Ey. apply Hok; assumption.
    + apply mb_block.
  - rewrite Em. apply mb_block.
Qed.

End Tie.

(* ------------------------------------------------------------------ the closed statements *)
Definition run_date_bin (call_ref : nat -> list pv -> pv) (fuel : list pv) (r : rdelta) (source origin : Z) : res pv :=
  call_function call_ref prim_datebin env2_date_bin [p_rdelta r; PV (VDate source); PV (VDate origin); PList fuel].

(* strides in days: the result must be a date (the model has no OverflowError there) *)
Definition day_in_range (r : rdelta) (source origin : Z) : Prop :=
  rd_months r = 0 -> rd_years r = 0 -> 0 < rd_days r ->
  valid_ord (origin + (source - origin) / rd_days r * rd_days r) = true.

Theorem date_bin_src_fuel : forall call_ref fuel r source origin, day_in_range r source origin ->
  run_date_bin call_ref fuel r source origin = lift (date_bin_fuel (length fuel) r source origin).
Proof.
  intros call_ref fuel [y m dd] source origin H. apply date_bin_src_fuel_sec. exact H.
Qed.

Theorem date_bin_src : forall call_ref fuel r source origin, day_in_range r source origin ->
  date_bin_rd r source origin <> VErr 9 -> (model_fuel source origin <= length fuel)%nat ->
  run_date_bin call_ref fuel r source origin = lift (date_bin_rd r source origin).
Proof.
  intros call_ref fuel r source origin Hd Hne Hf. rewrite date_bin_src_fuel by exact Hd.
  rewrite date_bin_fuel_enough by assumption. reflexivity.
Qed.

Lemma months_day_in_range r source origin : rd_months r <> 0 \/ rd_years r <> 0 -> day_in_range r source origin.
Proof. intros [H|H] Hm Hy; contradiction. Qed.

(* the bound is sufficient whenever adding the stride makes progress: forward ... *)
Theorem date_bin_src_progress_fwd : forall call_ref fuel r source origin,
  (rd_months r <> 0 \/ rd_years r <> 0) ->
  (forall n, origin <= n <= source -> exists n', rd_add n r = VDate n' /\ n < n') ->
  origin <= source -> (Z.to_nat (source - origin + 1) <= length fuel)%nat ->
  run_date_bin call_ref fuel r source origin = lift (date_bin_rd r source origin).
Proof.
  intros call_ref fuel r source origin Hr Hp Hle Hf.
  apply date_bin_src; [apply months_day_in_range; exact Hr| |].
  - destruct (date_bin_months_fwd r source origin Hr Hp Hle) as (k & b & nxt & E & _). rewrite E. discriminate.
  - unfold model_fuel. replace (origin <=? source) with true by (symmetry; apply Z.leb_le; exact Hle). exact Hf.
Qed.

(* ... and backward *)
Theorem date_bin_src_progress_bwd : forall call_ref fuel r source origin,
  (rd_months r <> 0 \/ rd_years r <> 0) ->
  (exists o1, rd_add origin r = VDate o1 /\ origin < o1) ->
  (forall x, source < x <= origin -> exists x', rd_add x (rd_neg r) = VDate x' /\ x' < x) ->
  source < origin -> (Z.to_nat (origin - source + 1) <= length fuel)%nat ->
  run_date_bin call_ref fuel r source origin = lift (date_bin_rd r source origin).
Proof.
  intros call_ref fuel r source origin Hr Ho Hp Hlt Hf.
  apply date_bin_src; [apply months_day_in_range; exact Hr| |].
  - destruct (date_bin_months_bwd r source origin Hr Ho Hp Hlt) as (k & b & prev & E & _). rewrite E. discriminate.
  - unfold model_fuel. replace (origin <=? source) with false by (symmetry; apply Z.leb_gt; exact Hlt). exact Hf.
Qed.

(* strides in days: no loop, any fuel (even none) *)
Theorem date_bin_src_days : forall call_ref fuel k source origin,
  (0 < k -> valid_ord (origin + (source - origin) / k * k) = true) ->
  run_date_bin call_ref fuel (mkrd 0 0 k) source origin = lift (date_bin_rd (mkrd 0 0 k) source origin).
Proof.
  intros call_ref fuel k source origin H. rewrite date_bin_src_fuel by (intros _ _; exact H). reflexivity.
Qed.

(* the month / year strides of the exhaustive statements on 1900-01-01 .. 2100-12-31: progress was checked for every date *)
Theorem date_bin_src_range : forall call_ref fuel r source origin,
  In r bin_strides -> in_range origin -> in_range source ->
  (Z.to_nat (Z.abs (source - origin) + 1) <= length fuel)%nat ->
  run_date_bin call_ref fuel r source origin = lift (date_bin_rd r source origin).
Proof.
  intros call_ref fuel r source origin Hr Ho Hs Hf.
  destruct (Z_le_gt_dec origin source) as [Hle|Hgt].
  - apply date_bin_src_progress_fwd; [apply stride_nonzero; exact Hr| |exact Hle|].
    + intros n Hn. apply (progress r n Hr). unfold in_range in *. lia.
    + rewrite Z.abs_eq in Hf by lia. exact Hf.
  - apply date_bin_src_progress_bwd; [apply stride_nonzero; exact Hr| | |lia|].
    + apply (progress r origin Hr Ho).
    + intros x Hx. apply (progress r x Hr). unfold in_range in *. lia.
    + rewrite Z.abs_neq in Hf by lia. replace (origin - source + 1) with (- (source - origin) + 1) by lia. exact Hf.
Qed.
