From Coq Require Import List Bool Sorted Permutation Lia.
Import ListNotations.

Section S.
Variable A : Type.

Definition total (le : A -> A -> bool) := forall x y, le x y = true \/ le y x = true.
Definition trans (le : A -> A -> bool) := forall x y z, le x y = true -> le y z = true -> le x z = true.
Definition eqv (le : A -> A -> bool) (a b : A) : bool := le a b && le b a.
Definition sorted (le : A -> A -> bool) := StronglySorted (fun x y => le x y = true).

Fixpoint insert (le : A -> A -> bool) (x : A) (l : list A) : list A :=
  match l with
  | [] => [x]
  | y :: t => if le x y then x :: y :: t else y :: insert le x t
  end.
Fixpoint isort (le : A -> A -> bool) (l : list A) : list A :=
  match l with [] => [] | x :: t => insert le x (isort le t) end.

Section One.
Variable le : A -> A -> bool.
Hypothesis Htot : total le.
Hypothesis Htr : trans le.

Lemma le_refl x : le x x = true.
Proof. destruct (Htot x x); assumption. Qed.

Lemma insert_perm x l : Permutation (x :: l) (insert le x l).
Proof.
  induction l as [|y t IH]; simpl; [reflexivity|].
  destruct (le x y); [reflexivity|].
  rewrite perm_swap. constructor. exact IH.
Qed.

Lemma isort_perm l : Permutation l (isort le l).
Proof.
  induction l as [|x t IH]; simpl; [constructor|].
  rewrite <- insert_perm. constructor. exact IH.
Qed.

Lemma insert_sorted x l : sorted le l -> sorted le (insert le x l).
Proof.
  induction l as [|y t IH]; simpl; intros Hs.
  - constructor; constructor.
  - inversion Hs as [|? ? Hst Hall]; subst.
    destruct (le x y) eqn:E.
    + constructor; [exact Hs|]. constructor; [exact E|].
      rewrite Forall_forall in *. intros z Hz. eapply Htr; [exact E|]. apply Hall; exact Hz.
    + constructor; [apply IH; exact Hst|].
      assert (Hyx : le y x = true) by (destruct (Htot x y) as [H|H]; [congruence|exact H]).
      rewrite Forall_forall in *. intros z Hz.
      apply (Permutation_in _ (Permutation_sym (insert_perm x t))) in Hz.
      destruct Hz as [->|Hz]; [exact Hyx| apply Hall; exact Hz].
Qed.

Lemma isort_sorted l : sorted le (isort le l).
Proof. induction l as [|x t IH]; simpl; [constructor|apply insert_sorted; exact IH]. Qed.

Lemma eqv_sym a b : eqv le a b = eqv le b a.
Proof. unfold eqv. apply andb_comm. Qed.
Lemma eqv_refl a : eqv le a a = true.
Proof. unfold eqv. rewrite le_refl. reflexivity. Qed.

Lemma insert_filter a x l : sorted le l ->
  filter (eqv le a) (insert le x l) = if eqv le a x then x :: filter (eqv le a) l else filter (eqv le a) l.
Proof.
  induction l as [|y t IH]; simpl; intros Hs; [reflexivity|].
  inversion Hs as [|? ? Hst Hall]; subst.
  destruct (le x y) eqn:E; simpl; [reflexivity|].
  rewrite (IH Hst).
  destruct (eqv le a x) eqn:Eax; [|reflexivity].
  destruct (eqv le a y) eqn:Eay; [|reflexivity].
  (* a ~ x and a ~ y imply le x y, contradiction *)
  exfalso. unfold eqv in *. apply andb_prop in Eax as [Hax Hxa]. apply andb_prop in Eay as [Hay Hya].
  assert (le x y = true) by (eapply Htr; eassumption). congruence.
Qed.

Lemma isort_stable a l : filter (eqv le a) (isort le l) = filter (eqv le a) l.
Proof.
  induction l as [|x t IH]; simpl; [reflexivity|].
  rewrite insert_filter by apply isort_sorted. rewrite IH. reflexivity.
Qed.

Lemma filter_head_in (f : A -> bool) l x r : filter f l = x :: r -> In x l /\ f x = true.
Proof.
  intros H. assert (Hin : In x (filter f l)) by (rewrite H; left; reflexivity).
  apply filter_In in Hin. exact Hin.
Qed.

Theorem stable_sort_unique l1 : forall l2,
  sorted le l1 -> sorted le l2 ->
  (forall a, filter (eqv le a) l1 = filter (eqv le a) l2) -> l1 = l2.
Proof.
  induction l1 as [|x t1 IH]; intros l2 H1 H2 HF.
  - destruct l2 as [|y t2]; [reflexivity|].
    specialize (HF y). simpl in HF. rewrite eqv_refl in HF. discriminate.
  - destruct l2 as [|y t2].
    + specialize (HF x). simpl in HF. rewrite eqv_refl in HF. discriminate.
    + inversion H1 as [|? ? Hs1 Ha1]; inversion H2 as [|? ? Hs2 Ha2]; subst.
      rewrite Forall_forall in Ha1, Ha2.
      assert (Hxy : x = y).
      { destruct (eqv le x y) eqn:E.
        - pose proof (HF x) as F. simpl in F. rewrite eqv_refl, E in F. congruence.
        - exfalso.
          pose proof (HF x) as Fx. simpl in Fx. rewrite eqv_refl, E in Fx.
          symmetry in Fx. apply filter_head_in in Fx as [Hin _].
          pose proof (HF y) as Fy. simpl in Fy. rewrite eqv_refl in Fy. rewrite (eqv_sym y x), E in Fy.
          apply filter_head_in in Fy as [Hin' _].
          apply Ha2 in Hin. apply Ha1 in Hin'.
          unfold eqv in E. rewrite Hin', Hin in E. discriminate. }
      subst y. f_equal. apply IH; [exact Hs1|exact Hs2|].
      intros a. specialize (HF a). simpl in HF. destruct (eqv le a x); congruence.
Qed.
End One.

(* flipped order *)
Definition flip (le : A -> A -> bool) : A -> A -> bool := fun x y => le y x.

Lemma total_flip le : total le -> total (flip le).
Proof. intros H x y. destruct (H x y); [right|left]; assumption. Qed.
Lemma trans_flip le : trans le -> trans (flip le).
Proof. intros H x y z H1 H2. unfold flip in *. eapply H; eassumption. Qed.
Lemma eqv_flip le a b : eqv (flip le) a b = eqv le a b.
Proof. unfold eqv, flip. apply andb_comm. Qed.

Lemma sorted_app le l1 l2 : sorted le l1 -> sorted le l2 ->
  (forall x y, In x l1 -> In y l2 -> le x y = true) -> sorted le (l1 ++ l2).
Proof.
  induction l1 as [|a t IH]; simpl; intros H1 H2 H; [exact H2|].
  inversion H1 as [|? ? Hs Ha]; subst. constructor.
  - apply IH; auto.
  - rewrite Forall_forall in *. intros z Hz. apply in_app_or in Hz as [Hz|Hz]; auto.
Qed.

Lemma sorted_rev le l : sorted le l -> sorted (flip le) (rev l).
Proof.
  induction l as [|a t IH]; simpl; intros H; [constructor|].
  inversion H as [|? ? Hs Ha]; subst. apply sorted_app.
  - apply IH; exact Hs.
  - constructor; constructor.
  - intros x y Hx [<-|[]]. unfold flip. rewrite Forall_forall in Ha. apply Ha. apply in_rev. exact Hx.
Qed.

Lemma filter_rev (f : A -> bool) l : filter f (rev l) = rev (filter f l).
Proof.
  induction l as [|a t IH]; simpl; [reflexivity|].
  rewrite filter_app, IH. simpl. destruct (f a); simpl; [reflexivity|apply app_nil_r].
Qed.

Definition py_sort (le : A -> A -> bool) (reverse : bool) (l : list A) : list A :=
  if reverse then rev (isort le (rev l)) else isort le l.

Theorem py_sort_reverse le l : total le -> trans le ->
  rev (isort le (rev l)) = isort (flip le) l.
Proof.
  intros Ht Hr. apply (stable_sort_unique (flip le) (total_flip _ Ht)).
  - apply sorted_rev. apply isort_sorted; assumption.
  - apply isort_sorted; [apply total_flip|apply trans_flip]; assumption.
  - intros a. rewrite filter_rev.
    rewrite (filter_ext _ _ (eqv_flip le a)).
    rewrite isort_stable by assumption. rewrite filter_rev, rev_involutive.
    rewrite isort_stable by (try apply total_flip; try apply trans_flip; assumption).
    apply filter_ext. intros b. symmetry. apply eqv_flip.
Qed.

(* lexicographic combination *)
Definition lex (le1 le2 : A -> A -> bool) : A -> A -> bool :=
  fun x y => if le1 x y then (if le1 y x then le2 x y else true) else false.

Lemma total_lex le1 le2 : total le1 -> total le2 -> total (lex le1 le2).
Proof.
  intros H1 H2 x y. unfold lex.
  destruct (le1 x y) eqn:E1, (le1 y x) eqn:E2; auto.
  destruct (H1 x y); congruence.
Qed.

Lemma trans_lex le1 le2 : total le1 -> trans le1 -> trans le2 -> trans (lex le1 le2).
Proof.
  intros Ht H1 H2 x y z. unfold lex.
  destruct (le1 x y) eqn:Exy; [|discriminate].
  destruct (le1 y z) eqn:Eyz; [|destruct (le1 y x); discriminate].
  assert (Exz : le1 x z = true) by (eapply H1; eassumption). rewrite Exz.
  destruct (le1 z x) eqn:Ezx; [|reflexivity].
  assert (Eyx : le1 y x = true) by (eapply H1; eassumption).
  assert (Ezy : le1 z y = true) by (eapply H1; eassumption).
  rewrite Eyx, Ezy. intros; eapply H2; eassumption.
Qed.

Lemma eqv_lex le1 le2 a b : eqv (lex le1 le2) a b = eqv le1 a b && eqv le2 a b.
Proof.
  unfold eqv, lex. destruct (le1 a b), (le1 b a), (le2 a b), (le2 b a); reflexivity.
Qed.

Lemma filter_filter (f g : A -> bool) l : filter f (filter g l) = filter (fun x => g x && f x) l.
Proof.
  induction l as [|a t IH]; simpl; [reflexivity|].
  destruct (g a); simpl; [destruct (f a); simpl; congruence|exact IH].
Qed.

Lemma sorted_filter le (f : A -> bool) l : sorted le l -> sorted le (filter f l).
Proof.
  induction l as [|a t IH]; simpl; intros H; [constructor|].
  inversion H as [|? ? Hs Ha]; subst.
  destruct (f a); [|apply IH; exact Hs].
  constructor; [apply IH; exact Hs|].
  rewrite Forall_forall in *. intros z Hz. apply filter_In in Hz as [Hz _]. apply Ha; exact Hz.
Qed.

Lemma sorted_classes_lex le1 le2 l : total le1 ->
  sorted le1 l -> (forall a, sorted le2 (filter (eqv le1 a) l)) -> sorted (lex le1 le2) l.
Proof.
  intros Ht1. induction l as [|x t IH]; intros H1 HC; [constructor|].
  inversion H1 as [|? ? Hs Ha]; subst. constructor.
  - apply IH; [exact Hs|]. intros a. specialize (HC a). simpl in HC.
    destruct (eqv le1 a x); [inversion HC; assumption|exact HC].
  - rewrite Forall_forall in *. intros y Hy. unfold lex. rewrite (Ha y Hy).
    destruct (le1 y x) eqn:E; [|reflexivity].
    specialize (HC x). simpl in HC.
    assert (Exx : eqv le1 x x = true) by (unfold eqv; rewrite (le_refl le1 Ht1 x); reflexivity).
    rewrite Exx in HC. inversion HC as [|? ? _ Hall]; subst.
    rewrite Forall_forall in Hall. apply Hall. apply filter_In. split; [exact Hy|].
    unfold eqv. rewrite (Ha y Hy), E. reflexivity.
Qed.

Theorem lsd_pass le1 le2 l : total le1 -> trans le1 -> total le2 -> trans le2 ->
  isort le1 (isort le2 l) = isort (lex le1 le2) l.
Proof.
  intros Ht1 Hr1 Ht2 Hr2.
  apply (stable_sort_unique (lex le1 le2) (total_lex _ _ Ht1 Ht2)).
  - apply sorted_classes_lex; [exact Ht1|apply isort_sorted; assumption|].
    intros a. rewrite isort_stable by assumption. apply sorted_filter. apply isort_sorted; assumption.
  - apply isort_sorted; [apply total_lex|apply trans_lex]; assumption.
  - intros a.
    rewrite (filter_ext _ _ (eqv_lex le1 le2 a)).
    rewrite <- (filter_filter (eqv le2 a) (eqv le1 a)).
    rewrite isort_stable by assumption.
    rewrite (filter_filter (eqv le2 a) (eqv le1 a)).
    rewrite (filter_ext (fun x => eqv le1 a x && eqv le2 a x) (fun x => eqv le2 a x && eqv le1 a x)) by (intros; apply andb_comm).
    rewrite <- (filter_filter (eqv le1 a) (eqv le2 a)).
    rewrite isort_stable by assumption.
    rewrite (filter_filter (eqv le1 a) (eqv le2 a)).
    rewrite (filter_ext (fun x => eqv le2 a x && eqv le1 a x) (fun x => eqv le1 a x && eqv le2 a x)) by (intros; apply andb_comm).
    rewrite <- (filter_ext _ _ (eqv_lex le1 le2 a)).
    rewrite isort_stable by (try apply total_lex; try apply trans_lex; assumption).
    reflexivity.
Qed.

(* ---- pointwise-equal comparators ---- *)
Definition peq (le1 le2 : A -> A -> bool) := forall x y, le1 x y = le2 x y.

Lemma insert_ext le1 le2 x l : peq le1 le2 -> insert le1 x l = insert le2 x l.
Proof. intros H. induction l as [|y t IH]; simpl; [reflexivity|]. rewrite H, IH. reflexivity. Qed.

Lemma isort_ext le1 le2 l : peq le1 le2 -> isort le1 l = isort le2 l.
Proof. intros H. induction l as [|x t IH]; simpl; [reflexivity|]. rewrite IH. apply insert_ext, H. Qed.

Lemma total_ext le1 le2 : peq le1 le2 -> total le1 -> total le2.
Proof. intros H T x y. rewrite <- !H. apply T. Qed.
Lemma trans_ext le1 le2 : peq le1 le2 -> trans le1 -> trans le2.
Proof. intros H T x y z. rewrite <- !H. apply T. Qed.

Definition triv : A -> A -> bool := fun _ _ => true.
Lemma total_triv : total triv. Proof. intros x y. now left. Qed.
Lemma trans_triv : trans triv. Proof. intros x y z _ _. reflexivity. Qed.

Lemma lex_triv_r le : peq (lex le triv) le.
Proof. intros x y. unfold lex, triv. destruct (le x y), (le y x); reflexivity. Qed.

Lemma lex_assoc le1 le2 le3 : peq (lex (lex le1 le2) le3) (lex le1 (lex le2 le3)).
Proof.
  intros x y. unfold lex.
  destruct (le1 x y), (le1 y x), (le2 x y), (le2 y x); reflexivity.
Qed.

Lemma flip_lex le1 le2 : peq (flip (lex le1 le2)) (lex (flip le1) (flip le2)).
Proof. intros x y. reflexivity. Qed.

Lemma lex_ext le1 le1' le2 le2' : peq le1 le1' -> peq le2 le2' -> peq (lex le1 le2) (lex le1' le2').
Proof. intros H1 H2 x y. unfold lex. rewrite !H1, !H2. reflexivity. Qed.

Lemma isort_triv l : isort triv l = l.
Proof. induction l as [|x t IH]; simpl; [reflexivity|]. rewrite IH. destruct t; reflexivity. Qed.

(* A comparator obtained by comparing images under f. *)
Definition on {B} (f : A -> B) (leB : B -> B -> bool) : A -> A -> bool := fun x y => leB (f x) (f y).
End S.

Arguments total {A}. Arguments trans {A}. Arguments eqv {A}. Arguments sorted {A}.
Arguments insert {A}. Arguments isort {A}. Arguments flip {A}. Arguments lex {A}. Arguments py_sort {A}.
Arguments peq {A}. Arguments triv {A}. Arguments on {A B}.

Lemma total_on {A B} (f : A -> B) leB : total leB -> total (on f leB).
Proof. intros T x y. apply T. Qed.
Lemma trans_on {A B} (f : A -> B) leB : trans leB -> trans (on f leB).
Proof. intros T x y z. apply T. Qed.
