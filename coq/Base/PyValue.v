(* Python values as BQL sees them, their ordering (as used by list.sort on
   nullitemgetter keys: NULL below everything) and equality (==, as used by
   dict/set keys: 1 == 1.0 == True). *)
From Coq Require Import ZArith QArith List Bool.
Import ListNotations.
From Verif Require Import Base.Out Base.StableSort.
Open Scope Z_scope.

(* finite decimal.Decimal: (-1)^dneg * dcoef * 10^dexp with dcoef >= 0 *)
Record dec := mkdec { dneg : bool; dcoef : Z; dexp : Z }.

Inductive value :=
| VNull
| VBool (b : bool)
| VInt (z : Z)
| VDec (d : dec)
| VStr (s : list Z)       (* code points *)
| VDate (o : Z)           (* proleptic Gregorian ordinal *)
| VErr (k : Z).           (* a Python exception, by kind *)

Definition dec_signed (d : dec) : Z := if dneg d then - dcoef d else dcoef d.

Definition dec_q (d : dec) : Q :=
  if 0 <=? dexp d then (dec_signed d * 10 ^ dexp d) # 1
  else dec_signed d # Z.to_pos (10 ^ (- dexp d)).

(* type class used only to keep the order total on mixed-type columns (Python
   raises TypeError there; typed BQL columns are homogeneous) *)
Definition rank (v : value) : Z :=
  match v with
  | VNull => 0 | VBool _ | VInt _ | VDec _ => 1 | VStr _ => 2 | VDate _ => 3 | VErr _ => 4
  end.

Definition num_q (v : value) : Q :=
  match v with
  | VBool b => (if b then 1 else 0) # 1
  | VInt z => z # 1
  | VDec d => dec_q d
  | VDate o => o # 1
  | VErr k => k # 1
  | _ => 0 # 1
  end.

Definition str_of (v : value) : list Z := match v with VStr s => s | _ => [] end.

Fixpoint list_le (a b : list Z) : bool :=
  match a, b with
  | [], _ => true
  | _ :: _, [] => false
  | x :: a', y :: b' => if x <? y then true else if y <? x then false else list_le a' b'
  end.

(* x <= y  (Python: not (y < x)) *)
Definition val_le : value -> value -> bool :=
  lex (on rank Z.leb) (lex (on num_q Qle_bool) (on str_of list_le)).

Definition val_eq (x y : value) : bool := eqv val_le x y.

(* rows, keys *)
Definition row := list value.
Definition cell (i : nat) (r : row) : value := nth i r VNull.

Fixpoint row_eq (a b : row) : bool :=
  match a, b with
  | [], [] => true
  | x :: a', y :: b' => val_eq x y && row_eq a' b'
  | _, _ => false
  end.

(* serialisation *)
Definition o_dec (d : dec) : out := OL [o_bool (dneg d); ON (dcoef d); ON (dexp d)].
Definition o_value (v : value) : out :=
  match v with
  | VNull => OL [ON 0]
  | VBool b => OL [ON 1; o_bool b]
  | VInt z => OL [ON 2; ON z]
  | VDec d => OL [ON 3; o_dec d]
  | VStr s => OL [ON 4; o_str s]
  | VDate o => OL [ON 5; ON o]
  | VErr k => OL [ON 6; ON k]
  end.
Definition o_row (r : row) : out := OL (map o_value r).
Definition o_rows (l : list row) : out := OL (map o_row l).
