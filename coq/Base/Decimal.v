(* Python decimal.Decimal arithmetic on finite values in the default context
   (prec = 28, ROUND_HALF_EVEN), following Lib/_pydecimal.py. Infinities, NaNs,
   exponent clamping (Emin/Emax) are out of scope: operands here are small. *)
From Coq Require Import ZArith List Bool.
Import ListNotations.
From Verif Require Import Base.PyValue.
Open Scope Z_scope.

Definition PREC : Z := 28.

Fixpoint digits_fuel (fuel : nat) (c : Z) : Z :=
  match fuel with
  | O => 1
  | S f => if c <? 10 then 1 else 1 + digits_fuel f (c / 10)
  end.
(* len(str(c)) for c >= 0 *)
Definition ndigits (c : Z) : Z := digits_fuel (S (Z.to_nat (Z.log2 c))) c.

(* Decimal._fix: round to PREC significant digits, ties to even *)
Definition dec_fix (d : dec) : dec :=
  let n := ndigits (dcoef d) in
  if n <=? PREC then d
  else
    let k := n - PREC in
    let p := 10 ^ k in
    let q := dcoef d / p in
    let r := dcoef d mod p in
    let half := 5 * 10 ^ (k - 1) in
    let q' := if half <? r then q + 1
              else if r =? half then (if Z.odd q then q + 1 else q) else q in
    if q' =? 10 ^ PREC then mkdec (dneg d) (q' / 10) (dexp d + k + 1)
    else mkdec (dneg d) q' (dexp d + k).

Definition dec_of_Z (z : Z) : dec := mkdec (z <? 0) (Z.abs z) 0.
Definition dec_is_zero (d : dec) : bool := dcoef d =? 0.

(* x + y *)
Definition dec_add (x y : dec) : dec :=
  let e := Z.min (dexp x) (dexp y) in
  let a := dec_signed x * 10 ^ (dexp x - e) in
  let b := dec_signed y * 10 ^ (dexp y - e) in
  let s := a + b in
  let neg := if s =? 0
             then (if dec_is_zero x && dec_is_zero y then dneg x && dneg y else false)
             else s <? 0 in
  dec_fix (mkdec neg (Z.abs s) e).

(* -x : zero becomes +0 *)
Definition dec_neg (x : dec) : dec :=
  if dec_is_zero x then dec_fix (mkdec false 0 (dexp x))
  else dec_fix (mkdec (negb (dneg x)) (dcoef x) (dexp x)).

(* copy_negate used by subtraction keeps the sign of zero flipped *)
Definition dec_sub (x y : dec) : dec := dec_add x (mkdec (negb (dneg y)) (dcoef y) (dexp y)).

Definition dec_abs (x : dec) : dec := dec_fix (mkdec false (dcoef x) (dexp x)).

Definition dec_mul (x y : dec) : dec :=
  dec_fix (mkdec (xorb (dneg x) (dneg y)) (dcoef x * dcoef y) (dexp x + dexp y)).

Fixpoint strip_zeros (fuel : nat) (c e ideal : Z) : Z * Z :=
  match fuel with
  | O => (c, e)
  | S f => if (e <? ideal) && (c mod 10 =? 0) then strip_zeros f (c / 10) (e + 1) ideal else (c, e)
  end.

(* x / y, y <> 0 *)
Definition dec_div (x y : dec) : dec :=
  let sign := xorb (dneg x) (dneg y) in
  if dec_is_zero x then dec_fix (mkdec sign 0 (dexp x - dexp y))
  else
    let shift := ndigits (dcoef y) - ndigits (dcoef x) + PREC + 1 in
    let e := dexp x - dexp y - shift in
    let num := if 0 <=? shift then dcoef x * 10 ^ shift else dcoef x in
    let den := if 0 <=? shift then dcoef y else dcoef y * 10 ^ (- shift) in
    let q := num / den in
    let r := num mod den in
    if r =? 0 then
      let '(c, e') := strip_zeros 200 q e (dexp x - dexp y) in
      dec_fix (mkdec sign c e')
    else
      dec_fix (mkdec sign (if q mod 5 =? 0 then q + 1 else q) e).

(* x % y, y <> 0: remainder has the sign of the dividend *)
Definition dec_mod (x y : dec) : dec :=
  let e := Z.min (dexp x) (dexp y) in
  let a := dcoef x * 10 ^ (dexp x - e) in
  let b := dcoef y * 10 ^ (dexp y - e) in
  dec_fix (mkdec (dneg x) (a mod b) e).

(* int(d): truncation towards zero *)
Definition dec_to_Z (d : dec) : Z :=
  let m := if 0 <=? dexp d then dcoef d * 10 ^ dexp d else dcoef d / 10 ^ (- dexp d) in
  if dneg d then - m else m.
