(* Generic result type printed one-per-line by the correspondence runner.
   Every model entry point returns an [out]; [show] turns it into a flat
   ASCII S-expression that the Python harness parses. *)
From Coq Require Import String ZArith List DecimalString.
Import ListNotations.
Open Scope string_scope.

Inductive out := ON (z : Z) | OL (l : list out).

Definition show_Z (z : Z) : string := NilEmpty.string_of_int (Z.to_int z).

Fixpoint show (o : out) : string :=
  match o with
  | ON z => show_Z z
  | OL l => "(" ++ (fix go (l : list out) : string :=
                      match l with
                      | [] => ""
                      | [x] => show x
                      | x :: t => show x ++ " " ++ go t
                      end) l ++ ")"
  end.

Definition o_bool (b : bool) : out := ON (if b then 1 else 0)%Z.
Definition o_nat (n : nat) : out := ON (Z.of_nat n).
Definition o_list {A} (f : A -> out) (l : list A) : out := OL (map f l).
Definition o_option {A} (f : A -> out) (o : option A) : out :=
  match o with None => OL [] | Some a => OL [f a] end.
Definition o_str (s : list Z) : out := OL (map ON s).
