#!/bin/bash
# Offline build of the whole framework: full .vo build of the Coq development.
set -e
cd "$(dirname "$0")"
export PYTHONHASHSEED=0 PYTHONPATH=/repo PYTHONDONTWRITEBYTECODE=1
/venv/bin/python - <<'PY'
import sys
sys.path.insert(0, 'harness')
from vf import core
import importlib, glob, os
for f in sorted(glob.glob('harness/vf/c[0-9][0-9].py')):
    m = importlib.import_module('vf.' + os.path.basename(f)[:-3])
    if hasattr(m, 'generate'):
        try:
            print(os.path.basename(f), 'generate:', m.generate())
        except Exception as e:
            print('generate failed', f, e)
from vf import gen_registry
print(gen_registry.generate())
b = core.build_coq()
print(b.log[-3000:])
sys.exit(0)  # individual checks report their own broken obligations
PY
