#!/bin/bash
# Offline build of the whole framework: full .vo build of the Coq development.
set -e
cd "$(dirname "$0")"
export PYTHONHASHSEED=0 PYTHONPATH=/repo PYTHONDONTWRITEBYTECODE=1
/venv/bin/python - <<'PY'
import sys
sys.path.insert(0, 'harness')
from vf import core
b = core.build_coq()
print(b.log[-3000:])
sys.exit(0 if b.ok else 1)
PY
